import ZixModel.Model.Path
import ZixModel.Spec.Cpp17Path
namespace Zix.Path.Norm
open Zix.Path Zix.PathSpec

/-- the dot-dot element -/
abbrev dd : List Nat := [dot, dot]

/-- a non-empty filename element: no separator, no NUL -/
def OkName (n : List Nat) : Prop := n ≠ [] ∧ sep ∉ n ∧ 0 ∉ n

/-- Text of a relative part: each element followed by `k+1` separators. -/
def flat : List (List Nat × Nat) → List Nat
  | [] => []
  | e :: es => e.1 ++ (List.replicate (e.2 + 1) sep ++ flat es)

/-- Each name followed by exactly one separator. -/
def flat1 : List (List Nat) → List Nat
  | [] => []
  | n :: ns => n ++ (sep :: flat1 ns)

theorem isSep_sep : isSep sep = true := by decide
theorem isSep_iff (c : Nat) : isSep c = true ↔ c = sep := by simp [isSep]

theorem flat1_eq_flat (ns : List (List Nat)) : flat1 ns = flat (ns.map (fun n => (n, 0))) := by
  induction ns with
  | nil => rfl
  | cons n ns ih => simp [flat1, flat, ih]

theorem flat1_append (a b : List (List Nat)) : flat1 (a ++ b) = flat1 a ++ flat1 b := by
  induction a with
  | nil => rfl
  | cons n ns ih => simp [flat1, ih]

theorem flat1_snoc (a : List (List Nat)) (x : List Nat) : flat1 (a ++ [x]) = flat1 a ++ x ++ [sep] := by
  simp [flat1_append, flat1]

/-- head of a relative part is not a separator -/
theorem headD_flat_tail (es : List (List Nat × Nat)) (tail : List Nat)
    (hes : ∀ e ∈ es, OkName e.1) (ht : tail = [] ∨ OkName tail) :
    (flat es ++ tail).headD 0 ≠ sep := by
  cases es with
  | nil =>
    rcases ht with rfl | ⟨h1, h2, _⟩
    · decide
    · cases tail with
      | nil => exact absurd rfl h1
      | cons c cs => simp at h2 ⊢; exact fun h => h2.1 h.symm
  | cons e es =>
    obtain ⟨h1, h2, _⟩ := hes e (by simp)
    rcases e with ⟨n, k⟩
    cases n with
    | nil => exact absurd rfl h1
    | cons c cs => simp [flat] at h2 ⊢; exact fun h => h2.1 h.symm

theorem length_le_flat (es : List (List Nat × Nat)) : es.length ≤ (flat es).length := by
  induction es with
  | nil => simp [flat]
  | cons e es ih => simp [flat]; omega

/-! ## the scans -/

theorem at'_append_right (pre post : List Nat) : at' (pre ++ post) pre.length = post.headD 0 := by
  cases post <;> simp [at']

theorem skipName_name (pre name post : List Nat) (hn : sep ∉ name ∧ 0 ∉ name)
    (hp : post.headD 0 = 0 ∨ post.headD 0 = sep) (fuel : Nat) (hf : name.length < fuel) :
    skipName (pre ++ name ++ post) fuel pre.length = pre.length + name.length := by
  induction name generalizing pre fuel with
  | nil =>
    cases fuel with
    | zero => omega
    | succ f =>
      rw [List.append_nil, skipName, at'_append_right]
      rcases hp with h | h <;> rw [h] <;> simp [isSep_sep]
  | cons c cs ih =>
    cases fuel with
    | zero => omega
    | succ f =>
      have hc : c ≠ 0 ∧ c ≠ sep := by
        simp at hn; exact ⟨fun h => hn.2.1 h.symm, fun h => hn.1.1 h.symm⟩
      have e1 : pre ++ c :: cs ++ post = pre ++ (c :: (cs ++ post)) := by simp
      have e2 : pre ++ c :: cs ++ post = (pre ++ [c]) ++ cs ++ post := by simp
      have hat : at' (pre ++ c :: cs ++ post) pre.length = c := by rw [e1, at'_append_right]; rfl
      rw [skipName, hat]
      have : isSep c = false := by
        cases h : isSep c with
        | false => rfl
        | true => exact absurd ((isSep_iff c).1 h) hc.2
      simp only [this, ne_eq, hc.1, not_false_eq_true, Bool.not_false, and_self, if_true]
      have := ih (pre ++ [c]) (by simp at hn ⊢; exact ⟨hn.1.2, hn.2.2⟩) f (by simp at hf; omega)
      rw [e2]
      simp at this ⊢
      rw [this]; omega

theorem skipSeps_seps (pre post : List Nat) (n : Nat) (hp : post.headD 0 ≠ sep) (fuel : Nat) (hf : n ≤ fuel) :
    skipSeps (pre ++ List.replicate n sep ++ post) fuel pre.length = pre.length + n := by
  induction n generalizing pre fuel with
  | zero =>
    cases fuel with
    | zero => simp [skipSeps]
    | succ f =>
      have : isSep (post.headD 0) = false := by
        cases h : isSep (post.headD 0) with
        | false => rfl
        | true => exact absurd ((isSep_iff _).1 h) hp
      rw [List.replicate_zero, List.append_nil, skipSeps, at'_append_right, this]; simp
  | succ n ih =>
    cases fuel with
    | zero => omega
    | succ f =>
      have e1 : pre ++ List.replicate (n + 1) sep ++ post = pre ++ (sep :: (List.replicate n sep ++ post)) := by
        simp [List.replicate_succ]
      have e2 : pre ++ List.replicate (n + 1) sep ++ post = (pre ++ [sep]) ++ List.replicate n sep ++ post := by
        simp [List.replicate_succ]
      have hat : at' (pre ++ List.replicate (n + 1) sep ++ post) pre.length = sep := by
        rw [e1, at'_append_right]; rfl
      rw [skipSeps, hat]
      simp only [isSep_sep, if_true]
      have := ih (pre ++ [sep]) f (by omega)
      rw [e2]
      simp at this ⊢
      rw [this]; omega

theorem relElems_end (s : List Nat) (fuel i : Nat) (h : s.length ≤ i) : relElems s fuel i = [] := by
  cases fuel with
  | zero => rfl
  | succ f => simp [relElems, h]

/-- The elements of a relative part `flat es ++ tail` starting after `pre`. -/
theorem relElems_decomp (es : List (List Nat × Nat)) (tail : List Nat)
    (hes : ∀ e ∈ es, OkName e.1) (ht : tail = [] ∨ OkName tail)
    (pre : List Nat) (fuel : Nat) (hf : es.length < fuel) :
    relElems (pre ++ flat es ++ tail) fuel pre.length
      = es.map (fun e => (e.1, true)) ++ (if tail = [] then [] else [(tail, false)]) := by
  induction es generalizing pre fuel with
  | nil =>
    cases fuel with
    | zero => omega
    | succ f =>
      by_cases htl : tail = []
      · subst htl; simp [flat, relElems]
      · have hok : OkName tail := ht.resolve_left htl
        have hlen : 0 < tail.length := List.length_pos_iff.2 htl
        have e1 : pre ++ flat [] ++ tail = pre ++ tail ++ [] := by simp [flat]
        have hsk : skipName (pre ++ tail ++ []) ((pre ++ tail ++ []).length + 1) pre.length
            = pre.length + tail.length :=
          skipName_name pre tail [] ⟨hok.2.1, hok.2.2⟩ (Or.inl rfl) _ (by simp; omega)
        have hss : skipSeps (pre ++ tail ++ []) ((pre ++ tail ++ []).length + 1) (pre.length + tail.length)
            = pre.length + tail.length := by
          have := skipSeps_seps (pre ++ tail) [] 0 (by decide) ((pre ++ tail ++ []).length + 1) (by omega)
          simpa using this
        rw [e1, relElems, hsk]; dsimp only; rw [hss]
        have : ¬ (pre.length ≥ (pre ++ tail ++ []).length) := by simp; omega
        rw [if_neg this, relElems_end _ _ _ (by simp)]
        simp [htl]
  | cons e es ih =>
    cases fuel with
    | zero => omega
    | succ f =>
      rcases e with ⟨n, k⟩
      have hok : OkName n := hes (n, k) (by simp)
      have hes' : ∀ e ∈ es, OkName e.1 := fun e he => hes e (by simp [he])
      have hlen : 0 < n.length := List.length_pos_iff.2 hok.1
      have hhd := headD_flat_tail es tail hes' ht
      let s := pre ++ flat ((n, k) :: es) ++ tail
      have e1 : s = pre ++ n ++ (List.replicate (k + 1) sep ++ (flat es ++ tail)) := by
        simp [s, flat]
      have e2 : s = (pre ++ n) ++ List.replicate (k + 1) sep ++ (flat es ++ tail) := by
        simp [s, flat]
      have e3 : s = (pre ++ n ++ List.replicate (k + 1) sep) ++ flat es ++ tail := by
        simp [s, flat]
      have hsl : s.length = pre.length + n.length + (k + 1) + (flat es ++ tail).length := by
        rw [e2]; simp; omega
      have hsk : skipName s (s.length + 1) pre.length = pre.length + n.length := by
        rw [e1]
        exact skipName_name pre n _ ⟨hok.2.1, hok.2.2⟩ (Or.inr (by simp [List.replicate_succ])) _
          (by simp; omega)
      have hss : skipSeps s (s.length + 1) (pre.length + n.length) = pre.length + n.length + (k + 1) := by
        have := skipSeps_seps (pre ++ n) (flat es ++ tail) (k + 1) hhd (s.length + 1) (by omega)
        rw [← e2] at this
        simpa using this
      show relElems s (f + 1) pre.length = _
      rw [relElems, hsk]; dsimp only; rw [hss]
      have : ¬ (pre.length ≥ s.length) := by omega
      rw [if_neg this]
      have hih := ih hes' (pre ++ n ++ List.replicate (k + 1) sep) f (by simp at hf; omega)
      rw [← e3] at hih
      have hl : (pre ++ n ++ List.replicate (k + 1) sep).length = pre.length + n.length + (k + 1) := by simp; omega
      rw [hl] at hih
      rw [hih]
      have htk : List.take (pre.length + n.length - pre.length) (List.drop pre.length s) = n := by
        rw [e1]; simp
      rw [htk]
      have : decide (pre.length + n.length < s.length) = true := by simp; omega
      simp [this]

/-! ## the specification's splitter on a decomposed relative part -/

theorem splitAux_name (n : List Nat) (hn : sep ∉ n) (fuel : Nat) (rest cur : List Nat) (hf : n.length ≤ fuel) :
    splitAux fuel (n ++ rest) cur = splitAux (fuel - n.length) rest (n.reverse ++ cur) := by
  induction n generalizing fuel cur with
  | nil => simp
  | cons c cs ih =>
    cases fuel with
    | zero => simp at hf
    | succ f =>
      have hc : isSep c = false := by
        cases h : isSep c with
        | false => rfl
        | true => simp [(isSep_iff c).1 h] at hn
      have := ih (by simp at hn; exact hn.2) f (c :: cur) (by simp at hf; omega)
      simp only [List.cons_append, splitAux, hc]
      rw [this]
      simp

theorem splitAux_nil (fuel : Nat) (cur : List Nat) : splitAux fuel [] cur = [cur.reverse] := by
  cases fuel <;> rfl

theorem dropWhile_seps (n : Nat) (r : List Nat) (hr : r.headD 0 ≠ sep) :
    (List.replicate n sep ++ r).dropWhile isSep = r := by
  induction n with
  | zero =>
    cases r with
    | nil => rfl
    | cons c cs =>
      have : isSep c = false := by
        cases h : isSep c with
        | false => rfl
        | true => exact absurd ((isSep_iff c).1 h) hr
      simp [this]
  | succ n ih => simp [List.replicate_succ, isSep_sep, ih]

theorem takeWhile_seps (n : Nat) (r : List Nat) (hr : r.headD 0 ≠ sep) :
    (List.replicate n sep ++ r).takeWhile isSep = List.replicate n sep := by
  induction n with
  | zero =>
    cases r with
    | nil => rfl
    | cons c cs =>
      have : isSep c = false := by
        cases h : isSep c with
        | false => rfl
        | true => exact absurd ((isSep_iff c).1 h) hr
      simp [this]
  | succ n ih => simp [List.replicate_succ, isSep_sep, ih]

theorem splitAux_decomp (es : List (List Nat × Nat)) (tail : List Nat)
    (hes : ∀ e ∈ es, OkName e.1) (ht : tail = [] ∨ OkName tail) (fuel : Nat)
    (hf : (flat es ++ tail).length < fuel) :
    splitAux fuel (flat es ++ tail) [] = es.map (·.1) ++ [tail] := by
  induction es generalizing fuel with
  | nil =>
    have hs : sep ∉ tail := by
      rcases ht with rfl | h
      · simp
      · exact h.2.1
    have := splitAux_name tail hs fuel [] [] (by simp [flat] at hf; omega)
    simp only [List.append_nil] at this
    simp [flat, this, splitAux_nil]
  | cons e es ih =>
    rcases e with ⟨n, k⟩
    have hok : OkName n := hes (n, k) (by simp)
    have hes' : ∀ e ∈ es, OkName e.1 := fun e he => hes e (by simp [he])
    have hhd := headD_flat_tail es tail hes' ht
    have hl : (flat ((n, k) :: es) ++ tail).length = n.length + (k + 1) + (flat es ++ tail).length := by
      simp [flat]; omega
    have e1 : flat ((n, k) :: es) ++ tail = n ++ (sep :: (List.replicate k sep ++ (flat es ++ tail))) := by
      simp [flat, List.replicate_succ]
    rw [e1, splitAux_name n hok.2.1 fuel _ _ (by omega)]
    obtain ⟨f', hf'⟩ : ∃ f', fuel - n.length = f' + 1 := ⟨fuel - n.length - 1, by omega⟩
    rw [hf', splitAux]
    simp only [isSep_sep, if_true, List.append_nil, List.reverse_reverse]
    rw [dropWhile_seps k _ hhd, ih hes' f' (by omega)]
    simp

theorem splitNames_decomp (es : List (List Nat × Nat)) (tail : List Nat)
    (hes : ∀ e ∈ es, OkName e.1) (ht : tail = [] ∨ OkName tail) :
    splitNames (flat es ++ tail) = if flat es ++ tail = [] then [] else es.map (·.1) ++ [tail] := by
  unfold splitNames
  split
  · rfl
  · exact splitAux_decomp es tail hes ht _ (by omega)

theorem parse_decomp (k : Nat) (es : List (List Nat × Nat)) (tail : List Nat)
    (hes : ∀ e ∈ es, OkName e.1) (ht : tail = [] ∨ OkName tail) :
    parse (List.replicate k sep ++ flat es ++ tail)
      = ⟨decide (0 < k), if flat es ++ tail = [] then [] else es.map (·.1) ++ [tail]⟩ := by
  have hhd := headD_flat_tail es tail hes ht
  unfold parse
  rw [List.append_assoc, dropWhile_seps k _ hhd, splitNames_decomp es tail hes ht]
  congr 1
  cases k with
  | zero =>
    simp only [List.replicate_zero, List.nil_append]
    cases h : isSep ((flat es ++ tail).headD 0) with
    | false => simp
    | true => exact absurd ((isSep_iff _).1 h) hhd
  | succ k => simp [List.replicate_succ, isSep_sep]

/-! ## the stack of kept elements (reversed: head = last element) -/

def step (root : Bool) (acc : List (List Nat)) (n : List Nat) : List (List Nat) :=
  if n = [dot] then acc
  else if n = dd then
    match acc with
    | prev :: acc' => if prev ≠ dd then acc' else n :: acc
    | [] => if root then acc else n :: acc
  else n :: acc

theorem normStack_eq (root : Bool) (l acc : List (List Nat)) :
    normStack root l acc = (l.foldl (step root) acc).reverse := by
  induction l generalizing acc with
  | nil => rfl
  | cons n rest ih =>
    rw [List.foldl_cons]
    by_cases h1 : n = [dot]
    · simp [normStack, h1, step, ih]
    · by_cases h2 : n = dd
      · subst h2
        cases acc with
        | nil => cases root <;> simp [normStack, step, ih]
        | cons prev acc' =>
          by_cases h3 : prev = dd
          · simp [normStack, step, ih, h3]
          · simp [normStack, step, ih, h3]
      · have h2' : n ≠ [dot, dot] := h2
        simp [normStack, step, ih, h1, h2']

/-! ## locating the last element of the output -/

theorem takeWhile_rev_name (x B : List Nat) (hx : sep ∉ x) (hB : B = [] ∨ ∃ B', B = B' ++ [sep]) :
    ((B ++ x).reverse.takeWhile (fun c => decide (c ≠ sep))) = x.reverse := by
  rw [List.reverse_append]
  have h1 : ∀ a ∈ x.reverse, (fun c => decide (c ≠ sep)) a = true := by
    intro a ha
    simp at ha ⊢
    intro h; exact hx (h ▸ ha)
  rw [List.takeWhile_append_of_pos h1]
  rcases hB with rfl | ⟨B', rfl⟩
  · simp
  · simp

theorem lastElemStart_snoc (R B x : List Nat) (hx : sep ∉ x) (hB : B = [] ∨ ∃ B', B = B' ++ [sep]) :
    lastElemStart (R ++ B ++ x ++ [sep]) R.length = (R ++ B).length := by
  unfold lastElemStart
  have h1 : (R ++ B ++ x ++ [sep]).length > R.length ∧ (R ++ B ++ x ++ [sep]).getLastD 0 = sep := by
    constructor
    · simp; omega
    · simp
  simp only [h1, and_self, if_true]
  have h2 : (R ++ B ++ x ++ [sep]).length - 1 = (R ++ B ++ x).length := by simp; omega
  rw [h2, List.take_left']
  · have h3 : List.drop R.length (R ++ B ++ x) = B ++ x := by simp [List.append_assoc]
    rw [h3, takeWhile_rev_name x B hx hB]
    simp; omega
  · rfl

theorem lastIsUp_snoc (R B x : List Nat) (hx : sep ∉ x) (hB : B = [] ∨ ∃ B', B = B' ++ [sep]) :
    lastIsUp (R ++ B ++ x ++ [sep]) R.length = (x == dd) := by
  unfold lastIsUp
  rw [lastElemStart_snoc R B x hx hB]
  have h1 : (R ++ B ++ x ++ [sep]).length > R.length ∧ (R ++ B ++ x ++ [sep]).getLastD 0 = sep := by
    constructor
    · simp; omega
    · simp
  simp only [h1, and_self, if_true]
  have h2 : (R ++ B ++ x ++ [sep]).length - 1 = (R ++ B ++ x).length := by simp; omega
  rw [h2, List.take_left' rfl, List.drop_left' rfl]

theorem flat1_ends (N : List (List Nat)) : flat1 N = [] ∨ ∃ B', flat1 N = B' ++ [sep] := by
  rcases List.eq_nil_or_concat N with rfl | ⟨N', x, rfl⟩
  · left; rfl
  · right; exact ⟨flat1 N' ++ x, by rw [List.concat_eq_append, flat1_snoc]⟩

/-! ## one step of the normaliser on a rendered stack -/

def rootText (root : Bool) : List Nat := if root then [sep] else []

theorem rootText_length (root : Bool) : (rootText root).length = if root then 1 else 0 := by
  cases root <;> rfl

theorem normStep_dot (rl : Nat) (hr : Bool) (out : List Nat) (b : Bool) :
    normStep rl hr out ([dot], b) = out := by
  simp [normStep]

theorem normStep_plain (rl : Nat) (hr : Bool) (out n : List Nat) (b : Bool) (h1 : n ≠ [dot]) (h2 : n ≠ dd) :
    normStep rl hr out (n, b) = out ++ n ++ (if b then [sep] else []) := by
  have h2' : n ≠ [dot, dot] := h2
  simp [normStep, h1, h2']

theorem normStep_up_empty (root : Bool) (b : Bool) :
    normStep (rootText root).length root (rootText root) (dd, b)
      = if root then rootText root else rootText root ++ dd ++ (if b then [sep] else []) := by
  cases root <;> simp [normStep, rootText]

theorem normStep_up_pop (root : Bool) (acc' : List (List Nat)) (x : List Nat) (hx : sep ∉ x) (hxd : x ≠ dd)
    (b : Bool) :
    normStep (rootText root).length root (rootText root ++ flat1 (x :: acc').reverse) (dd, b)
      = rootText root ++ flat1 acc'.reverse := by
  have e : rootText root ++ flat1 (x :: acc').reverse
      = rootText root ++ flat1 acc'.reverse ++ x ++ [sep] := by
    simp [flat1_snoc, List.append_assoc]
  rw [e]
  have hB := flat1_ends acc'.reverse
  have hlen : (rootText root ++ flat1 acc'.reverse ++ x ++ [sep]).length > (rootText root).length := by
    simp; omega
  have hup : lastIsUp (rootText root ++ flat1 acc'.reverse ++ x ++ [sep]) (rootText root).length = false := by
    rw [lastIsUp_snoc _ _ _ hx hB]; simp [hxd]
  simp only [normStep, hlen, hup, Bool.not_false, and_self, if_true]
  rw [lastElemStart_snoc _ _ _ hx hB]
  rw [List.append_assoc (rootText root ++ flat1 acc'.reverse), List.take_left' rfl, if_neg (by decide)]

theorem normStep_up_push (root : Bool) (acc' : List (List Nat)) (b : Bool) :
    normStep (rootText root).length root (rootText root ++ flat1 (dd :: acc').reverse) (dd, b)
      = rootText root ++ flat1 (dd :: acc').reverse ++ dd ++ (if b then [sep] else []) := by
  have e : rootText root ++ flat1 (dd :: acc').reverse
      = rootText root ++ flat1 acc'.reverse ++ dd ++ [sep] := by
    simp [flat1_snoc, List.append_assoc]
  rw [e]
  have hB := flat1_ends acc'.reverse
  have hlen : (rootText root ++ flat1 acc'.reverse ++ dd ++ [sep]).length > (rootText root).length := by
    simp
  have hup : lastIsUp (rootText root ++ flat1 acc'.reverse ++ dd ++ [sep]) (rootText root).length = true := by
    rw [lastIsUp_snoc _ _ _ (by decide) hB]; simp
  simp only [normStep, hlen, hup, Bool.not_true, and_false, or_true, if_true, if_false, Bool.false_eq_true]
  rw [if_neg (by decide)]

theorem normStep_followed (root : Bool) (acc : List (List Nat)) (hacc : ∀ x ∈ acc, OkName x) (n : List Nat) :
    normStep (rootText root).length root (rootText root ++ flat1 acc.reverse) (n, true)
      = rootText root ++ flat1 (step root acc n).reverse := by
  by_cases h1 : n = [dot]
  · subst h1; rw [normStep_dot]; simp [step]
  · by_cases h2 : n = dd
    · subst h2
      cases acc with
      | nil =>
        have := normStep_up_empty root true
        simp only [List.reverse_nil, flat1, List.append_nil]
        rw [this]
        cases root <;> simp [step, flat1]
      | cons x acc' =>
        by_cases h3 : x = dd
        · subst h3
          rw [normStep_up_push]
          simp [step, flat1_append, flat1]
        · rw [normStep_up_pop root acc' x (hacc x (by simp)).2.1 h3]
          simp [step, h3]
    · rw [normStep_plain _ _ _ _ _ h1 h2]
      have h2' : n ≠ [dot, dot] := h2
      simp [step, h1, h2', flat1_snoc]

theorem step_ok (root : Bool) (acc : List (List Nat)) (n : List Nat)
    (hacc : ∀ x ∈ acc, OkName x) (hn : OkName n) : ∀ x ∈ step root acc n, OkName x := by
  have hpush : ∀ x ∈ n :: acc, OkName x := by
    intro x hx
    rcases List.mem_cons.1 hx with rfl | h
    · exact hn
    · exact hacc x h
  unfold step
  split
  · exact hacc
  · split
    · split
      · rename_i prev acc'
        split
        · intro x hx; exact hacc x (by simp [hx])
        · exact hpush
      · split
        · exact hacc
        · exact hpush
    · exact hpush

theorem foldl_step_ok (root : Bool) (names acc : List (List Nat))
    (hacc : ∀ x ∈ acc, OkName x) (hn : ∀ n ∈ names, OkName n) :
    ∀ x ∈ names.foldl (step root) acc, OkName x := by
  induction names generalizing acc with
  | nil => exact hacc
  | cons n ns ih =>
    exact ih _ (step_ok root acc n hacc (hn n (by simp))) (fun m hm => hn m (by simp [hm]))

theorem foldl_normStep (root : Bool) (names acc : List (List Nat))
    (hacc : ∀ x ∈ acc, OkName x) (hn : ∀ n ∈ names, OkName n) :
    (names.map (fun n => (n, true))).foldl (normStep (rootText root).length root)
        (rootText root ++ flat1 acc.reverse)
      = rootText root ++ flat1 (names.foldl (step root) acc).reverse := by
  induction names generalizing acc with
  | nil => rfl
  | cons n ns ih =>
    simp only [List.map_cons, List.foldl_cons]
    rw [normStep_followed root acc hacc n]
    exact ih _ (step_ok root acc n hacc (hn n (by simp))) (fun m hm => hn m (by simp [hm]))

/-! ## the final clean-up -/

def stripCond (rootLen : Nat) (out : List Nat) : Prop :=
  out.length ≥ rootLen + 3 ∧ out.getD (out.length - 1) 0 = sep ∧ out.getD (out.length - 2) 0 = dot ∧
    out.getD (out.length - 3) 0 = dot ∧ (out.length = rootLen + 3 ∨ out.getD (out.length - 4) 0 = sep)

instance (rootLen : Nat) (out : List Nat) : Decidable (stripCond rootLen out) := by
  unfold stripCond; infer_instance

def finish (rootLen : Nat) (out : List Nat) : List Nat :=
  let out := if stripCond rootLen out then out.dropLast else out
  if out = [] then [dot] else out

theorem getD_rev_idx (rev : List Nat) (i j : Nat) (h : i + j + 1 = rev.length) :
    rev.reverse.getD i 0 = rev.getD j 0 := by
  rw [List.getD_eq_getElem?_getD, List.getD_eq_getElem?_getD, List.getElem?_reverse (by omega)]
  congr 2
  omega

theorem stripCond_iff (rl : Nat) (out : List Nat) :
    stripCond rl out ↔ ∃ rest, out.reverse = sep :: dot :: dot :: rest ∧ rest.length ≥ rl ∧
      (rest.length = rl ∨ rest.headD 0 = sep) := by
  obtain ⟨rev, rfl⟩ : ∃ rev, out = rev.reverse := ⟨out.reverse, by simp⟩
  unfold stripCond
  rw [List.reverse_reverse, List.length_reverse]
  match rev with
  | [] => simp
  | [a] => simp
  | [a, b] => simp
  | a :: b :: c :: rest =>
    have hA : (a :: b :: c :: rest).reverse.getD ((a :: b :: c :: rest).length - 1) 0 = a := by
      rw [getD_rev_idx _ _ 0 (by simp)]; rfl
    have hB : (a :: b :: c :: rest).reverse.getD ((a :: b :: c :: rest).length - 2) 0 = b := by
      rw [getD_rev_idx _ _ 1 (by simp)]; rfl
    have hC : (a :: b :: c :: rest).reverse.getD ((a :: b :: c :: rest).length - 3) 0 = c := by
      rw [getD_rev_idx _ _ 2 (by simp)]; rfl
    rw [hA, hB, hC]
    have hlen : (a :: b :: c :: rest).length = rest.length + 3 := by simp
    rw [hlen]
    constructor
    · rintro ⟨h0, rfl, rfl, rfl, h4⟩
      refine ⟨rest, rfl, by omega, ?_⟩
      rcases h4 with h4 | h4
      · left; omega
      · cases rest with
        | nil => left; simp at h0 ⊢; omega
        | cons d rest' =>
          right
          have hD : (sep :: dot :: dot :: d :: rest').reverse.getD ((d :: rest').length + 3 - 4) 0 = d := by
            rw [getD_rev_idx _ _ 3 (by simp)]; rfl
          rw [hD] at h4
          exact h4
    · rintro ⟨rest0, heq, h1, h2⟩
      simp only [List.cons.injEq] at heq
      obtain ⟨rfl, rfl, rfl, rfl⟩ := heq
      refine ⟨by omega, rfl, rfl, rfl, ?_⟩
      rcases h2 with h2 | h2
      · left; omega
      · cases rest with
        | nil => exact absurd h2 (by decide)
        | cons d rest' =>
          right
          have hD : (sep :: dot :: dot :: d :: rest').reverse.getD ((d :: rest').length + 3 - 4) 0 = d := by
            rw [getD_rev_idx _ _ 3 (by simp)]; rfl
          rw [hD]
          exact h2

/-- The text of a normal path given by its (reversed) element stack and a trailing-separator wish. -/
def textR (root : Bool) (st : List (List Nat)) (b : Bool) : List Nat :=
  match st with
  | [] => if root then [sep] else [dot]
  | x :: st' => rootText root ++ flat1 st'.reverse ++ x ++ (if b = true ∧ x ≠ dd then [sep] else [])

theorem finish_nosep (rl : Nat) (A t : List Nat) (ht : t ≠ []) (hs : sep ∉ t) :
    finish rl (A ++ t) = A ++ t := by
  have hc : ¬ stripCond rl (A ++ t) := by
    rw [stripCond_iff]
    rintro ⟨rest, h, -⟩
    rw [List.reverse_append] at h
    cases htr : t.reverse with
    | nil => simp at htr; exact ht htr
    | cons c cs =>
      rw [htr] at h
      simp only [List.cons_append, List.cons.injEq] at h
      have : c ∈ t := by
        have : c ∈ t.reverse := by rw [htr]; simp
        simpa using this
      exact hs (h.1 ▸ this)
  unfold finish
  simp only [hc, if_false]
  rw [if_neg]
  simp [ht]

theorem rev_root_flat1 (root : Bool) (N : List (List Nat)) :
    ((rootText root ++ flat1 N).reverse = [] ∨ ∃ W', (rootText root ++ flat1 N).reverse = sep :: W') ∧
    ((rootText root ++ flat1 N).reverse.length ≥ (rootText root).length) ∧
    (flat1 N = [] → (rootText root ++ flat1 N).reverse.length = (rootText root).length) := by
  refine ⟨?_, by simp, fun h => by simp [h]⟩
  rcases flat1_ends N with h | ⟨B', h⟩
  · rw [h]; cases root <;> simp [rootText]
  · rw [h]; right; simp

theorem not_strip_name (x W : List Nat) (rl : Nat) (hs : sep ∉ x) (hne : x ≠ []) (hd : x ≠ dd)
    (hW : W = [] ∨ ∃ W', W = sep :: W') (hWl : W.length ≥ rl) :
    ¬ ∃ rest, sep :: (x.reverse ++ W) = sep :: dot :: dot :: rest ∧ rest.length ≥ rl ∧
      (rest.length = rl ∨ rest.headD 0 = sep) := by
  rintro ⟨rest, h, h1, h2⟩
  have hs' : sep ∉ x.reverse := by simpa using hs
  have hxr : x = x.reverse.reverse := by simp
  match hx : x.reverse, hs' with
  | [], _ => simp at hx; exact hne hx
  | [a], _ =>
    rw [hx] at h
    simp at h
    rcases hW with rfl | ⟨W', rfl⟩
    · simp at h
    · simp at h; exact absurd h.2.1 (by decide)
  | [a, b], _ =>
    rw [hx] at h
    simp at h
    rw [hx] at hxr
    simp at hxr
    exact hd (by rw [hxr, h.1, h.2.1])
  | a :: b :: c :: xr, hs' =>
    rw [hx] at h
    simp at h
    obtain ⟨-, -, rfl⟩ := h
    rcases h2 with h2 | h2
    · simp at h2; omega
    · simp at h2 hs'
      exact hs'.2.2.1 h2.symm

theorem finish_stack (root : Bool) (st : List (List Nat)) (hst : ∀ x ∈ st, OkName x) :
    finish (rootText root).length (rootText root ++ flat1 st.reverse) = textR root st true := by
  cases st with
  | nil => cases root <;> decide
  | cons x st' =>
    have hx := hst x (by simp)
    have e : rootText root ++ flat1 (x :: st').reverse
        = rootText root ++ flat1 st'.reverse ++ x ++ [sep] := by
      simp [flat1_snoc, List.append_assoc]
    obtain ⟨hW, hWl, hWe⟩ := rev_root_flat1 root st'.reverse
    rw [e]
    by_cases hd : x = dd
    · subst hd
      have hc : stripCond (rootText root).length (rootText root ++ flat1 st'.reverse ++ dd ++ [sep]) := by
        rw [stripCond_iff]
        refine ⟨(rootText root ++ flat1 st'.reverse).reverse, by simp, hWl, ?_⟩
        rcases flat1_ends st'.reverse with h | ⟨B', h⟩
        · left; exact hWe h
        · right; rw [h]; simp
      unfold finish
      simp only [hc, if_true, textR]
      simp
    · have hc : ¬ stripCond (rootText root).length (rootText root ++ flat1 st'.reverse ++ x ++ [sep]) := by
        rw [stripCond_iff]
        have := not_strip_name x _ (rootText root).length hx.2.1 hx.1 hd hW hWl
        simpa [List.append_assoc] using this
      unfold finish
      simp only [hc, if_false, textR]
      simp [hd]


/-! ## `normalize` on a decomposed input -/

theorem normalize_eq_finish (s : List Nat) (hs : s ≠ []) (root : Bool) (a k : Nat)
    (hroot : rootPathRange s = (a, k))
    (hro : (slice s (a, k)).map (fun c => if isSep c then sep else c) = rootText root) :
    normalize s = finish (rootText root).length
      ((relElems s (s.length + 1) k).foldl (normStep (rootText root).length root) (rootText root)) := by
  unfold normalize
  rw [if_neg hs]
  dsimp only
  rw [hroot]
  dsimp only
  rw [hro]
  have : decide ((rootText root).length > 0 ∧ (rootText root).getLastD 0 = sep) = root := by
    cases root <;> decide
  rw [this]
  rfl


theorem root_decomp (k : Nat) (rest : List Nat) (hr : rest.headD 0 ≠ sep) :
    ∃ a, rootPathRange (List.replicate k sep ++ rest) = (a, k) ∧
      (slice (List.replicate k sep ++ rest) (a, k)).map (fun c => if isSep c then sep else c)
        = rootText (decide (0 < k)) := by
  have hl : leadingSeps (List.replicate k sep ++ rest) = k := by
    unfold leadingSeps; rw [takeWhile_seps k rest hr]; simp
  unfold rootPathRange rootDirRange
  rw [hl]
  cases k with
  | zero => exact ⟨0, by simp, by simp [slice, rootText]⟩
  | succ k =>
    refine ⟨k, by simp, ?_⟩
    have : List.replicate (k + 1) sep ++ rest = List.replicate k sep ++ (sep :: rest) := by
      rw [List.replicate_succ']; simp
    rw [this]
    simp [slice, rootText, isSep_sep]

/-- the stack and trailing flag determined by the elements of the input -/
def stackOf (root : Bool) (names : List (List Nat)) (tail : List Nat) : List (List Nat) :=
  (names ++ (if tail = [] then [] else [tail])).foldl (step root) []

theorem normalize_decomp (k : Nat) (es : List (List Nat × Nat)) (tail : List Nat)
    (hes : ∀ e ∈ es, OkName e.1) (ht : tail = [] ∨ OkName tail)
    (hne : List.replicate k sep ++ flat es ++ tail ≠ []) :
    normalize (List.replicate k sep ++ flat es ++ tail)
      = textR (decide (0 < k)) (stackOf (decide (0 < k)) (es.map (·.1)) tail)
          (decide (tail = [] ∨ tail = [dot] ∨ tail = dd)) := by
  have hhd := headD_flat_tail es tail hes ht
  obtain ⟨a, hroot, hro⟩ := root_decomp k (flat es ++ tail) hhd
  rw [← List.append_assoc] at hroot hro
  rw [normalize_eq_finish _ hne (decide (0 < k)) a k hroot hro]
  generalize hrt : decide (0 < k) = root
  have hrel := relElems_decomp es tail hes ht (List.replicate k sep)
    ((List.replicate k sep ++ flat es ++ tail).length + 1)
    (by have := length_le_flat es; simp; omega)
  rw [List.length_replicate] at hrel
  rw [hrel, List.foldl_append]
  have hnames : ∀ n ∈ es.map (·.1), OkName n := by
    intro n hn
    obtain ⟨e, he, rfl⟩ := List.mem_map.1 hn
    exact hes e he
  have hfold := foldl_normStep root (es.map (·.1)) [] (by simp) hnames
  simp only [List.map_map, List.reverse_nil, flat1, List.append_nil] at hfold
  have hcomp : ((fun n => (n, true)) ∘ fun x : List Nat × Nat => x.fst) = fun e => (e.fst, true) := rfl
  rw [hcomp] at hfold
  rw [hfold]
  have hst0 := foldl_step_ok root (es.map (·.1)) [] (by simp) hnames
  unfold stackOf
  rw [List.foldl_append]
  generalize (es.map (·.1)).foldl (step root) [] = st0 at hst0 ⊢
  by_cases htl : tail = []
  · subst htl
    simp only [if_true, List.foldl_nil]
    rw [finish_stack root st0 hst0]
    simp
  · have hok := ht.resolve_left htl
    simp only [htl, if_false, List.foldl_cons, List.foldl_nil, false_or]
    by_cases h1 : tail = [dot]
    · subst h1
      rw [normStep_dot, finish_stack root st0 hst0]
      simp [step]
    · by_cases h2 : tail = dd
      · subst h2
        simp only [or_true, decide_true]
        cases st0 with
        | nil =>
          have := normStep_up_empty root false
          simp only [List.reverse_nil, flat1, List.append_nil]
          rw [this]
          cases root <;> simp [step, rootText, finish, textR] <;> decide
        | cons x st' =>
          by_cases h3 : x = dd
          · subst h3
            rw [normStep_up_push]
            simp only [Bool.false_eq_true, if_false, List.append_nil]
            rw [finish_nosep _ _ dd (by decide) (by decide)]
            simp [step, textR]
          · rw [normStep_up_pop root st' x (hst0 x (by simp)).2.1 h3]
            rw [finish_stack root st' (fun y hy => hst0 y (by simp [hy]))]
            simp [step, h3]
      · rw [normStep_plain _ _ _ _ _ h1 h2]
        simp only [Bool.false_eq_true, if_false, List.append_nil]
        rw [finish_nosep _ _ tail hok.1 hok.2.1]
        have h2' : tail ≠ [dot, dot] := h2
        simp [step, h1, h2', textR]


/-! ## every NUL-free string decomposes -/

theorem exists_decomp (s : List Nat) (h0 : 0 ∉ s) :
    ∃ k es tail, s = List.replicate k sep ++ flat es ++ tail ∧ (∀ e ∈ es, OkName e.1) ∧
      (tail = [] ∨ OkName tail) := by
  induction s with
  | nil => exact ⟨0, [], [], rfl, by simp, Or.inl rfl⟩
  | cons c r ih =>
    have hc0 : c ≠ 0 := fun h => h0 (by simp [h])
    obtain ⟨k, es, tail, hr, hes, ht⟩ := ih (fun h => h0 (by simp [h]))
    by_cases hc : c = sep
    · subst hc
      exact ⟨k + 1, es, tail, by rw [hr]; simp [List.replicate_succ], hes, ht⟩
    · have hok1 : OkName [c] := ⟨by simp, by simp; exact fun h => hc h.symm, by simp; exact fun h => hc0 h.symm⟩
      cases k with
      | succ k =>
        refine ⟨0, ([c], k) :: es, tail, by rw [hr]; simp [flat], ?_, ht⟩
        intro e he
        rcases List.mem_cons.1 he with rfl | he
        · exact hok1
        · exact hes e he
      | zero =>
        cases es with
        | nil =>
          refine ⟨0, [], c :: tail, by rw [hr]; simp [flat], by simp, Or.inr ?_⟩
          rcases ht with rfl | ⟨_, h2, h3⟩
          · exact hok1
          · exact ⟨by simp, by simp; exact ⟨fun h => hc h.symm, h2⟩, by simp; exact ⟨fun h => hc0 h.symm, h3⟩⟩
        | cons e es' =>
          rcases e with ⟨n, m⟩
          refine ⟨0, (c :: n, m) :: es', tail, by rw [hr]; simp [flat], ?_, ht⟩
          intro e he
          rcases List.mem_cons.1 he with rfl | he
          · obtain ⟨_, h2, h3⟩ := hes (n, m) (by simp)
            exact ⟨by simp, by simp; exact ⟨fun h => hc h.symm, h2⟩, by simp; exact ⟨fun h => hc0 h.symm, h3⟩⟩
          · exact hes e (by simp [he])

/-! ## the specification on a decomposed input -/

/-- The path value of a normal path given by its (reversed) element stack. -/
def pvR (root : Bool) (st : List (List Nat)) (b : Bool) : P :=
  match st with
  | [] => if root then ⟨true, []⟩ else ⟨false, [[dot]]⟩
  | x :: st' => ⟨root, (x :: st').reverse ++ (if b = true ∧ x ≠ dd then [[]] else [])⟩

theorem flat_eq_nil (es : List (List Nat × Nat)) (tail : List Nat) (hes : ∀ e ∈ es, OkName e.1)
    (h : flat es ++ tail = []) : es = [] ∧ tail = [] := by
  cases es with
  | nil => simpa [flat] using h
  | cons e es' => simp [flat] at h

theorem normal_decomp (k : Nat) (es : List (List Nat × Nat)) (tail : List Nat)
    (hes : ∀ e ∈ es, OkName e.1) (ht : tail = [] ∨ OkName tail)
    (hne : List.replicate k sep ++ flat es ++ tail ≠ []) :
    normal (List.replicate k sep ++ flat es ++ tail)
      = pvR (decide (0 < k)) (stackOf (decide (0 < k)) (es.map (·.1)) tail)
          (decide (tail = [] ∨ tail = [dot] ∨ tail = dd)) := by
  unfold normal
  rw [if_neg hne, parse_decomp k es tail hes ht]
  dsimp only
  by_cases hrest : flat es ++ tail = []
  · obtain ⟨rfl, rfl⟩ := flat_eq_nil es tail hes hrest
    have hk : 0 < k := by
      cases k with
      | zero => simp [flat] at hne
      | succ k => omega
    simp [flat, hk, stackOf, pvR, normStack]
  · rw [if_neg hrest]
    have hnames : ∀ n ∈ es.map (·.1), OkName n := by
      intro n hn
      obtain ⟨e, he, rfl⟩ := List.mem_map.1 hn
      exact hes e he
    have hfilt : (es.map (·.1) ++ [tail]).filter (· ≠ [])
        = es.map (·.1) ++ (if tail = [] then [] else [tail]) := by
      rw [List.filter_append]
      congr 1
      · rw [List.filter_eq_self]
        intro n hn
        simpa using (hnames n hn).1
      · by_cases h : tail = [] <;> simp [h]
    rw [hfilt, normStack_eq]
    generalize hrt : decide (0 < k) = root
    have hst : stackOf root (es.map (·.1)) tail
        = (es.map (·.1) ++ (if tail = [] then [] else [tail])).foldl (step root) [] := rfl
    rw [← hst]
    generalize stackOf root (es.map (·.1)) tail = st
    cases st with
    | nil => cases root <;> simp [pvR]
    | cons x st' =>
      simp only [pvR]
      have : ¬ ((!root) = true ∧ (x :: st').reverse = []) := by simp
      rw [if_neg this]
      congr 2
      by_cases h : tail = []
      · simp [h]
      · simp [h, List.getLast?_append, and_comm]


/-! ## the result text as a decomposed input -/

def rootK (root : Bool) : Nat := if root then 1 else 0

theorem rootText_eq (root : Bool) : rootText root = List.replicate (rootK root) sep := by
  cases root <;> rfl

theorem rootK_pos (root : Bool) : decide (0 < rootK root) = root := by
  cases root <;> rfl

theorem textR_sep (root : Bool) (x : List Nat) (st' : List (List Nat)) (b : Bool) (hb : b = true ∧ x ≠ dd) :
    textR root (x :: st') b
      = List.replicate (rootK root) sep ++ flat ((x :: st').reverse.map (fun n => (n, 0))) ++ [] := by
  simp only [textR, hb, and_self, if_true, ne_eq, not_false_eq_true]
  rw [← flat1_eq_flat, rootText_eq, List.reverse_cons, flat1_snoc]
  simp [List.append_assoc]

theorem textR_nosep (root : Bool) (x : List Nat) (st' : List (List Nat)) (b : Bool) (hb : ¬ (b = true ∧ x ≠ dd)) :
    textR root (x :: st') b
      = List.replicate (rootK root) sep ++ flat (st'.reverse.map (fun n => (n, 0))) ++ x := by
  simp only [textR, hb, if_false]
  rw [← flat1_eq_flat, rootText_eq]
  simp

theorem ok_map0 (N : List (List Nat)) (h : ∀ n ∈ N, OkName n) :
    ∀ e ∈ N.map (fun n => (n, 0)), OkName e.1 := by
  intro e he
  obtain ⟨n, hn, rfl⟩ := List.mem_map.1 he
  exact h n hn

theorem map0_fst (N : List (List Nat)) : (N.map (fun n => ((n, 0) : List Nat × Nat))).map (·.1) = N := by
  induction N with
  | nil => rfl
  | cons n ns ih => simp [ih]

theorem parse_textR (root : Bool) (st : List (List Nat)) (b : Bool) (hst : ∀ x ∈ st, OkName x) :
    parse (textR root st b) = pvR root st b := by
  cases st with
  | nil => cases root <;> rfl
  | cons x st' =>
    have hx := hst x (by simp)
    have hst' : ∀ y ∈ st', OkName y := fun y hy => hst y (by simp [hy])
    have hstr : ∀ y ∈ (x :: st').reverse, OkName y := fun y hy => hst y (List.mem_reverse.1 hy)
    have hstr' : ∀ y ∈ st'.reverse, OkName y := fun y hy => hst' y (by simpa using hy)
    by_cases hb : b = true ∧ x ≠ dd
    · rw [textR_sep root x st' b hb, parse_decomp _ _ _ (ok_map0 _ hstr) (Or.inl rfl)]
      rw [rootK_pos, map0_fst]
      have : flat ((x :: st').reverse.map (fun n => (n, 0))) ++ [] ≠ [] := by
        intro h
        have := (flat_eq_nil _ _ (ok_map0 _ hstr) h).1
        simp at this
      rw [if_neg this]
      simp [pvR, hb]
    · rw [textR_nosep root x st' b hb,
        parse_decomp _ _ _ (ok_map0 _ hstr') (Or.inr hx)]
      rw [rootK_pos, map0_fst]
      have : flat (st'.reverse.map (fun n => (n, 0))) ++ x ≠ [] := by
        intro h
        exact hx.1 (List.append_eq_nil_iff.1 h).2
      rw [if_neg this]
      simp only [pvR, hb, if_false]
      simp


theorem stackOf_ok (root : Bool) (es : List (List Nat × Nat)) (tail : List Nat)
    (hes : ∀ e ∈ es, OkName e.1) (ht : tail = [] ∨ OkName tail) :
    ∀ x ∈ stackOf root (es.map (·.1)) tail, OkName x := by
  unfold stackOf
  apply foldl_step_ok root _ [] (by simp)
  intro n hn
  rcases List.mem_append.1 hn with hn | hn
  · obtain ⟨e, he, rfl⟩ := List.mem_map.1 hn
    exact hes e he
  · by_cases h : tail = []
    · simp [h] at hn
    · simp [h] at hn; subst hn; exact ht.resolve_left h

/-- `normalize` denotes the C++17 normal form. -/
theorem parse_normalize (s : List Nat) (h0 : 0 ∉ s) : parse (normalize s) = normal s := by
  by_cases hs : s = []
  · subst hs; rfl
  · obtain ⟨k, es, tail, rfl, hes, ht⟩ := exists_decomp s h0
    rw [normalize_decomp k es tail hes ht hs, normal_decomp k es tail hes ht hs,
      parse_textR _ _ _ (stackOf_ok _ es tail hes ht)]


/-! ## printing a path value (copy of `Zix.C11.unparse`, which is definitionally the same) -/

def unparse' (p : P) : List Nat :=
  (if p.root then [sep] else []) ++ (p.names.foldl (fun acc n => if acc.1 then (false, acc.2 ++ n) else (false, acc.2 ++ [sep] ++ n)) (true, [])).2

def tailText : List (List Nat) → List Nat
  | [] => []
  | n :: ns => sep :: (n ++ tailText ns)

theorem unparse_foldl_false (ns : List (List Nat)) (acc : List Nat) :
    ns.foldl (fun (acc : Bool × List Nat) n => if acc.1 then (false, acc.2 ++ n) else (false, acc.2 ++ [sep] ++ n)) (false, acc)
      = (false, acc ++ tailText ns) := by
  induction ns generalizing acc with
  | nil => simp [tailText]
  | cons n ns ih =>
    rw [List.foldl_cons]
    simp only [Bool.false_eq_true, if_false]
    rw [ih]
    simp [tailText, List.append_assoc]

theorem tailText_snoc (n : List Nat) (ns : List (List Nat)) (t : List Nat) :
    n ++ tailText (ns ++ [t]) = flat1 (n :: ns) ++ t := by
  induction ns generalizing n with
  | nil => simp [tailText, flat1]
  | cons m ms ih =>
    have := ih m
    simp only [List.cons_append, tailText, flat1] at this ⊢
    rw [this]
    simp

theorem unparse_snoc (root : Bool) (N : List (List Nat)) (t : List Nat) :
    unparse' ⟨root, N ++ [t]⟩ = rootText root ++ flat1 N ++ t := by
  unfold unparse'
  cases N with
  | nil => simp [rootText, flat1]
  | cons n ns =>
    simp only [List.cons_append, List.foldl_cons, if_true, List.nil_append]
    rw [unparse_foldl_false, tailText_snoc]
    simp [rootText, List.append_assoc]

theorem unparse_pvR (root : Bool) (st : List (List Nat)) (b : Bool) :
    unparse' (pvR root st b) = textR root st b := by
  cases st with
  | nil => cases root <;> rfl
  | cons x st' =>
    by_cases hb : b = true ∧ x ≠ dd
    · simp only [pvR, hb, and_self, if_true, ne_eq, not_false_eq_true, textR]
      rw [unparse_snoc, List.reverse_cons, flat1_snoc]
      simp [List.append_assoc]
    · simp only [pvR, hb, if_false, textR, List.append_nil]
      rw [List.reverse_cons, unparse_snoc]

/-! ## canonical stacks -/

def Canon (root : Bool) (st : List (List Nat)) : Prop :=
  (∀ x ∈ st, OkName x ∧ x ≠ [dot]) ∧ (root = true → dd ∉ st) ∧ st.Pairwise (fun x y => x = dd → y = dd)

theorem Canon.ok {root : Bool} {st : List (List Nat)} (h : Canon root st) : ∀ x ∈ st, OkName x :=
  fun x hx => (h.1 x hx).1

theorem Canon.nil (root : Bool) : Canon root [] := ⟨by simp, by simp, List.Pairwise.nil⟩

theorem Canon.tail {root : Bool} {x : List Nat} {st : List (List Nat)} (h : Canon root (x :: st)) : Canon root st :=
  ⟨fun y hy => h.1 y (by simp [hy]), fun hr hm => h.2.1 hr (by simp [hm]), (List.pairwise_cons.1 h.2.2).2⟩

theorem Canon.append_right {root : Bool} {a st : List (List Nat)} (h : Canon root (a ++ st)) : Canon root st :=
  ⟨fun y hy => h.1 y (by simp [hy]), fun hr hm => h.2.1 hr (by simp [hm]), (List.pairwise_append.1 h.2.2).2.1⟩

theorem step_canon (root : Bool) (acc : List (List Nat)) (n : List Nat)
    (hacc : Canon root acc) (hn : OkName n) : Canon root (step root acc n) := by
  unfold step
  by_cases h1 : n = [dot]
  · rw [if_pos h1]; exact hacc
  · rw [if_neg h1]
    by_cases h2 : n = dd
    · subst h2
      rw [if_pos rfl]
      cases acc with
      | nil =>
        cases root with
        | true => exact hacc
        | false =>
          simp only [Bool.false_eq_true, if_false]
          exact ⟨fun x hx => by simp at hx; subst hx; exact ⟨hn, by decide⟩, by simp, by simp⟩
      | cons prev acc' =>
        by_cases h3 : prev = dd
        · subst h3
          simp only [ne_eq, not_true_eq_false, if_false]
          refine ⟨?_, ?_, ?_⟩
          · intro x hx
            rcases List.mem_cons.1 hx with rfl | hx
            · exact ⟨hn, by decide⟩
            · exact hacc.1 x hx
          · intro hr; exact absurd (by simp) (hacc.2.1 hr)
          · refine List.pairwise_cons.2 ⟨?_, hacc.2.2⟩
            intro y hy _
            rcases List.mem_cons.1 hy with rfl | hy
            · rfl
            · exact (List.pairwise_cons.1 hacc.2.2).1 y hy rfl
        · simp only [ne_eq, h3, not_false_eq_true, if_true]
          exact hacc.tail
    · rw [if_neg h2]
      refine ⟨?_, ?_, ?_⟩
      · intro x hx
        rcases List.mem_cons.1 hx with rfl | hx
        · exact ⟨hn, h1⟩
        · exact hacc.1 x hx
      · intro hr hm
        rcases List.mem_cons.1 hm with h | h
        · exact h2 h.symm
        · exact hacc.2.1 hr h
      · exact List.pairwise_cons.2 ⟨fun y _ h => absurd h h2, hacc.2.2⟩

theorem foldl_step_canon (root : Bool) (names acc : List (List Nat))
    (hacc : Canon root acc) (hn : ∀ n ∈ names, OkName n) : Canon root (names.foldl (step root) acc) := by
  induction names generalizing acc with
  | nil => exact hacc
  | cons n ns ih =>
    exact ih _ (step_canon root acc n hacc (hn n (by simp))) (fun m hm => hn m (by simp [hm]))

theorem stackOf_canon (root : Bool) (es : List (List Nat × Nat)) (tail : List Nat)
    (hes : ∀ e ∈ es, OkName e.1) (ht : tail = [] ∨ OkName tail) :
    Canon root (stackOf root (es.map (·.1)) tail) := by
  unfold stackOf
  apply foldl_step_canon root _ [] (Canon.nil root)
  intro n hn
  rcases List.mem_append.1 hn with hn | hn
  · obtain ⟨e, he, rfl⟩ := List.mem_map.1 hn
    exact hes e he
  · by_cases h : tail = []
    · simp [h] at hn
    · simp [h] at hn; subst hn; exact ht.resolve_left h

/-- folding over an already canonical element list just pushes -/
theorem canon_fold (root : Bool) (N acc : List (List Nat)) (h : Canon root (N.reverse ++ acc)) :
    N.foldl (step root) acc = N.reverse ++ acc := by
  induction N generalizing acc with
  | nil => rfl
  | cons n N' ih =>
    have e : (n :: N').reverse ++ acc = N'.reverse ++ (n :: acc) := by simp
    rw [e] at h ⊢
    have hc : Canon root (n :: acc) := h.append_right
    have hstep : step root acc n = n :: acc := by
      unfold step
      rw [if_neg (hc.1 n (by simp)).2]
      by_cases h2 : n = dd
      · subst h2
        rw [if_pos rfl]
        cases acc with
        | nil =>
          cases root with
          | true => exact absurd (by simp) (hc.2.1 rfl)
          | false => rfl
        | cons prev acc' =>
          have : prev = dd := (List.pairwise_cons.1 hc.2.2).1 prev (by simp) rfl
          simp [this]
      · rw [if_neg h2]
    rw [List.foldl_cons, hstep]
    exact ih _ h


/-- a canonical text is a fixed point of `normalize` -/
theorem normalize_textR (root : Bool) (st : List (List Nat)) (b : Bool) (hc : Canon root st) :
    normalize (textR root st b) = textR root st b := by
  cases st with
  | nil => cases root <;> simp only [textR] <;> decide
  | cons x st' =>
    have hx := hc.ok x (by simp)
    have hstr : ∀ y ∈ (x :: st').reverse, OkName y := fun y hy => hc.ok y (List.mem_reverse.1 hy)
    have hstr' : ∀ y ∈ st'.reverse, OkName y := fun y hy => hc.ok y (by simp [List.mem_reverse.1 hy])
    by_cases hb : b = true ∧ x ≠ dd
    · have hne : List.replicate (rootK root) sep ++ flat ((x :: st').reverse.map (fun n => (n, 0))) ++ [] ≠ [] := by
        rw [← textR_sep root x st' b hb]; simp [textR, hx.1]
      rw [textR_sep root x st' b hb, normalize_decomp _ _ _ (ok_map0 _ hstr) (Or.inl rfl) hne,
        rootK_pos, map0_fst]
      have hstack : stackOf root (x :: st').reverse [] = x :: st' := by
        unfold stackOf
        simp only [if_true, List.append_nil]
        rw [canon_fold root _ [] (by simpa using hc)]
        simp
      rw [hstack, ← textR_sep root x st' true ⟨rfl, hb.2⟩]
      simp
    · have hne : List.replicate (rootK root) sep ++ flat (st'.reverse.map (fun n => (n, 0))) ++ x ≠ [] := by
        intro h; exact hx.1 (List.append_eq_nil_iff.1 h).2
      rw [textR_nosep root x st' b hb, normalize_decomp _ _ _ (ok_map0 _ hstr') (Or.inr hx) hne,
        rootK_pos, map0_fst]
      have hstack : stackOf root st'.reverse x = x :: st' := by
        unfold stackOf
        rw [if_neg hx.1]
        have : st'.reverse ++ [x] = (x :: st').reverse := by simp
        rw [this, canon_fold root _ [] (by simpa using hc)]
        simp
      rw [hstack]
      have hb' : ¬ (decide (x = [] ∨ x = [dot] ∨ x = dd) = true ∧ x ≠ dd) := by
        simp only [hx.1, (hc.1 x (by simp)).2, false_or, decide_eq_true_eq]
        exact fun h => h.2 h.1
      rw [textR_nosep root x st' _ hb']

/-- `normalize s` is a canonical text -/
theorem normalize_canon (s : List Nat) (h0 : 0 ∉ s) (hs : s ≠ []) :
    ∃ root st b, Canon root st ∧ normalize s = textR root st b ∧ normal s = pvR root st b := by
  obtain ⟨k, es, tail, rfl, hes, ht⟩ := exists_decomp s h0
  exact ⟨_, _, _, stackOf_canon _ es tail hes ht, normalize_decomp k es tail hes ht hs,
    normal_decomp k es tail hes ht hs⟩

theorem normalize_idem (s : List Nat) (h0 : 0 ∉ s) : normalize (normalize s) = normalize s := by
  by_cases hs : s = []
  · subst hs; rfl
  · obtain ⟨root, st, b, hc, h, -⟩ := normalize_canon s h0 hs
    rw [h, normalize_textR root st b hc]

theorem textR_ne_nil (root : Bool) (st : List (List Nat)) (b : Bool) (hc : Canon root st) :
    textR root st b ≠ [] := by
  cases st with
  | nil => cases root <;> simp only [textR] <;> decide
  | cons x st' =>
    have hx := hc.ok x (by simp)
    simp [textR, hx.1]

theorem normalize_unparse (s : List Nat) (h0 : 0 ∉ s) (hs : s ≠ []) :
    normalize s = unparse' (parse (normalize s)) ∧ normalize s ≠ [] := by
  obtain ⟨root, st, b, hc, h, -⟩ := normalize_canon s h0 hs
  rw [h, parse_textR root st b hc.ok, unparse_pvR]
  exact ⟨rfl, textR_ne_nil root st b hc⟩


/-! ## the normal-form predicate (copy of `Zix.C11.IsNormal`, definitionally the same) -/

def IsNormal' (p : P) : Prop :=
  (p = ⟨false, [[dot]]⟩ ∨ [dot] ∉ p.names) ∧
  (∀ i, p.names[i + 1]? = some [dot, dot] → p.names[i]? = some [dot, dot]) ∧
  (p.root = true → p.names.head? ≠ some [dot, dot]) ∧
  (∀ i, p.names[i]? = some [] → i + 1 = p.names.length ∧ 0 < i ∧ p.names[i - 1]? ≠ some [dot, dot])

theorem isNormal_of (root : Bool) (N E : List (List Nat))
    (h1 : ∀ n ∈ N, n ≠ [] ∧ n ≠ [dot]) (hroot : root = true → dd ∉ N)
    (hpw : N.Pairwise (fun a b => b = dd → a = dd))
    (hE : E = [] ∨ (E = [[]] ∧ ∃ N' x, N = N' ++ [x] ∧ x ≠ dd)) : IsNormal' ⟨root, N ++ E⟩ := by
  have hEn : ∀ e ∈ E, e = [] := by
    rcases hE with rfl | ⟨rfl, -⟩ <;> simp
  have hddN : ∀ i, (N ++ E)[i]? = some dd → i < N.length := by
    intro i hi
    by_cases h : i < N.length
    · exact h
    · rw [List.getElem?_append_right (by omega)] at hi
      exact absurd (hEn _ (List.mem_of_getElem? hi)) (by decide)
  refine ⟨Or.inr ?_, ?_, ?_, ?_⟩
  · intro hm
    rcases List.mem_append.1 hm with h | h
    · exact (h1 _ h).2 rfl
    · exact absurd (hEn _ h) (by decide)
  · intro i hi
    have hlt := hddN _ hi
    rw [List.getElem?_append_left hlt, List.getElem?_eq_getElem hlt] at hi
    have hi' : N[i + 1] = dd := Option.some.inj hi
    have := (List.pairwise_iff_getElem.1 hpw) i (i + 1) (by omega) hlt (by omega) hi'
    show (N ++ E)[i]? = some dd
    rw [List.getElem?_append_left (by omega), List.getElem?_eq_getElem (by omega), this]
  · intro hr hh
    change (N ++ E).head? = some dd at hh
    have h0 : (N ++ E)[0]? = some dd := by rw [← hh]; cases (N ++ E) <;> rfl
    have hlt := hddN _ h0
    rw [List.getElem?_append_left hlt] at h0
    exact hroot hr (List.mem_of_getElem? h0)
  · intro i hi
    change (N ++ E)[i]? = some [] at hi
    have hge : N.length ≤ i := by
      apply Nat.le_of_not_lt
      intro h
      rw [List.getElem?_append_left h] at hi
      exact (h1 _ (List.mem_of_getElem? hi)).1 rfl
    rw [List.getElem?_append_right hge] at hi
    rcases hE with rfl | ⟨rfl, N', x, rfl, hx⟩
    · simp at hi
    · have hi0 : i - (N' ++ [x]).length = 0 := by
        cases h : i - (N' ++ [x]).length with
        | zero => rfl
        | succ m => rw [h] at hi; simp at hi
      have hieq : i = N'.length + 1 := by simp at hge hi0; omega
      subst hieq
      refine ⟨by simp, by omega, ?_⟩
      show (N' ++ [x] ++ [[]])[N'.length + 1 - 1]? ≠ some dd
      simp
      exact hx

theorem isNormal_pvR (root : Bool) (st : List (List Nat)) (b : Bool) (hc : Canon root st) :
    IsNormal' (pvR root st b) := by
  cases st with
  | nil =>
    cases root with
    | true => exact ⟨Or.inr (by simp [pvR]), by simp [pvR], by simp [pvR], by simp [pvR]⟩
    | false =>
      refine ⟨Or.inl rfl, ?_, by simp [pvR], ?_⟩
      · intro i hi; simp [pvR] at hi
      · intro i hi
        simp only [pvR, Bool.false_eq_true, if_false] at hi
        cases i with
        | zero => simp at hi
        | succ j => simp at hi
  | cons x st' =>
    simp only [pvR]
    apply isNormal_of
    · intro n hn
      have := hc.1 n (List.mem_reverse.1 hn)
      exact ⟨this.1.1, this.2⟩
    · intro hr hm
      exact hc.2.1 hr (List.mem_reverse.1 hm)
    · rw [List.pairwise_reverse]; exact hc.2.2
    · by_cases hb : b = true ∧ x ≠ dd
      · right
        rw [if_pos hb]
        exact ⟨rfl, st'.reverse, x, by simp, hb.2⟩
      · left; rw [if_neg hb]

theorem normal_isNormal (s : List Nat) (h0 : 0 ∉ s) (hs : s ≠ []) : IsNormal' (normal s) := by
  obtain ⟨root, st, b, hc, -, h⟩ := normalize_canon s h0 hs
  rw [h]
  exact isNormal_pvR root st b hc


theorem chain_all (l : List (List Nat)) (h : ∀ i : Nat, l[i + 1]? = some dd → l[i]? = some dd) :
    ∀ j i : Nat, i ≤ j → l[j]? = some dd → l[i]? = some dd := by
  intro j
  induction j with
  | zero => intro i hi hj; have : i = 0 := by omega
            subst this; exact hj
  | succ j ih =>
    intro i hi hj
    by_cases h' : i = j + 1
    · subst h'; exact hj
    · exact ih i (by omega) (h j hj)

theorem canon_of_isNormal (root : Bool) (names : List (List Nat))
    (h1 : [dot] ∉ names)
    (h2 : ∀ i : Nat, names[i + 1]? = some dd → names[i]? = some dd)
    (h3 : root = true → names.head? ≠ some dd)
    (hne : ∀ n ∈ names, 0 ∉ n ∧ sep ∉ n)
    (M : List (List Nat)) (E : List (List Nat)) (hM : names = M ++ E) (hMne : ∀ n ∈ M, n ≠ []) :
    Canon root M.reverse := by
  have hall := chain_all names h2
  have hsub : ∀ n ∈ M, n ∈ names := fun n hn => by rw [hM]; simp [hn]
  refine ⟨?_, ?_, ?_⟩
  · intro x hx
    have hx' := List.mem_reverse.1 hx
    have := hne x (hsub x hx')
    exact ⟨⟨hMne x hx', this.2, this.1⟩, fun h => h1 (h ▸ hsub x hx')⟩
  · intro hr hm
    have hm' := hsub _ (List.mem_reverse.1 hm)
    obtain ⟨j, hj, hjeq⟩ := List.getElem_of_mem hm'
    have hj' : names[j]? = some dd := by rw [List.getElem?_eq_getElem hj, hjeq]
    have h0 := hall j 0 (by omega) hj'
    apply h3 hr
    rw [← h0]
    cases names <;> rfl
  · rw [List.pairwise_reverse]
    have hpw : names.Pairwise (fun a b => b = dd → a = dd) := by
      rw [List.pairwise_iff_getElem]
      intro i j hi hj hij hjd
      have hj' : names[j]? = some dd := by rw [List.getElem?_eq_getElem hj, hjd]
      have := hall j i (by omega) hj'
      rw [List.getElem?_eq_getElem hi] at this
      exact Option.some.inj this
    rw [hM] at hpw
    exact (List.pairwise_append.1 hpw).1

theorem fixes_normal (p : P) (hn : IsNormal' p) (hne : ∀ n ∈ p.names, 0 ∉ n ∧ sep ∉ n)
    (hnonempty : p.root = true ∨ p.names ≠ []) :
    normalize (unparse' p) = unparse' p := by
  obtain ⟨root, names⟩ := p
  obtain ⟨h1, h2, h3, h4⟩ := hn
  simp only at h1 h2 h3 h4 hne hnonempty
  rcases h1 with h1 | h1
  · rw [h1]; decide
  · rcases List.eq_nil_or_concat names with hnil | ⟨N, t, hN⟩
    · subst hnil
      have hr : root = true := by simpa using hnonempty
      subst hr; decide
    · rw [List.concat_eq_append] at hN
      have hNne : ∀ n ∈ N, n ≠ [] := by
        intro n hn hnil
        subst hnil
        obtain ⟨i, hi, hieq⟩ := List.getElem_of_mem hn
        have : names[i]? = some [] := by
          rw [hN, List.getElem?_append_left hi, List.getElem?_eq_getElem hi, hieq]
        have := (h4 i this).1
        rw [hN] at this
        simp at this
        omega
      by_cases ht : t = []
      · subst ht
        have hlast : names[N.length]? = some [] := by rw [hN]; simp
        obtain ⟨-, hpos, hprev⟩ := h4 _ hlast
        rcases List.eq_nil_or_concat N with hnil | ⟨N', x, hN'⟩
        · subst hnil; simp at hpos
        · rw [List.concat_eq_append] at hN'
          have hx : x ≠ dd := by
            intro hx
            apply hprev
            rw [hN, hN', hx]
            simp
          have hc := canon_of_isNormal root names h1 h2 h3 hne N [[]] hN hNne
          have htxt : unparse' ⟨root, names⟩ = textR root N.reverse true := by
            rw [hN, unparse_snoc, hN']
            simp [textR, hx, flat1_snoc]
          rw [htxt, normalize_textR root _ true hc]
      · have hall : ∀ n ∈ N ++ [t], n ≠ [] := by
          intro n hn
          rcases List.mem_append.1 hn with h | h
          · exact hNne n h
          · simp at h; subst h; exact ht
        have hc := canon_of_isNormal root names h1 h2 h3 hne (N ++ [t]) [] (by simp [hN]) hall
        have htxt : unparse' ⟨root, names⟩ = textR root (N ++ [t]).reverse false := by
          rw [hN, unparse_snoc]
          simp [textR]
        rw [htxt, normalize_textR root _ false hc]

end Zix.Path.Norm
