import ZixModel.Model.Path
import ZixModel.Spec.Cpp17Path
/-! Helper lemmas for C12: closed forms of the scanning loops of the component iterator, the
fuel-free description of `splitAux`, and the correspondence between iterator positions and the
C++17 element sequence of the remaining suffix. -/
namespace Zix.Path.Rel
open Zix.Path Zix.PathSpec

/-! ## list basics -/

def notSep (c : Nat) : Bool := !isSep c

theorem isSep_zero : isSep 0 = false := by decide

theorem drop_takeWhile_length {α} (p : α → Bool) (l : List α) :
    l.drop (l.takeWhile p).length = l.dropWhile p := by
  induction l with
  | nil => rfl
  | cons a l ih =>
    simp only [List.takeWhile_cons, List.dropWhile_cons]
    split <;> simp [ih]

theorem take_takeWhile_length {α} (p : α → Bool) (l : List α) :
    l.take (l.takeWhile p).length = l.takeWhile p := by
  induction l with
  | nil => rfl
  | cons a l ih =>
    simp only [List.takeWhile_cons]
    split <;> simp [ih]

theorem length_dropWhile_le {α} (p : α → Bool) (l : List α) : (l.dropWhile p).length ≤ l.length := by
  induction l with
  | nil => simp
  | cons a l ih =>
    simp only [List.dropWhile_cons]
    split
    · simp; omega
    · simp

theorem length_takeWhile_add_dropWhile {α} (p : α → Bool) (l : List α) :
    (l.takeWhile p).length + (l.dropWhile p).length = l.length := by
  rw [← List.length_append, List.takeWhile_append_dropWhile]

theorem at'_eq_headD (s : List Nat) (i : Nat) : at' s i = (s.drop i).headD 0 := by
  unfold at'
  simp [List.headD_eq_head?_getD, List.head?_drop, List.getD_eq_getElem?_getD]

theorem at'_eq_headD' (s : List Nat) : s.headD 0 = at' s 0 := by
  rw [at'_eq_headD]; rfl

theorem drop_succ_of_drop_cons {s : List Nat} {i : Nat} {c : Nat} {t : List Nat}
    (h : s.drop i = c :: t) : s.drop (i + 1) = t := by
  have : s.drop (i + 1) = (s.drop i).drop 1 := by simp [List.drop_drop]
  rw [this, h]; rfl

theorem at'_eq_zero_iff (s : List Nat) (h0 : 0 ∉ s) (i : Nat) : at' s i = 0 ↔ s.drop i = [] := by
  rw [at'_eq_headD]
  cases h : s.drop i with
  | nil => simp
  | cons c t =>
    have : c ∈ s := List.mem_of_mem_drop (i := i) (by rw [h]; simp)
    simp
    intro hc; subst hc; exact h0 this

/-! ## scanning loops -/

theorem skipSeps_eq (s : List Nat) : ∀ fuel i, s.length - i ≤ fuel →
    skipSeps s fuel i = i + ((s.drop i).takeWhile isSep).length := by
  intro fuel
  induction fuel with
  | zero =>
    intro i h
    have : s.drop i = [] := by rw [List.drop_eq_nil_iff]; omega
    simp [skipSeps, this]
  | succ fuel ih =>
    intro i h
    unfold skipSeps
    rw [at'_eq_headD]
    cases hd : s.drop i with
    | nil => simp [isSep_zero]
    | cons c t =>
      have ht := drop_succ_of_drop_cons hd
      have hlt : i < s.length := by
        have : s.drop i ≠ [] := by rw [hd]; simp
        rw [Ne, List.drop_eq_nil_iff] at this; omega
      by_cases hc : isSep c = true
      · simp only [List.headD_cons, hc, if_true, List.takeWhile_cons, List.length_cons]
        rw [ih (i + 1) (by omega), ht]; omega
      · simp [hc]

theorem skipName_eq (s : List Nat) (h0 : 0 ∉ s) : ∀ fuel i, s.length - i ≤ fuel →
    skipName s fuel i = i + ((s.drop i).takeWhile notSep).length := by
  intro fuel
  induction fuel with
  | zero =>
    intro i h
    have : s.drop i = [] := by rw [List.drop_eq_nil_iff]; omega
    simp [skipName, this]
  | succ fuel ih =>
    intro i h
    unfold skipName
    rw [at'_eq_headD]
    cases hd : s.drop i with
    | nil => simp
    | cons c t =>
      have ht := drop_succ_of_drop_cons hd
      have hlt : i < s.length := by
        have : s.drop i ≠ [] := by rw [hd]; simp
        rw [Ne, List.drop_eq_nil_iff] at this; omega
      have hc0 : c ≠ 0 := by
        have : c ∈ s := List.mem_of_mem_drop (i := i) (by rw [hd]; simp)
        intro hc; subst hc; exact h0 this
      by_cases hc : isSep c = true
      · simp [hc, notSep]
      · simp only [List.headD_cons, List.takeWhile_cons, notSep, hc]
        simp only [hc0, ne_eq, not_false_eq_true, Bool.not_false, and_self, if_true, List.length_cons]
        rw [ih (i + 1) (by omega), ht]; omega

/-! ## `splitAux` without fuel -/

def spl (r : List Nat) : List (List Nat) := splitAux (r.length + 1) r []

/-- The C++17 filename elements that follow a position whose remaining text is `suf`. -/
def elemsFrom (suf : List Nat) : List (List Nat) :=
  if suf = [] then [] else spl (suf.dropWhile isSep)

theorem splitAux_fuel : ∀ fuel fuel' r cur, r.length ≤ fuel → r.length ≤ fuel' →
    splitAux fuel r cur = splitAux fuel' r cur := by
  intro fuel
  induction fuel with
  | zero =>
    intro fuel' r cur h h'
    have : r = [] := List.eq_nil_of_length_eq_zero (by omega)
    subst this
    cases fuel' <;> simp [splitAux]
  | succ fuel ih =>
    intro fuel' r cur h h'
    cases r with
    | nil => cases fuel' <;> simp [splitAux]
    | cons c rest =>
      cases fuel' with
      | zero => simp at h'
      | succ fuel' =>
        simp only [List.length_cons] at h h'
        have := length_dropWhile_le isSep rest
        simp only [splitAux]
        split
        · rw [ih fuel' _ _ (by omega) (by omega)]
        · rw [ih fuel' _ _ (by omega) (by omega)]

theorem splitAux_eq : ∀ r fuel cur, r.length ≤ fuel →
    splitAux fuel r cur = (cur.reverse ++ r.takeWhile notSep) :: elemsFrom (r.dropWhile notSep) := by
  intro r
  induction r with
  | nil =>
    intro fuel cur _
    cases fuel <;> simp [splitAux, elemsFrom]
  | cons c rest ih =>
    intro fuel cur h
    cases fuel with
    | zero => simp at h
    | succ fuel =>
      simp only [List.length_cons] at h
      simp only [splitAux]
      by_cases hc : isSep c = true
      · have := length_dropWhile_le isSep rest
        simp only [hc, if_true, List.takeWhile_cons, List.dropWhile_cons, notSep, Bool.not_true,
          Bool.false_eq_true, if_false, List.append_nil, elemsFrom, List.cons_ne_nil, spl]
        rw [splitAux_fuel fuel ((rest.dropWhile isSep).length + 1) _ _ (by omega) (by omega)]
      · simp only [hc, List.takeWhile_cons, List.dropWhile_cons, notSep,
          Bool.not_false, if_true]
        rw [ih fuel _ (by omega)]
        simp

theorem spl_eq (r : List Nat) : spl r = r.takeWhile notSep :: elemsFrom (r.dropWhile notSep) := by
  unfold spl; rw [splitAux_eq _ _ _ (by omega)]; simp

theorem spl_nil : spl [] = [[]] := by rfl

theorem elemsFrom_nil : elemsFrom [] = [] := by rfl

theorem elemsFrom_eq (suf : List Nat) (h : suf ≠ []) :
    elemsFrom suf = (suf.dropWhile isSep).takeWhile notSep ::
      elemsFrom ((suf.dropWhile isSep).dropWhile notSep) := by
  unfold elemsFrom; rw [if_neg h, spl_eq]; rfl

theorem elemsFrom_eq_nil_iff (suf : List Nat) : elemsFrom suf = [] ↔ suf = [] := by
  constructor
  · intro h; by_cases hs : suf = []
    · exact hs
    · rw [elemsFrom_eq _ hs] at h; simp at h
  · intro h; subst h; rfl

theorem splitNames_eq (r : List Nat) (h : (r.dropWhile isSep) = r) : splitNames r = elemsFrom r := by
  unfold splitNames elemsFrom spl
  rw [h]

/-! ## the iterator at a file position -/

/-- The iterator after a filename frame whose range ends at `e`. -/
def G (s : List Nat) (e : Nat) : PathIter := next s ⟨(e, e), .fileName⟩

theorem next_fileName (s : List Nat) (r : Range) : next s ⟨r, .fileName⟩ = G s r.2 := by
  simp [next, G]

theorem next_end (s : List Nat) (r : Range) : next s ⟨r, .end_⟩ = ⟨r, .end_⟩ := by
  simp [next]

theorem next_rootDir (s : List Nat) (r : Range) :
    next s ⟨r, .rootDir⟩ = G s (skipSeps s (s.length + 1) r.2) := by
  simp [next, G]

theorem begin_root (s : List Nat) (h : isSep (at' s 0) = true) : begin s = ⟨(0, 1), .rootDir⟩ := by
  simp [begin, next, h]

theorem begin_noroot (s : List Nat) (h : isSep (at' s 0) = false) : begin s = G s 0 := by
  simp [begin, next, G, h, skipSeps]

theorem G_nil (s : List Nat) (h0 : 0 ∉ s) (e : Nat) (h : s.drop e = []) : G s e = ⟨(e, e), .end_⟩ := by
  have := (at'_eq_zero_iff s h0 e).2 h
  simp [G, next, this]

theorem G_cons (s : List Nat) (h0 : 0 ∉ s) (e : Nat) (h : s.drop e ≠ []) :
    G s e = ⟨(e + ((s.drop e).takeWhile isSep).length,
              e + ((s.drop e).takeWhile isSep).length +
                (((s.drop e).dropWhile isSep).takeWhile notSep).length), .fileName⟩ := by
  have h1 : at' s e ≠ 0 := fun hh => h ((at'_eq_zero_iff s h0 e).1 hh)
  have hk := skipSeps_eq s (s.length + 1) e (by omega)
  have hm := skipName_eq s h0 (s.length + 1) (e + ((s.drop e).takeWhile isSep).length) (by omega)
  have hd : s.drop (e + ((s.drop e).takeWhile isSep).length) = (s.drop e).dropWhile isSep := by
    rw [← List.drop_drop, drop_takeWhile_length]
  rw [hd] at hm
  simp [G, next, h1, hk, hm]

theorem dropWhile_idem {α} (p : α → Bool) (l : List α) : (l.dropWhile p).dropWhile p = l.dropWhile p := by
  induction l with
  | nil => rfl
  | cons a l ih =>
    by_cases h : p a = true
    · simp [h, ih]
    · simp [h]

theorem next_of_fileName (s : List Nat) (x : PathIter) (hx : x.state = .fileName) :
    next s x = G s x.range.2 := by
  cases x with
  | mk r st => simp at hx; subst hx; exact next_fileName s r

/-- One step of the iterator at a position with non-empty remaining text. -/
theorem G_step (s : List Nat) (h0 : 0 ∉ s) (e : Nat) (h : s.drop e ≠ []) :
    (G s e).state = .fileName ∧ e < (G s e).range.2 ∧
    elemsFrom (s.drop e) = rangeText s (G s e) :: elemsFrom (s.drop (G s e).range.2) ∧
    s.drop (G s e).range.1 = (s.drop e).dropWhile isSep ∧
    rangeText s (G s e) = ((s.drop e).dropWhile isSep).takeWhile notSep := by
  have hd : s.drop (e + ((s.drop e).takeWhile isSep).length) = (s.drop e).dropWhile isSep := by
    rw [← List.drop_drop, drop_takeWhile_length]
  have htext : rangeText s (G s e) = ((s.drop e).dropWhile isSep).takeWhile notSep := by
    rw [G_cons s h0 e h]
    simp only [rangeText, slice]
    rw [hd, Nat.add_sub_cancel_left, take_takeWhile_length]
  refine ⟨by rw [G_cons s h0 e h], ?_, ?_, by rw [G_cons s h0 e h]; exact hd, htext⟩
  · rw [G_cons s h0 e h]
    show e < e + _ + _
    cases hs : s.drop e with
    | nil => exact absurd hs h
    | cons c t =>
      by_cases hc : isSep c = true
      · simp [hc]; omega
      · simp [hc, notSep]
  · rw [elemsFrom_eq _ h, htext]
    congr 2
    rw [G_cons s h0 e h]
    show _ = s.drop (_ + _)
    rw [← List.drop_drop, hd, drop_takeWhile_length]

theorem frames_end (s : List Nat) (fuel : Nat) (r : Range) : frames s fuel ⟨r, .end_⟩ = [] := by
  cases fuel <;> simp [frames]

theorem frames_G (s : List Nat) (h0 : 0 ∉ s) (f : PathIter → List Nat)
    (hf : ∀ x, x.state = .fileName → f x = rangeText s x) : ∀ fuel e, s.length - e ≤ fuel →
    (frames s fuel (G s e)).map f = elemsFrom (s.drop e) := by
  intro fuel
  induction fuel with
  | zero =>
    intro e h
    have : s.drop e = [] := by rw [List.drop_eq_nil_iff]; omega
    simp [frames, this, elemsFrom_nil]
  | succ fuel ih =>
    intro e h
    by_cases hs : s.drop e = []
    · rw [G_nil s h0 e hs, frames_end, hs]; rfl
    · obtain ⟨hst, hlt, hel, _, _⟩ := G_step s h0 e hs
      have hlen : e < s.length := by
        have : ¬ s.length ≤ e := fun hh => hs (List.drop_eq_nil_iff.2 hh)
        omega
      unfold frames
      rw [if_neg (by rw [hst]; simp), List.map_cons, next_of_fileName s _ hst,
        ih _ (by omega), hf _ hst, hel]

theorem parse_root (s : List Nat) : (parse s).root = isSep (at' s 0) := by
  simp [parse, at'_eq_headD]

theorem parse_names_noroot (s : List Nat) (h : isSep (at' s 0) = false) :
    (parse s).names = elemsFrom s := by
  have : s.dropWhile isSep = s := by
    rw [at'_eq_headD] at h
    cases s with
    | nil => rfl
    | cons c t => simp at h; simp [h]
  simp only [parse, this]
  exact splitNames_eq s this

theorem parse_names (s : List Nat) : (parse s).names = elemsFrom (s.dropWhile isSep) := by
  simp only [parse]
  exact splitNames_eq _ (dropWhile_idem _ _)

theorem drop_skipSeps_one (s : List Nat) (h : isSep (at' s 0) = true) :
    s.drop (skipSeps s (s.length + 1) 1) = s.dropWhile isSep := by
  rw [skipSeps_eq s _ _ (by omega)]
  rw [at'_eq_headD] at h
  cases s with
  | nil => simp [isSep_zero] at h
  | cons c t =>
    simp at h
    simp only [List.drop_succ_cons, List.drop_zero, List.dropWhile_cons, h, if_true]
    rw [Nat.add_comm, List.drop_succ_cons, drop_takeWhile_length]

theorem allFrames_map (s : List Nat) (h0 : 0 ∉ s) :
    (allFrames s).map (fun f => if f.state = .rootDir then [sep] else slice s f.range) =
      (parse s).elems := by
  have hf : ∀ x : PathIter, x.state = .fileName →
      (fun f : PathIter => if f.state = .rootDir then [sep] else slice s f.range) x = rangeText s x := by
    intro x hx; simp [hx, rangeText]
  unfold allFrames P.elems
  rw [parse_root]
  cases hr : isSep (at' s 0) with
  | false =>
    rw [begin_noroot s hr, frames_G s h0 _ hf _ _ (by omega), parse_names_noroot s hr]
    simp
  | true =>
    rw [begin_root s hr]
    unfold frames
    rw [if_neg (by simp), next_rootDir, List.map_cons, frames_G s h0 _ hf _ _ (by omega),
      drop_skipSeps_one s hr, parse_names]
    simp

/-! ## join -/

theorem mem_takeWhile {α} {p : α → Bool} {l : List α} {a : α} (h : a ∈ l.takeWhile p) : p a = true := by
  induction l with
  | nil => simp at h
  | cons b l ih =>
    rw [List.takeWhile_cons] at h
    split at h
    · rename_i hb
      rcases List.mem_cons.1 h with h | h
      · subst h; exact hb
      · exact ih h
    · simp at h

theorem getLastD_ne {α} {l : List α} (h : l ≠ []) (a b : α) : l.getLastD a = l.getLastD b := by
  cases l with
  | nil => exact absurd rfl h
  | cons c t => rw [List.getLastD_cons, List.getLastD_cons]

theorem getLastD_append_ne {α} (l l' : List α) (d : α) (h : l' ≠ []) :
    (l ++ l').getLastD d = l'.getLastD d := by
  induction l generalizing d with
  | nil => simp
  | cons a l ih => rw [List.cons_append, List.getLastD_cons, ih, getLastD_ne h]

theorem getLastD_mem {α} {l : List α} (h : l ≠ []) (d : α) : l.getLastD d ∈ l := by
  cases l with
  | nil => exact absurd rfl h
  | cons c t => rw [List.getLastD_cons]; exact List.getLastD_mem_cons

theorem at'_last (s : List Nat) : at' s (s.length - 1) = s.getLastD 0 := by
  unfold at'
  rw [List.getD_eq_getElem?_getD, List.getLastD_eq_getLast?, List.getLast?_eq_getElem?]

theorem elemsFrom_last : ∀ n suf, suf.length ≤ n → suf ≠ [] →
    ((elemsFrom suf).getLastD [] = [] ↔ isSep (suf.getLastD 0) = true) := by
  intro n
  induction n with
  | zero => intro suf h hs; exact absurd (List.eq_nil_of_length_eq_zero (by omega)) hs
  | succ n ih =>
    intro suf hlen hs
    have h1 : suf.takeWhile isSep ++ suf.dropWhile isSep = suf := List.takeWhile_append_dropWhile
    have h2 : (suf.dropWhile isSep).takeWhile notSep ++ (suf.dropWhile isSep).dropWhile notSep =
        suf.dropWhile isSep := List.takeWhile_append_dropWhile
    rw [elemsFrom_eq suf hs, List.getLastD_cons]
    by_cases hrest : (suf.dropWhile isSep).dropWhile notSep = []
    · rw [hrest] at h2
      rw [hrest, elemsFrom_nil, List.getLastD_nil]
      simp only [List.append_nil] at h2
      by_cases hr : suf.dropWhile isSep = []
      · rw [hr] at h1 ⊢
        simp only [List.append_nil] at h1
        simp only [List.takeWhile_nil, true_iff]
        have := getLastD_mem hs 0
        rw [← h1] at this
        have := mem_takeWhile this
        rw [h1] at this; exact this
      · have hne : ¬ (suf.dropWhile isSep).takeWhile notSep = [] := by rw [h2]; exact hr
        simp only [hne, false_iff]
        rw [← h1, getLastD_append_ne _ _ _ hr]
        have hm : (suf.dropWhile isSep).getLastD 0 ∈ (suf.dropWhile isSep).takeWhile notSep := by
          rw [h2]; exact getLastD_mem hr 0
        have := mem_takeWhile hm
        simpa [notSep] using this
    · have hlt : ((suf.dropWhile isSep).dropWhile notSep).length < suf.length := by
        have a1 := length_takeWhile_add_dropWhile isSep suf
        have a2 := length_takeWhile_add_dropWhile notSep (suf.dropWhile isSep)
        cases hsuf : suf with
        | nil => exact absurd hsuf hs
        | cons c t =>
          rw [hsuf] at a1 a2
          by_cases hc : isSep c = true
          · simp [hc] at a1 a2 ⊢; omega
          · simp [hc, notSep] at a1 a2 ⊢; omega
      have hne : elemsFrom ((suf.dropWhile isSep).dropWhile notSep) ≠ [] := by
        rw [Ne, elemsFrom_eq_nil_iff]; exact hrest
      rw [getLastD_ne hne _ [], ih _ (by omega) hrest]
      have : suf.getLastD 0 = ((suf.dropWhile isSep).dropWhile notSep).getLastD 0 := by
        conv => lhs; rw [← h1, ← h2, ← List.append_assoc]
        rw [getLastD_append_ne _ _ _ hrest]
      rw [this]

theorem rootDir_nonempty (b : List Nat) : (!(rootDirRange b).isEmpty) = isSep (b.headD 0) := by
  unfold rootDirRange leadingSeps Range.isEmpty
  cases b with
  | nil => simp [isSep_zero]
  | cons c t =>
    by_cases hc : isSep c = true
    · simp [hc]
    · simp [hc]

theorem rewindToSep_le (s : List Nat) (b : Nat) : ∀ f, rewindToSep s b f ≤ f := by
  intro f
  induction f with
  | zero => simp [rewindToSep]
  | succ f ih =>
    unfold rewindToSep
    split
    · omega
    · omega

theorem rootPathRange_snd (a : List Nat) : (rootPathRange a).2 = leadingSeps a := by
  unfold rootPathRange rootDirRange
  by_cases h : leadingSeps a = 0
  · simp [h]
  · simp [h]

theorem filename_nonempty (a : List Nat) (ha : a ≠ []) :
    (!(filenameRange a).isEmpty) = !isSep (a.getLastD 0) := by
  have hlen : a.length ≠ 0 := by
    intro h; exact ha (List.eq_nil_of_length_eq_zero h)
  unfold filenameRange
  rw [if_neg hlen, at'_last]
  cases hl : isSep (a.getLastD 0) with
  | true => simp [Range.isEmpty]
  | false =>
    have hb : (rootPathRange a).2 ≠ a.length := by
      intro hb
      have hk : (a.takeWhile isSep).length = a.length := by
        rw [rootPathRange_snd] at hb; exact hb
      have hd := length_takeWhile_add_dropWhile isSep a
      have hd' : a.dropWhile isSep = [] := List.eq_nil_of_length_eq_zero (by omega)
      have h1 : a.takeWhile isSep ++ a.dropWhile isSep = a := List.takeWhile_append_dropWhile
      rw [hd', List.append_nil] at h1
      have := getLastD_mem ha 0
      rw [← h1] at this
      have := mem_takeWhile this
      rw [h1, hl] at this
      exact absurd this (by simp)
    have := rewindToSep_le a (rootPathRange a).2 (a.length - 1)
    simp only [hb, false_or, Bool.false_eq_true, if_false, Range.isEmpty, Bool.not_false]
    simp; omega

theorem filename_spec (a : List Nat) (ha : a ≠ []) :
    PathSpec.filename a ≠ [] ↔ isSep (a.getLastD 0) = false := by
  unfold PathSpec.filename
  rw [parse_names]
  by_cases hr : a.dropWhile isSep = []
  · rw [hr, elemsFrom_nil]
    have h1 : a.takeWhile isSep ++ a.dropWhile isSep = a := List.takeWhile_append_dropWhile
    rw [hr, List.append_nil] at h1
    have := getLastD_mem ha 0
    rw [← h1] at this
    have := mem_takeWhile this
    rw [h1] at this
    rw [this]; simp
  · have := elemsFrom_last _ _ (Nat.le_refl _) hr
    have h1 : a.takeWhile isSep ++ a.dropWhile isSep = a := List.takeWhile_append_dropWhile
    have h3 : a.getLastD 0 = (a.dropWhile isSep).getLastD 0 := by
      conv => lhs; rw [← h1]
      rw [getLastD_append_ne _ _ _ hr]
    rw [h3, Ne, this]
    simp

theorem join_spec (a b : List Nat) : join (some a) (some b) = PathSpec.join a b := by
  unfold join PathSpec.join
  cases a with
  | nil => simp
  | cons c t =>
    have hne : (c :: t) ≠ [] := by simp
    simp only [Option.getD_some, rootDir_nonempty, filename_nonempty _ hne]
    have hs := filename_spec _ hne
    by_cases hb : isSep (b.headD 0) = true
    · rw [if_pos hb, if_pos hb]
    · rw [if_neg hb, if_neg hb, if_neg hne]
      cases hl : isSep ((c :: t).getLastD 0) with
      | true =>
        have : ¬ PathSpec.filename (c :: t) ≠ [] := by rw [hs, hl]; simp
        rw [if_neg this, if_neg (by simp)]
      | false =>
        have : PathSpec.filename (c :: t) ≠ [] := by rw [hs, hl]
        rw [if_pos this, if_pos (by simp)]

/-! ## relative: walking both iterators -/

theorem mismatch_nil_left (bs : List (List Nat)) : mismatch [] bs = ([], bs) := by
  simp [mismatch]

theorem mismatch_nil_right (as : List (List Nat)) : mismatch as [] = (as, []) := by
  cases as <;> simp [mismatch]

theorem mismatch_cons_eq (a : List Nat) (as bs : List (List Nat)) :
    mismatch (a :: as) (a :: bs) = mismatch as bs := by
  simp [mismatch]

theorem mismatch_cons_ne (a b : List Nat) (as bs : List (List Nat)) (h : a ≠ b) :
    mismatch (a :: as) (b :: bs) = (a :: as, b :: bs) := by
  simp [mismatch, h]

theorem skipCommon_G (p b : List Nat) (hp : 0 ∉ p) (hb : 0 ∉ b) : ∀ fuel e d, p.length - e < fuel →
    ∃ e' d', skipCommon p b fuel (G p e) (G b d) = (G p e', G b d') ∧
      mismatch (elemsFrom (p.drop e)) (elemsFrom (b.drop d)) =
        (elemsFrom (p.drop e'), elemsFrom (b.drop d')) := by
  intro fuel
  induction fuel with
  | zero => intro e d h; omega
  | succ fuel ih =>
    intro e d h
    by_cases hpe : p.drop e = []
    · refine ⟨e, d, ?_, ?_⟩
      · rw [skipCommon, G_nil p hp e hpe]; simp
      · rw [hpe, elemsFrom_nil, mismatch_nil_left]
    · by_cases hbd : b.drop d = []
      · refine ⟨e, d, ?_, ?_⟩
        · rw [skipCommon, G_nil b hb d hbd]; simp
        · rw [hbd, elemsFrom_nil, mismatch_nil_right]
      · obtain ⟨hxs, hxlt, hxel, _, _⟩ := G_step p hp e hpe
        obtain ⟨hys, _, hyel, _, _⟩ := G_step b hb d hbd
        have hlen : e < p.length := by
          have : ¬ p.length ≤ e := fun hh => hpe (List.drop_eq_nil_iff.2 hh)
          omega
        by_cases ht : rangeText p (G p e) = rangeText b (G b d)
        · obtain ⟨e', d', h1, h2⟩ := ih (G p e).range.2 (G b d).range.2 (by omega)
          refine ⟨e', d', ?_, ?_⟩
          · rw [skipCommon, if_pos ⟨by rw [hxs]; simp, by rw [hys]; simp, by rw [hxs, hys], ht⟩,
              next_of_fileName p _ hxs, next_of_fileName b _ hys, h1]
          · rw [hxel, hyel, ht, mismatch_cons_eq, h2]
        · refine ⟨e, d, ?_, ?_⟩
          · rw [skipCommon, if_neg (by simp [ht])]
          · rw [hxel, hyel, mismatch_cons_ne _ _ _ _ ht]

theorem slice_root (s : List Nat) (h : isSep (at' s 0) = true) : slice s (0, 1) = [sep] := by
  rw [at'_eq_headD] at h
  cases s with
  | nil => simp [isSep_zero] at h
  | cons c t =>
    simp [isSep] at h
    simp [slice, h]

theorem skipCommon_begin (p b : List Nat) (hp : 0 ∉ p) (hb : 0 ∉ b)
    (hroot : isSep (at' p 0) = isSep (at' b 0)) :
    ∃ e' d', skipCommon p b (p.length + b.length + 4) (begin p) (begin b) = (G p e', G b d') ∧
      mismatch (parse p).elems (parse b).elems = (elemsFrom (p.drop e'), elemsFrom (b.drop d')) := by
  cases hr : isSep (at' p 0) with
  | false =>
    have hr' : isSep (at' b 0) = false := by rw [← hroot]; exact hr
    obtain ⟨e', d', h1, h2⟩ := skipCommon_G p b hp hb (p.length + b.length + 4) 0 0 (by omega)
    refine ⟨e', d', ?_, ?_⟩
    · rw [begin_noroot p hr, begin_noroot b hr', h1]
    · simp only [P.elems, parse_root, hr, hr', parse_names_noroot p hr, parse_names_noroot b hr']
      simpa using h2
  | true =>
    have hr' : isSep (at' b 0) = true := by rw [← hroot]; exact hr
    obtain ⟨e', d', h1, h2⟩ := skipCommon_G p b hp hb (p.length + b.length + 3)
      (skipSeps p (p.length + 1) 1) (skipSeps b (b.length + 1) 1) (by omega)
    refine ⟨e', d', ?_, ?_⟩
    · rw [begin_root p hr, begin_root b hr', skipCommon,
        if_pos ⟨by simp, by simp, rfl, by simp [rangeText, slice_root p hr, slice_root b hr']⟩,
        next_rootDir, next_rootDir, h1]
    · simp only [P.elems, parse_root, hr, hr', parse_names, if_true, List.singleton_append,
        mismatch_cons_eq]
      rw [drop_skipSeps_one p hr, drop_skipSeps_one b hr'] at h2
      exact h2

def upCount (rb : List (List Nat)) : Nat := (rb.filter (· = [dot, dot])).length
def nameCount (rb : List (List Nat)) : Nat :=
  (rb.filter (fun e => e ≠ [dot, dot] ∧ e ≠ [dot] ∧ e ≠ [])).length

theorem countBase_G (b : List Nat) (hb : 0 ∉ b) : ∀ fuel d up names, b.length - d ≤ fuel →
    countBase b fuel (G b d) (up, names) =
      (up + upCount (elemsFrom (b.drop d)), names + nameCount (elemsFrom (b.drop d))) := by
  intro fuel
  induction fuel with
  | zero =>
    intro d up names h
    have : b.drop d = [] := by rw [List.drop_eq_nil_iff]; omega
    simp [countBase, this, elemsFrom_nil, upCount, nameCount]
  | succ fuel ih =>
    intro d up names h
    by_cases hbd : b.drop d = []
    · rw [G_nil b hb d hbd, hbd]
      simp [countBase, elemsFrom_nil, upCount, nameCount]
    · obtain ⟨hys, hylt, hyel, _, _⟩ := G_step b hb d hbd
      have hlen : d < b.length := by
        have : ¬ b.length ≤ d := fun hh => hbd (List.drop_eq_nil_iff.2 hh)
        omega
      rw [countBase, if_neg (by rw [hys]; simp), next_of_fileName b _ hys, hyel]
      generalize rangeText b (G b d) = t
      by_cases h1 : t = []
      · subst h1
        simp only [if_true]
        rw [ih _ _ _ (by omega)]
        simp [upCount, nameCount]
      · by_cases h2 : t = [dot, dot]
        · subst h2
          simp only [h1, if_false, if_true]
          rw [ih _ _ _ (by omega)]
          simp [upCount, nameCount]; omega
        · by_cases h3 : t = [dot]
          · subst h3
            simp only [h1, h2, if_false, if_true]
            rw [ih _ _ _ (by omega)]
            simp [upCount, nameCount, h2]
          · simp only [h1, h2, h3, if_false]
            rw [ih _ _ _ (by omega)]
            simp [upCount, nameCount, h1, h2, h3]; omega

/-! ## relative: assembling the result -/

def upsText (up : Nat) : List Nat :=
  (List.replicate up [dot, dot]).foldl (fun acc u => if acc = [] then u else acc ++ [sep] ++ u) []

def assembleOpt (p : List Nat) (x : PathIter) (up : Nat) : Option (List Nat) :=
  if x.range.1 < p.length then
    some (if upsText up = [] then p.drop x.range.1 else upsText up ++ [sep] ++ p.drop x.range.1)
  else if up > 0 ∧ x.state ≠ .end_ then some (upsText up ++ [p.getLastD 0])
  else some (upsText up)

def modelTail (p b : List Nat) (x y : PathIter) : Option (List Nat) :=
  if (x.state = .end_ ∧ y.state = .end_) ∨ (x.range.isEmpty ∧ y.state = .end_) then some [dot]
  else
    let c := countBase b (b.length + 2) y (0, 0)
    if c.1 > c.2 then none
    else
      let up := if x.state = .rootDir then 0 else c.2 - c.1
      if up = 0 ∧ (x.state = .end_ ∨ x.range.isEmpty) then some [dot]
      else assembleOpt p x up

def specTail (ra rb : List (List Nat)) : Option (List (List Nat)) :=
  if ra = [] ∧ rb = [] then some [[dot]]
  else
    if nameCount rb < upCount rb then none
    else
      if nameCount rb - upCount rb = 0 ∧ (ra = [] ∨ ra.head? = some []) then some [[dot]]
      else some (List.replicate (nameCount rb - upCount rb) [dot, dot] ++ ra)

theorem relative_eq (p b : List Nat) : relative p b =
    if isAbsolute p ≠ isAbsolute b ∨ ((!(!(rootDirRange p).isEmpty)) ∧ (!(rootDirRange b).isEmpty)) then none
    else modelTail p b (skipCommon p b (p.length + b.length + 4) (begin p) (begin b)).1
      (skipCommon p b (p.length + b.length + 4) (begin p) (begin b)).2 := rfl

theorem spec_relative_eq (p b : List Nat) : PathSpec.relative p b =
    if (parse p).root ≠ (parse b).root then none
    else specTail (mismatch (parse p).elems (parse b).elems).1 (mismatch (parse p).elems (parse b).elems).2 := rfl

def W : Nat → List Nat → List Nat
  | 0, T => T
  | n + 1, T => dot :: dot :: sep :: W n T

def V : Nat → List Nat
  | 0 => []
  | n + 1 => sep :: dot :: dot :: V n

theorem foldl_ups : ∀ n (acc : List Nat), acc ≠ [] →
    (List.replicate n [dot, dot]).foldl (fun acc u => if acc = [] then u else acc ++ [sep] ++ u) acc =
      acc ++ V n := by
  intro n
  induction n with
  | zero => intro acc _; simp [V]
  | succ n ih =>
    intro acc h
    rw [List.replicate_succ, List.foldl_cons, if_neg h, ih _ (by simp)]
    simp [V]

theorem upsText_zero : upsText 0 = [] := rfl

theorem upsText_succ (n : Nat) : upsText (n + 1) = [dot, dot] ++ V n := by
  unfold upsText
  rw [List.replicate_succ, List.foldl_cons, if_pos rfl]
  exact foldl_ups n _ (by simp)

theorem ddV_eq_W (n : Nat) : [dot, dot] ++ V n = W n [dot, dot] := by
  induction n with
  | zero => rfl
  | succ n ih => simp only [V, W, ← ih]; rfl

theorem ddV_sep_eq_W (n : Nat) (T : List Nat) : [dot, dot] ++ V n ++ sep :: T = W (n + 1) T := by
  induction n with
  | zero => rfl
  | succ n ih =>
    have : W (n + 1 + 1) T = dot :: dot :: sep :: W (n + 1) T := rfl
    rw [this, ← ih]; rfl

theorem noroot_dropWhile (l : List Nat) : isSep ((l.dropWhile isSep).headD 0) = false := by
  induction l with
  | nil => exact isSep_zero
  | cons c t ih =>
    by_cases hc : isSep c = true
    · rw [List.dropWhile_cons, if_pos hc]; exact ih
    · rw [List.dropWhile_cons, if_neg hc]; simpa using hc

theorem dropWhile_noroot (s : List Nat) (h : isSep (s.headD 0) = false) : s.dropWhile isSep = s := by
  cases s with
  | nil => rfl
  | cons c t => rw [List.headD_cons] at h; rw [List.dropWhile_cons, if_neg (by simp [h])]

theorem noroot_W (n : Nat) (T : List Nat) (h : isSep (T.headD 0) = false) :
    isSep ((W n T).headD 0) = false := by
  cases n with
  | zero => exact h
  | succ n => rfl

theorem elemsFrom_noroot (s : List Nat) (h : isSep (s.headD 0) = false) (hs : s ≠ []) :
    elemsFrom s = spl s := by
  unfold elemsFrom
  rw [if_neg hs, dropWhile_noroot s h]

theorem parse_elems_noroot (s : List Nat) (h : isSep (s.headD 0) = false) :
    (parse s).elems = elemsFrom s := by
  have h' : isSep (at' s 0) = false := by rw [at'_eq_headD]; exact h
  unfold P.elems
  rw [parse_root, h', parse_names_noroot s h']
  simp

theorem spl_W (n : Nat) (T : List Nat) (h : isSep (T.headD 0) = false) :
    spl (W n T) = List.replicate n [dot, dot] ++ spl T := by
  induction n with
  | zero => rfl
  | succ n ih =>
    have h1 : (W (n + 1) T).takeWhile notSep = [dot, dot] := by
      simp [W, notSep, isSep, dot, sep]
    have h2 : (W (n + 1) T).dropWhile notSep = sep :: W n T := by
      simp [W, notSep, isSep, dot, sep]
    rw [spl_eq, h1, h2]
    unfold elemsFrom
    rw [if_neg (by simp), List.dropWhile_cons, if_pos (by decide),
      dropWhile_noroot _ (noroot_W n T h), ih, List.replicate_succ]
    rfl

theorem isSep_iff (c : Nat) : isSep c = true ↔ c = sep := by
  simp [isSep]

/-- Summary of an iterator at a file position in terms of the remaining elements. -/
theorem G_facts (s : List Nat) (h0 : 0 ∉ s) (e : Nat) :
    (G s e).state ≠ .rootDir ∧ ((G s e).state = .end_ ↔ elemsFrom (s.drop e) = []) ∧
    ((G s e).range.isEmpty = true ↔
      (elemsFrom (s.drop e) = [] ∨ (elemsFrom (s.drop e)).head? = some [])) := by
  by_cases hs : s.drop e = []
  · rw [G_nil s h0 e hs, hs, elemsFrom_nil]
    simp [Range.isEmpty]
  · obtain ⟨hst, _, hel, _, htext⟩ := G_step s h0 e hs
    have hr : (G s e).range.2 = (G s e).range.1 + (rangeText s (G s e)).length := by
      rw [htext, G_cons s h0 e hs]
    rw [hel, hst]
    refine ⟨by simp, by simp, ?_⟩
    unfold Range.isEmpty
    rw [hr]
    simp only [List.cons_ne_nil, false_or, List.head?_cons, Option.some.injEq]
    rw [beq_iff_eq]
    constructor
    · intro h; exact List.eq_nil_of_length_eq_zero (by omega)
    · intro h; rw [h]; rfl

theorem parse_dot : (parse [dot]).elems = [[dot]] := by decide

theorem spl_dd : spl [dot, dot] = [[dot, dot]] := by decide

theorem assemble_spec (p : List Nat) (hp : 0 ∉ p) (e n : Nat)
    (hne : ¬ (n = 0 ∧ (elemsFrom (p.drop e) = [] ∨ (elemsFrom (p.drop e)).head? = some []))) :
    (assembleOpt p (G p e) n).map (fun r => (parse r).elems) =
      some (List.replicate n [dot, dot] ++ elemsFrom (p.drop e)) := by
  unfold assembleOpt
  by_cases hpe : p.drop e = []
  · have hlen : p.length ≤ e := List.drop_eq_nil_iff.1 hpe
    rw [hpe, elemsFrom_nil] at hne
    rw [G_nil p hp e hpe, hpe, elemsFrom_nil]
    rw [if_neg (by simp; omega), if_neg (by simp)]
    cases n with
    | zero => exact absurd ⟨rfl, Or.inl rfl⟩ hne
    | succ m =>
      rw [upsText_succ, ddV_eq_W, Option.map_some]
      rw [parse_elems_noroot _ (noroot_W m _ (by decide)),
        elemsFrom_noroot _ (noroot_W m _ (by decide)) (by cases m <;> simp [W]),
        spl_W m _ (by decide), spl_dd]
      simp [List.replicate_succ']
  · obtain ⟨hst, _, hel, hdrop, htext⟩ := G_step p hp e hpe
    have hra : elemsFrom (p.drop e) = spl ((p.drop e).dropWhile isSep) := by
      unfold elemsFrom; rw [if_neg hpe]
    have hnr := noroot_dropWhile (p.drop e)
    rw [hdrop, hst]
    by_cases hr : (p.drop e).dropWhile isSep = []
    · have hge : ¬ (G p e).range.1 < p.length := by
        rw [hr, List.drop_eq_nil_iff] at hdrop; omega
      rw [hr, spl_nil] at hra
      rw [if_neg hge]
      cases n with
      | zero => exact absurd ⟨rfl, Or.inr (by rw [hra]; rfl)⟩ hne
      | succ m =>
        have hlast : p.getLastD 0 = sep := by
          have h1 : (p.drop e).takeWhile isSep ++ (p.drop e).dropWhile isSep = p.drop e :=
            List.takeWhile_append_dropWhile
          rw [hr, List.append_nil] at h1
          have h2 : p.getLastD 0 = (p.drop e).getLastD 0 := by
            conv => lhs; rw [← List.take_append_drop e p]
            rw [getLastD_append_ne _ _ _ hpe]
          have hm : (p.drop e).getLastD 0 ∈ (p.drop e).takeWhile isSep := by
            rw [h1]; exact getLastD_mem hpe 0
          rw [h2]; exact (isSep_iff _).1 (mem_takeWhile hm)
        rw [if_pos ⟨by omega, by simp⟩, hlast, upsText_succ, ddV_sep_eq_W, Option.map_some,
          parse_elems_noroot _ (noroot_W _ _ (by decide)),
          elemsFrom_noroot _ (noroot_W _ _ (by decide)) (by simp [W]),
          spl_W _ _ (by decide), hra, spl_nil]
    · have hlt : (G p e).range.1 < p.length := by
        have : ¬ p.length ≤ (G p e).range.1 := fun hh => hr (by rw [← hdrop]; exact List.drop_eq_nil_iff.2 hh)
        omega
      rw [if_pos hlt, hra]
      cases n with
      | zero =>
        rw [upsText_zero, if_pos rfl, Option.map_some, parse_elems_noroot _ hnr,
          elemsFrom_noroot _ hnr hr]
        simp
      | succ m =>
        rw [if_neg (by rw [upsText_succ]; simp), upsText_succ, List.append_assoc, List.singleton_append,
          ddV_sep_eq_W, Option.map_some,
          parse_elems_noroot _ (noroot_W _ _ hnr),
          elemsFrom_noroot _ (noroot_W _ _ hnr) (by simp [W]), spl_W _ _ hnr]

theorem tail_spec (p b : List Nat) (hp : 0 ∉ p) (hb : 0 ∉ b) (e d : Nat) :
    (modelTail p b (G p e) (G b d)).map (fun r => (parse r).elems) =
      specTail (elemsFrom (p.drop e)) (elemsFrom (b.drop d)) := by
  obtain ⟨hxr, hxe, hxi⟩ := G_facts p hp e
  obtain ⟨_, hye, _⟩ := G_facts b hb d
  have hc := countBase_G b hb (b.length + 2) d 0 0 (by omega)
  simp only [Nat.zero_add] at hc
  have hasm := assemble_spec p hp e
  unfold modelTail specTail
  simp only [hc, if_neg hxr]
  generalize elemsFrom (p.drop e) = ra at *
  generalize elemsFrom (b.drop d) = rb at *
  by_cases hrb : rb = []
  · have hy := hye.2 hrb
    subst hrb
    have hU : upCount [] = 0 := rfl
    have hN : nameCount [] = 0 := rfl
    rw [hU, hN]
    by_cases hcnd : ra = [] ∨ ra.head? = some []
    · rw [if_pos (Or.inr ⟨hxi.2 hcnd, hy⟩), Option.map_some, parse_dot]
      by_cases hra : ra = []
      · rw [if_pos ⟨hra, rfl⟩]
      · rw [if_neg (fun h => hra h.1), if_neg (Nat.lt_irrefl 0), if_pos ⟨rfl, hcnd⟩]
    · have hA : ¬ (((G p e).state = .end_ ∧ (G b d).state = .end_) ∨
          ((G p e).range.isEmpty = true ∧ (G b d).state = .end_)) := by
        rintro (⟨h, _⟩ | ⟨h, _⟩)
        · exact hcnd (Or.inl (hxe.1 h))
        · exact hcnd (hxi.1 h)
      have hB : ¬ (0 - 0 = 0 ∧ ((G p e).state = .end_ ∨ (G p e).range.isEmpty = true)) := by
        rintro ⟨_, (h | h)⟩
        · exact hcnd (Or.inl (hxe.1 h))
        · exact hcnd (hxi.1 h)
      rw [if_neg hA, if_neg (Nat.lt_irrefl 0), if_neg hB, hasm _ (fun h => hcnd h.2),
        if_neg (fun h => hcnd (Or.inl h.1)), if_neg (Nat.lt_irrefl 0), if_neg (fun h => hcnd h.2)]
  · have hy : ¬ (G b d).state = .end_ := fun h => hrb (hye.1 h)
    have hA : ¬ (((G p e).state = .end_ ∧ (G b d).state = .end_) ∨
        ((G p e).range.isEmpty = true ∧ (G b d).state = .end_)) := by
      rintro (⟨_, h⟩ | ⟨_, h⟩) <;> exact hy h
    rw [if_neg hA, if_neg (show ¬ (ra = [] ∧ rb = []) from fun h => hrb h.2)]
    by_cases hlt : nameCount rb < upCount rb
    · rw [if_pos hlt, if_pos hlt]; rfl
    · rw [if_neg hlt, if_neg hlt]
      by_cases hz : nameCount rb - upCount rb = 0 ∧ (ra = [] ∨ ra.head? = some [])
      · have hB : nameCount rb - upCount rb = 0 ∧
            ((G p e).state = .end_ ∨ (G p e).range.isEmpty = true) := by
          refine ⟨hz.1, Or.inr (hxi.2 hz.2)⟩
        rw [if_pos hB, if_pos hz, Option.map_some, parse_dot]
      · have hB : ¬ (nameCount rb - upCount rb = 0 ∧
            ((G p e).state = .end_ ∨ (G p e).range.isEmpty = true)) := by
          rintro ⟨h0, (h | h)⟩
          · exact hz ⟨h0, Or.inl (hxe.1 h)⟩
          · exact hz ⟨h0, hxi.1 h⟩
        rw [if_neg hB, if_neg hz, hasm _ hz]

/-- The model's result, read back as a C++17 path, is the C++17 `lexically_relative`. -/
theorem rel_char (p b : List Nat) (hp : 0 ∉ p) (hb : 0 ∉ b) :
    (Zix.Path.relative p b).map (fun r => (parse r).elems) = PathSpec.relative p b := by
  rw [relative_eq, spec_relative_eq]
  simp only [rootDir_nonempty, isAbsolute, parse_root, at'_eq_headD' p, at'_eq_headD' b]
  by_cases hroot : isSep (at' p 0) = isSep (at' b 0)
  · obtain ⟨e', d', h1, h2⟩ := skipCommon_begin p b hp hb hroot
    have hcond : ¬ (isSep (at' p 0) ≠ isSep (at' b 0) ∨
        ((!isSep (at' p 0)) = true ∧ isSep (at' b 0) = true)) := by
      rw [hroot]; simp
    rw [if_neg hcond, if_neg (by simpa using hroot), h1, h2]
    exact tail_spec p b hp hb e' d'
  · rw [if_pos (Or.inl hroot), if_pos hroot]; rfl

end Zix.Path.Rel
