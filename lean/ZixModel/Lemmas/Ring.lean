import ZixModel.Model.Ring
/-! Helper lemmas for the C05 ring-buffer properties: the bit smear of `nextPow2`, modular
arithmetic for power-of-two sizes, `blit`, and pointwise list facts. -/
namespace Zix.Ring

/-! ## bit smear -/

/-- bit `i` of `s` is the OR of bits `i .. i+m-1` of `x` -/
def Smeared (x s m : Nat) : Prop :=
  ∀ i, s.testBit i = true ↔ ∃ j, j < m ∧ x.testBit (i + j) = true

theorem smeared_init (x : Nat) : Smeared x x 1 := by
  intro i; constructor
  · intro h; exact ⟨0, by omega, by simpa using h⟩
  · rintro ⟨j, hj, h⟩
    have : j = 0 := by omega
    subst this; simpa using h

theorem smeared_step {x s m : Nat} (h : Smeared x s m) :
    Smeared x (s ||| (s >>> m)) (m + m) := by
  intro i
  rw [Nat.testBit_or, Nat.testBit_shiftRight, Bool.or_eq_true, h i, h (m + i)]
  constructor
  · rintro (⟨j, hj, hb⟩ | ⟨j, hj, hb⟩)
    · exact ⟨j, by omega, hb⟩
    · exact ⟨m + j, by omega, by rw [← hb]; congr 1; omega⟩
  · rintro ⟨j, hj, hb⟩
    by_cases hjm : j < m
    · exact Or.inl ⟨j, hjm, hb⟩
    · exact Or.inr ⟨j - m, by omega, by rw [← hb]; congr 1; omega⟩

theorem testBit_top {x k : Nat} (h1 : 2 ^ k ≤ x) (h2 : x < 2 ^ (k + 1)) : x.testBit k = true := by
  obtain ⟨i, hi, hb⟩ := Nat.exists_ge_and_testBit_of_ge_two_pow h1
  have hx := Nat.ge_two_pow_of_testBit hb
  by_cases hik : i = k
  · subst hik; exact hb
  · have : 2 ^ (k + 1) ≤ 2 ^ i := Nat.pow_le_pow_right (by decide) (by omega)
    omega

theorem smeared_eq {x s k : Nat} (h1 : 2 ^ k ≤ x) (h2 : x < 2 ^ (k + 1)) (hk : k < 32)
    (h : Smeared x s 32) : s = 2 ^ (k + 1) - 1 := by
  apply Nat.eq_of_testBit_eq
  intro i
  rw [Nat.testBit_two_pow_sub_one]
  by_cases hik : i < k + 1
  · have : s.testBit i = true :=
      (h i).2 ⟨k - i, by omega, by
        have : i + (k - i) = k := by omega
        rw [this]; exact testBit_top h1 h2⟩
    simp [this, hik]
  · have : ¬ (s.testBit i = true) := by
      rw [h i]
      rintro ⟨j, _, hb⟩
      have hx := Nat.ge_two_pow_of_testBit hb
      have : 2 ^ (k + 1) ≤ 2 ^ (i + j) := Nat.pow_le_pow_right (by decide) (by omega)
      omega
    simp [hik]
    simpa using this

/-- the five smear steps of `nextPow2` -/
def smear (x : Nat) : Nat :=
  let s := x ||| (x >>> 1)
  let s := s ||| (s >>> 2)
  let s := s ||| (s >>> 4)
  let s := s ||| (s >>> 8)
  s ||| (s >>> 16)

theorem smeared_smear (x : Nat) : Smeared x (smear x) 32 := by
  have h0 := smeared_init x
  have h1 : Smeared x _ 2 := smeared_step h0
  have h2 : Smeared x _ 4 := smeared_step h1
  have h3 : Smeared x _ 8 := smeared_step h2
  have h4 : Smeared x _ 16 := smeared_step h3
  have h5 : Smeared x _ 32 := smeared_step h4
  exact h5

theorem smear_zero : smear 0 = 0 := by decide

theorem nextPow2_eq (s : Nat) (h1 : 1 ≤ s) (h2 : s ≤ 2 ^ 31) :
    nextPow2 s = (smear (s - 1) + 1) % W32 := by
  have : (s + W32 - 1) % W32 = s - 1 := by unfold W32; omega
  unfold nextPow2 smear
  simp only [this]

theorem nextPow2_spec (s : Nat) (h1 : 1 ≤ s) (h2 : s ≤ 2 ^ 31) :
    ∃ k, k ≤ 31 ∧ nextPow2 s = 2 ^ k ∧ s ≤ 2 ^ k ∧ (k = 0 ∨ 2 ^ (k - 1) < s) := by
  rw [nextPow2_eq s h1 h2]
  by_cases hs : s = 1
  · subst hs
    refine ⟨0, by omega, ?_, by simp, Or.inl rfl⟩
    simp [smear_zero, W32]
  · have hx : s - 1 ≠ 0 := by omega
    have hlo := Nat.log2_self_le hx
    have hhi := @Nat.lt_log2_self (s - 1)
    have hk : (s - 1).log2 < 31 := (Nat.log2_lt hx).2 (by omega)
    have := smeared_eq hlo hhi (by omega) (smeared_smear (s - 1))
    refine ⟨(s - 1).log2 + 1, by omega, ?_, by omega, Or.inr (by simpa using by omega)⟩
    rw [this]
    have hpos : 0 < 2 ^ ((s - 1).log2 + 1) := Nat.pow_pos (by decide)
    have hle : 2 ^ ((s - 1).log2 + 1) ≤ 2 ^ 31 := Nat.pow_le_pow_right (by decide) (by omega)
    unfold W32
    omega

theorem nextPow2_zero : nextPow2 0 = 0 := by decide

/-- Above 2^31 the rounding wraps to zero. -/
theorem nextPow2_big (s : Nat) (h1 : 2 ^ 31 < s) (h2 : s < 2 ^ 32) : nextPow2 s = 0 := by
  have e : (s + W32 - 1) % W32 = s - 1 := by unfold W32; omega
  have hs : nextPow2 s = (smear (s - 1) + 1) % W32 := by
    unfold nextPow2 smear
    simp only [e]
  have := smeared_eq (x := s - 1) (k := 31) (by omega) (by omega) (by omega) (smeared_smear (s - 1))
  rw [hs, this]
  decide

/-! ## modular arithmetic for power-of-two sizes -/

/-- the sizes `new` produces -/
def P2 (S : Nat) : Prop := ∃ k, k ≤ 31 ∧ S = 2 ^ k

theorem P2.pos {S : Nat} (h : P2 S) : 0 < S := by
  obtain ⟨k, _, rfl⟩ := h; exact Nat.pow_pos (by decide)

theorem P2.le {S : Nat} (h : P2 S) : S ≤ 2 ^ 31 := by
  obtain ⟨k, hk, rfl⟩ := h; exact Nat.pow_le_pow_right (by decide) hk

theorem P2.dvd {S : Nat} (h : P2 S) : S ∣ W32 := by
  obtain ⟨k, hk, rfl⟩ := h; exact Nat.pow_dvd_pow 2 (by omega)

theorem P2.add_w32_mod {S : Nat} (h : P2 S) (a : Nat) : (a + W32) % S = a % S := by
  obtain ⟨m, hm⟩ := h.dvd
  rw [hm, Nat.add_mul_mod_self_left]

theorem P2.mod_shift {S : Nat} (h : P2 S) {x y : Nat} (e : x + W32 = y + S) : y % S = x % S := by
  rw [← h.add_w32_mod x, e, Nat.add_mod_right]

theorem mod_cases (a S : Nat) (h : a < 2 * S) :
    (a < S ∧ a % S = a) ∨ (S ≤ a ∧ a % S = a - S) := by
  by_cases ha : a < S
  · exact Or.inl ⟨ha, Nat.mod_eq_of_lt ha⟩
  · refine Or.inr ⟨by omega, ?_⟩
    rw [Nat.mod_eq_sub_mod (by omega), Nat.mod_eq_of_lt (by omega)]

theorem readSpaceAt_cases (g : Ring) (hp : P2 g.size) {r w : Nat} (hr : r < g.size) (hw : w < g.size) :
    (r ≤ w ∧ readSpaceAt g r w = w - r) ∨ (w < r ∧ readSpaceAt g r w = w + g.size - r) := by
  have hle := hp.le
  unfold readSpaceAt
  by_cases h : r ≤ w
  · refine Or.inl ⟨h, ?_⟩
    have : (w + W32 - r) % W32 = w - r := by unfold W32; omega
    rw [this, Nat.mod_eq_of_lt (by omega)]
  · refine Or.inr ⟨by omega, ?_⟩
    have : (w + W32 - r) % W32 = w + W32 - r := by unfold W32; omega
    have e : w + g.size - r + W32 = w + W32 - r + g.size := by unfold W32; omega
    rw [this, hp.mod_shift e, Nat.mod_eq_of_lt (by omega)]

theorem writeSpaceAt_cases (g : Ring) (hp : P2 g.size) {r w : Nat} (hr : r < g.size) (hw : w < g.size) :
    (w < r ∧ writeSpaceAt g r w = r - w - 1) ∨ (r ≤ w ∧ writeSpaceAt g r w = r + g.size - w - 1) := by
  have hle := hp.le
  unfold writeSpaceAt
  by_cases h : w < r
  · refine Or.inl ⟨h, ?_⟩
    have : (r + W32 + W32 - w - 1) % W32 = r - w - 1 := by unfold W32; omega
    rw [this, Nat.mod_eq_of_lt (by omega)]
  · refine Or.inr ⟨by omega, ?_⟩
    have : (r + W32 + W32 - w - 1) % W32 = r + W32 - w - 1 := by unfold W32; omega
    have e : r + g.size - w - 1 + W32 = r + W32 - w - 1 + g.size := by unfold W32; omega
    rw [this, hp.mod_shift e, Nat.mod_eq_of_lt (by omega)]

theorem capacity_eq (g : Ring) (hp : P2 g.size) : capacity g = g.size - 1 := by
  have := hp.le; have := hp.pos
  unfold capacity W32; omega

/-- advancing the read head: `(r + n) % W32 % size` -/
theorem advance_eq (g : Ring) (hp : P2 g.size) (r n : Nat) :
    (r + n) % W32 % g.size = (r + n) % g.size := Nat.mod_mod_of_dvd _ hp.dvd

/-! ## lists -/

theorem list_eq_map_range (l : List Nat) (n : Nat) (f : Nat → Nat) (hl : l.length = n)
    (hf : ∀ i, i < n → l.getD i 0 = f i) : l = (List.range n).map f := by
  apply List.ext_getElem
  · simp [hl]
  · intro i h1 h2
    have := hf i (by omega)
    simp only [List.getD_eq_getElem?_getD, List.getElem?_eq_getElem h1, Option.getD_some] at this
    simp [this]

theorem blit_length (buf : List Nat) (pos : Nat) (src : List Nat)
    (h : pos + src.length ≤ buf.length) : (blit buf pos src).length = buf.length := by
  unfold blit
  simp only [List.length_append, List.length_take, List.length_drop]
  omega

theorem getD_blit (buf : List Nat) (pos : Nat) (src : List Nat) (j : Nat)
    (h : pos + src.length ≤ buf.length) :
    (blit buf pos src).getD j 0 =
      if pos ≤ j ∧ j < pos + src.length then src.getD (j - pos) 0 else buf.getD j 0 := by
  unfold blit
  simp only [List.getD_eq_getElem?_getD, List.getElem?_append, List.getElem?_take,
    List.getElem?_drop, List.length_append, List.length_take]
  have hmin : min pos buf.length = pos := by omega
  rw [hmin]
  by_cases h1 : j < pos
  · have : ¬ (pos ≤ j ∧ j < pos + src.length) := by omega
    rw [if_neg this]
    simp [h1, show j < pos + src.length by omega]
  · by_cases h2 : j < pos + src.length
    · simp [h1, h2, show pos ≤ j by omega]
    · have : ¬ (pos ≤ j ∧ j < pos + src.length) := by omega
      rw [if_neg this]
      simp only [h1, h2, if_false]
      congr 2; omega

theorem peek_pieces (buf : List Nat) (S r n : Nat) (hb : buf.length = S) (hr : r < S) (hn : n ≤ S) :
    (if r + n < S then (buf.drop r).take n
      else (buf.drop r).take (S - r) ++ buf.take (n - (S - r))) =
    (List.range n).map (fun i => buf.getD ((r + i) % S) 0) := by
  apply list_eq_map_range
  · split <;> simp only [List.length_append, List.length_take, List.length_drop] <;> omega
  · intro i hi
    rcases mod_cases (r + i) S (by omega) with ⟨h1, h2⟩ | ⟨h1, h2⟩ <;> rw [h2]
    · split
      · simp [List.getD_eq_getElem?_getD, List.getElem?_drop, hi]
      · simp only [List.getD_eq_getElem?_getD, List.getElem?_append, List.getElem?_take,
          List.getElem?_drop, List.length_take, List.length_drop]
        simp [show i < min (S - r) (buf.length - r) by omega, show i < S - r by omega]
    · split
      · omega
      · simp only [List.getD_eq_getElem?_getD, List.getElem?_append, List.getElem?_take,
          List.getElem?_drop, List.length_take, List.length_drop]
        have e : min (S - r) (buf.length - r) = S - r := by omega
        rw [e]
        simp only [show ¬ i < S - r by omega, if_false, show i - (S - r) < n - (S - r) by omega,
          if_true]
        congr 2; omega

/-! ## windows of the circular buffer -/

/-- `n` bytes of the circular buffer starting at index `r` -/
def window (buf : List Nat) (S r n : Nat) : List Nat :=
  (List.range n).map (fun i => buf.getD ((r + i) % S) 0)

theorem window_length (buf : List Nat) (S r n : Nat) : (window buf S r n).length = n := by
  simp [window]

theorem getD_window (buf : List Nat) (S r : Nat) {n i : Nat} (h : i < n) :
    (window buf S r n).getD i 0 = buf.getD ((r + i) % S) 0 := by
  simp [window, List.getD_eq_getElem?_getD, h]

theorem window_ext {buf : List Nat} {S r n : Nat} {l : List Nat} (hl : l.length = n)
    (hf : ∀ i, i < n → l.getD i 0 = buf.getD ((r + i) % S) 0) : l = window buf S r n :=
  list_eq_map_range l n _ hl hf

theorem window_congr {buf buf' : List Nat} {S r n : Nat}
    (hf : ∀ i, i < n → buf'.getD ((r + i) % S) 0 = buf.getD ((r + i) % S) 0) :
    window buf' S r n = window buf S r n := by
  apply window_ext (window_length ..)
  intro i hi
  rw [getD_window _ _ _ hi, hf i hi]

theorem window_take (buf : List Nat) (S r : Nat) {n m : Nat} (h : n ≤ m) :
    (window buf S r m).take n = window buf S r n := by
  apply window_ext
  · rw [List.length_take, window_length]; omega
  · intro i hi
    rw [← getD_window buf S r (show i < m by omega)]
    simp [List.getD_eq_getElem?_getD, hi]

theorem shift_mod (r n i S : Nat) : ((r + n) % S + i) % S = (r + (n + i)) % S := by
  rw [Nat.mod_add_mod, Nat.add_assoc]

theorem window_drop (buf : List Nat) (S r n m : Nat) :
    (window buf S r m).drop n = window buf S ((r + n) % S) (m - n) := by
  apply window_ext
  · rw [List.length_drop, window_length]
  · intro i hi
    rw [shift_mod, ← getD_window buf S r (show n + i < m by omega)]
    simp [List.getD_eq_getElem?_getD, List.getElem?_drop]

theorem window_append (buf : List Nat) (S r n m : Nat) :
    window buf S r (n + m) = window buf S r n ++ window buf S ((r + n) % S) m := by
  symm
  apply window_ext
  · rw [List.length_append, window_length, window_length]
  · intro i hi
    by_cases h : i < n
    · rw [← getD_window buf S r h]
      simp [List.getD_eq_getElem?_getD, List.getElem?_append, window_length, h]
    · have e : (r + i) % S = ((r + n) % S + (i - n)) % S := by
        rw [shift_mod]; congr 2; omega
      rw [e, ← getD_window buf S _ (show i - n < m by omega)]
      simp [List.getD_eq_getElem?_getD, List.getElem?_append, window_length, h]

/-- a list stored bytewise in the buffer at `w` is the window at `w` -/
theorem window_of_bytes {buf : List Nat} {S w : Nat} {p : List Nat}
    (hb : ∀ i, i < p.length → buf.getD ((w + i) % S) 0 = p.getD i 0) :
    window buf S w p.length = p := by
  symm
  exact window_ext rfl (fun i hi => (hb i hi).symm)

/-! ## the one- or two-piece copy of `amend` -/

/-- the buffer after `amend` copied `d` in at `tw` -/
def ringBlit (buf : List Nat) (S tw : Nat) (d : List Nat) : List Nat :=
  if tw + d.length ≤ S then blit buf tw d
  else blit (blit buf tw (d.take (S - tw))) 0 (d.drop (S - tw))

theorem ringBlit_length (buf : List Nat) (S tw : Nat) (d : List Nat) (hb : buf.length = S)
    (ht : tw < S) (hd : d.length ≤ S) : (ringBlit buf S tw d).length = S := by
  unfold ringBlit
  split
  · rw [blit_length _ _ _ (by omega), hb]
  · have h1 : (blit buf tw (d.take (S - tw))).length = buf.length :=
      blit_length _ _ _ (by rw [List.length_take]; omega)
    rw [blit_length _ _ _ (by rw [h1, List.length_drop]; omega), h1, hb]

/-- offset `o` from the write position: the new byte if `o < |d|`, else untouched -/
theorem getD_ringBlit (buf : List Nat) (S tw : Nat) (d : List Nat) (hb : buf.length = S)
    (ht : tw < S) (hd : d.length ≤ S) (o : Nat) (ho : o < S) :
    (ringBlit buf S tw d).getD ((tw + o) % S) 0 =
      if o < d.length then d.getD o 0 else buf.getD ((tw + o) % S) 0 := by
  unfold ringBlit
  split
  · rename_i hfit
    rw [getD_blit _ _ _ _ (by omega)]
    rcases mod_cases (tw + o) S (by omega) with ⟨h1, h2⟩ | ⟨h1, h2⟩ <;> rw [h2]
    · by_cases hon : o < d.length
      · rw [if_pos (by omega), if_pos hon]; congr 1; omega
      · rw [if_neg (by omega), if_neg hon]
    · rw [if_neg (by omega), if_neg (by omega)]
  · rename_i hfit
    have hl1 : (d.take (S - tw)).length = S - tw := by rw [List.length_take]; omega
    have h1 : (blit buf tw (d.take (S - tw))).length = buf.length :=
      blit_length _ _ _ (by omega)
    rw [getD_blit _ _ _ _ (by rw [h1, List.length_drop]; omega),
      getD_blit _ _ _ _ (by omega), hl1, List.length_drop]
    rcases mod_cases (tw + o) S (by omega) with ⟨h1, h2⟩ | ⟨h1, h2⟩ <;> rw [h2]
    · rw [if_neg (by omega), if_pos (by omega), if_pos (by omega)]
      simp [List.getD_eq_getElem?_getD, show o < S - tw by omega]
    · by_cases hon : o < d.length
      · rw [if_pos (by omega), if_pos hon]
        simp only [List.getD_eq_getElem?_getD, List.getElem?_drop]
        congr 2; omega
      · rw [if_neg (by omega), if_neg (by omega), if_neg hon]

theorem amend_eq (g : Ring) (tx : Tx) (d : List Nat) (ht : tx.w < g.size)
    (hd : ¬ writeSpaceAt g tx.r tx.w < d.length) (hn : d.length < g.size) :
    amend g tx d = some ({ g with buf := ringBlit g.buf g.size tx.w d },
      { tx with w := (tx.w + d.length) % g.size }) := by
  unfold amend ringBlit
  simp only [hd, if_false]
  split
  · rfl
  · rcases mod_cases (tx.w + d.length) g.size (by omega) with ⟨h1, h2⟩ | ⟨h1, h2⟩
    · omega
    · rw [h2]
      have : d.length - (g.size - tx.w) = tx.w + d.length - g.size := by omega
      rw [this]

/-! ## the ring operations on well-formed rings

`RWF`, `rcontent`, `RTx` are the invariant, abstraction function and transaction invariant of
`Properties/C05.lean` (`WF`, `content`, `TxOk`), restated here so the proofs can live in this file. -/

structure RWF (g : Ring) : Prop where
  pow   : P2 g.size
  rlt   : g.r < g.size
  wlt   : g.w < g.size
  blen  : g.buf.length = g.size

def rcontent (g : Ring) : List Nat := window g.buf g.size g.r (readSpace g)

structure RTx (g : Ring) (tx : Tx) (pending : List Nat) : Prop where
  rlt : tx.r < g.size
  wlt : tx.w < g.size
  fits : ((g.r + W32 - tx.r) % W32) % g.size + readSpace g + pending.length ≤ g.size - 1
  pend : tx.w = (g.w + pending.length) % g.size
  bytes : ∀ i, i < pending.length → g.buf.getD ((g.w + i) % g.size) 0 = pending.getD i 0

theorem stale_cases (g : Ring) (hp : P2 g.size) {tr r : Nat} (htr : tr < g.size) (hr : r < g.size) :
    (tr ≤ r ∧ (r + W32 - tr) % W32 % g.size = r - tr) ∨
    (r < tr ∧ (r + W32 - tr) % W32 % g.size = r + g.size - tr) := by
  have := readSpaceAt_cases g hp htr hr
  unfold readSpaceAt at this
  exact this

theorem readSpace_cases {g : Ring} (h : RWF g) :
    (g.r ≤ g.w ∧ readSpace g = g.w - g.r) ∨ (g.w < g.r ∧ readSpace g = g.w + g.size - g.r) :=
  readSpaceAt_cases g h.pow h.rlt h.wlt

theorem readSpace_lt {g : Ring} (h : RWF g) : readSpace g < g.size := by
  have := readSpace_cases h; have := h.rlt; have := h.wlt; omega

theorem space_sum {g : Ring} (h : RWF g) : readSpace g + writeSpace g = capacity g := by
  have h1 := readSpace_cases h
  have h2 : _ ∨ _ := writeSpaceAt_cases g h.pow h.rlt h.wlt
  have h3 := capacity_eq g h.pow
  have := h.rlt; have := h.wlt
  unfold writeSpace
  omega

theorem head_eq {g : Ring} (h : RWF g) : (g.r + readSpace g) % g.size = g.w := by
  have h1 := readSpace_cases h
  have := h.rlt; have := h.wlt
  have := mod_cases (g.r + readSpace g) g.size (by omega)
  omega

theorem rtx_space {g : Ring} (h : RWF g) {tx : Tx} {p : List Nat} (ht : RTx g tx p) :
    writeSpaceAt g tx.r tx.w + p.length + readSpace g + ((g.r + W32 - tx.r) % W32) % g.size
      = g.size - 1 := by
  have h1 := readSpace_cases h
  have h2 := writeSpaceAt_cases g h.pow ht.rlt ht.wlt
  have h3 := stale_cases g h.pow ht.rlt h.rlt
  have h4 := ht.fits
  have h5 := ht.pend
  have := h.rlt; have := h.wlt; have := ht.rlt; have := ht.wlt
  have := mod_cases (g.w + p.length) g.size (by omega)
  omega

theorem rtx_begin {g : Ring} (h : RWF g) : RTx g (beginWrite g) [] := by
  have h1 := readSpace_lt h
  have h3 := stale_cases g h.pow h.rlt h.rlt
  refine ⟨h.rlt, h.wlt, ?_, ?_, ?_⟩
  · show (g.r + W32 - g.r) % W32 % g.size + readSpace g + 0 ≤ g.size - 1
    omega
  · show g.w = (g.w + 0) % g.size
    rw [Nat.add_zero, Nat.mod_eq_of_lt h.wlt]
  · intro i hi; exact absurd hi (Nat.not_lt_zero _)

theorem rtx_amend {g : Ring} (h : RWF g) {tx : Tx} {p d : List Nat} (ht : RTx g tx p)
    (hd : d.length ≤ writeSpaceAt g tx.r tx.w) :
    ∃ g' tx', amend g tx d = some (g', tx') ∧ RWF g' ∧ rcontent g' = rcontent g ∧
      g'.r = g.r ∧ g'.w = g.w ∧ RTx g' tx' (p ++ d) := by
  have hsp := rtx_space h ht
  have hrs := readSpace_cases h
  have hpos := h.pow.pos
  have hr := h.rlt; have hw := h.wlt; have htw := ht.wlt
  have hpend := ht.pend
  have hpm := mod_cases (g.w + p.length) g.size (by omega)
  have hn : d.length < g.size := by omega
  have hblit := getD_ringBlit g.buf g.size tx.w d h.blen htw (by omega)
  refine ⟨{ g with buf := ringBlit g.buf g.size tx.w d },
    { tx with w := (tx.w + d.length) % g.size },
    amend_eq g tx d htw (by omega) hn, ?_, ?_, rfl, rfl, ?_⟩
  · exact ⟨h.pow, h.rlt, h.wlt, ringBlit_length _ _ _ _ h.blen htw (by omega)⟩
  · show window (ringBlit g.buf g.size tx.w d) g.size g.r (readSpace g)
        = window g.buf g.size g.r (readSpace g)
    apply window_congr
    intro i hi
    have hm1 := mod_cases (g.r + i) g.size (by omega)
    have hm2 := mod_cases (tx.w + (g.size - p.length - readSpace g + i)) g.size (by omega)
    have e : (g.r + i) % g.size = (tx.w + (g.size - p.length - readSpace g + i)) % g.size := by
      omega
    rw [e, hblit _ (by omega), if_neg (by omega)]
  · refine ⟨ht.rlt, Nat.mod_lt _ hpos, ?_, ?_, ?_⟩
    · show (g.r + W32 - tx.r) % W32 % g.size + readSpace g + (p ++ d).length ≤ g.size - 1
      rw [List.length_append]; omega
    · show (tx.w + d.length) % g.size = (g.w + (p ++ d).length) % g.size
      rw [List.length_append, hpend, shift_mod]
    · intro i hi
      rw [List.length_append] at hi
      show (ringBlit g.buf g.size tx.w d).getD ((g.w + i) % g.size) 0 = (p ++ d).getD i 0
      by_cases hip : i < p.length
      · have hm1 := mod_cases (g.w + i) g.size (by omega)
        have hm2 := mod_cases (tx.w + (g.size - p.length + i)) g.size (by omega)
        have e : (g.w + i) % g.size = (tx.w + (g.size - p.length + i)) % g.size := by omega
        rw [e, hblit _ (by omega), if_neg (by omega), ← e, ht.bytes i hip]
        simp [List.getD_eq_getElem?_getD, List.getElem?_append, hip]
      · have e : (g.w + i) % g.size = (tx.w + (i - p.length)) % g.size := by
          rw [hpend, shift_mod]; congr 2; omega
        rw [e, hblit _ (by omega), if_pos (by omega)]
        simp [List.getD_eq_getElem?_getD, List.getElem?_append, hip]

theorem amend_none (g : Ring) (tx : Tx) (d : List Nat)
    (hd : writeSpaceAt g tx.r tx.w < d.length) : amend g tx d = none := by
  unfold amend
  simp only [hd, if_true]

theorem rtx_commit {g : Ring} (h : RWF g) {tx : Tx} {p : List Nat} (ht : RTx g tx p) :
    RWF (commit g tx) ∧ rcontent (commit g tx) = rcontent g ++ p := by
  have hrs := readSpace_cases h
  have hfit := ht.fits
  have hpend := ht.pend
  have hr := h.rlt; have hw := h.wlt; have htw := ht.wlt
  have hpm := mod_cases (g.w + p.length) g.size (by omega)
  have h2 := readSpaceAt_cases g h.pow h.rlt ht.wlt
  have e : readSpaceAt g g.r tx.w = readSpace g + p.length := by omega
  refine ⟨⟨h.pow, h.rlt, ht.wlt, h.blen⟩, ?_⟩
  show window g.buf g.size g.r (readSpaceAt g g.r tx.w) = rcontent g ++ p
  rw [e, window_append, head_eq h, window_of_bytes ht.bytes]
  rfl

/-! ### unfolding `write` / `read`

The kernel cannot compare `write g d` with a `match` on `amend …` directly: matchers are unfolded
first and their discriminant is then evaluated, which runs into the unary unfolding of `_ + 2^32`
("deep recursion").  Unfolding the *unapplied* constants against a syntactically equal lambda avoids
any evaluation; the discriminant is then rewritten before the matcher is reduced. -/

theorem write_fun : write = fun g src =>
    write.match_1 (fun _ => Ring × Nat) (amend g (beginWrite g) src)
      (fun _ => (g, 0)) (fun g' tx => (commit g' tx, src.length)) := rfl

theorem read_fun : read = fun g n =>
    read.match_1 (fun _ => Ring × Option (List Nat)) (peekAt g g.r g.w n)
      (fun _ => (g, none)) (fun d => ({ g with r := (g.r + n) % W32 % g.size }, some d)) := rfl

theorem write_of_none (g : Ring) (d : List Nat) (h : amend g (beginWrite g) d = none) :
    write g d = (g, 0) := by
  rw [write_fun]
  show write.match_1 _ (amend g (beginWrite g) d) _ _ = _
  rw [h]

theorem write_of_some (g g' : Ring) (tx' : Tx) (d : List Nat)
    (h : amend g (beginWrite g) d = some (g', tx')) :
    write g d = (commit g' tx', d.length) := by
  rw [write_fun]
  show write.match_1 _ (amend g (beginWrite g) d) _ _ = _
  rw [h]

theorem read_of_none (g : Ring) (n : Nat) (h : peekAt g g.r g.w n = none) :
    read g n = (g, none) := by
  rw [read_fun]
  show read.match_1 _ (peekAt g g.r g.w n) _ _ = _
  rw [h]

theorem read_of_some (g : Ring) (n : Nat) (l : List Nat) (h : peekAt g g.r g.w n = some l) :
    read g n = ({ g with r := (g.r + n) % W32 % g.size }, some l) := by
  rw [read_fun]
  show read.match_1 _ (peekAt g g.r g.w n) _ _ = _
  rw [h]

theorem peek_eq {g : Ring} (h : RWF g) (n : Nat) :
    peek g n = if readSpace g < n then none else some ((rcontent g).take n) := by
  show peekAt g g.r g.w n = _
  unfold peekAt
  show (if readSpace g < n then none else _) = _
  by_cases hn : readSpace g < n
  · simp only [hn, if_true]
  · simp only [hn, if_false]
    have hlt := readSpace_lt h
    have := peek_pieces g.buf g.size g.r n h.blen h.rlt (by omega)
    have e : (rcontent g).take n = window g.buf g.size g.r n := window_take _ _ _ (by omega)
    rw [e]
    unfold window
    rw [← this]
    split <;> rfl

theorem read_eq {g : Ring} (h : RWF g) (n : Nat) :
    read g n = if readSpace g < n then (g, none)
      else ({ g with r := (g.r + n) % g.size }, some ((rcontent g).take n)) := by
  have hp : peekAt g g.r g.w n = _ := peek_eq h n
  by_cases hn : readSpace g < n
  · simp only [hn, if_true] at hp ⊢
    exact read_of_none g n hp
  · simp only [hn, if_false] at hp ⊢
    rw [read_of_some g n _ hp, advance_eq g h.pow]

theorem skip_eq {g : Ring} (h : RWF g) (n : Nat) :
    skip g n = if readSpace g < n then (g, false)
      else ({ g with r := (g.r + n) % g.size }, true) := by
  unfold skip
  show (if readSpace g < n then _ else _) = _
  simp only [advance_eq g h.pow]

/-- the ring after consuming `n ≤ readSpace` bytes -/
theorem consume_ok {g : Ring} (h : RWF g) {n : Nat} (hn : n ≤ readSpace g) :
    RWF { g with r := (g.r + n) % g.size } ∧
    rcontent { g with r := (g.r + n) % g.size } = (rcontent g).drop n ∧
    ∀ tx p, RTx g tx p → RTx { g with r := (g.r + n) % g.size } tx p := by
  have hrs := readSpace_cases h
  have hr := h.rlt; have hw := h.wlt
  have hr' : (g.r + n) % g.size < g.size := Nat.mod_lt _ h.pow.pos
  have hm := mod_cases (g.r + n) g.size (by omega)
  have h2 := readSpaceAt_cases g h.pow hr' h.wlt
  have e : readSpaceAt g ((g.r + n) % g.size) g.w = readSpace g - n := by omega
  refine ⟨⟨h.pow, hr', h.wlt, h.blen⟩, ?_, ?_⟩
  · show window g.buf g.size ((g.r + n) % g.size) (readSpaceAt g ((g.r + n) % g.size) g.w) = _
    rw [e]
    exact (window_drop ..).symm
  · intro tx p ht
    have h3 := stale_cases g h.pow ht.rlt h.rlt
    have h4 := stale_cases g h.pow ht.rlt hr'
    have hfit := ht.fits
    refine ⟨ht.rlt, ht.wlt, ?_, ht.pend, ht.bytes⟩
    show ((g.r + n) % g.size + W32 - tx.r) % W32 % g.size
      + readSpaceAt g ((g.r + n) % g.size) g.w + p.length ≤ g.size - 1
    omega

theorem new_ok (s : Nat) (h1 : 1 ≤ s) (h2 : s ≤ 2 ^ 31) :
    RWF (new s) ∧ rcontent (new s) = [] ∧ capacity (new s) = nextPow2 s - 1 := by
  obtain ⟨k, hk, e, _, _⟩ := nextPow2_spec s h1 h2
  have hp : P2 (nextPow2 s) := ⟨k, hk, e⟩
  have hpos := hp.pos
  have hwf : RWF (new s) := ⟨hp, hpos, hpos, by simp [new]⟩
  refine ⟨hwf, ?_, capacity_eq _ hp⟩
  have := readSpace_cases hwf
  have e0 : readSpace (new s) = 0 := by
    have hr : (new s).r = 0 := rfl
    have hw : (new s).w = 0 := rfl
    omega
  unfold rcontent
  rw [e0]
  rfl

theorem reset_ok {g : Ring} (h : RWF g) : RWF (reset g) ∧ rcontent (reset g) = [] := by
  have hpos := h.pow.pos
  have hwf : RWF (reset g) := ⟨h.pow, hpos, hpos, h.blen⟩
  refine ⟨hwf, ?_⟩
  have := readSpace_cases hwf
  have e0 : readSpace (reset g) = 0 := by
    have hr : (reset g).r = 0 := rfl
    have hw : (reset g).w = 0 := rfl
    omega
  unfold rcontent
  rw [e0]
  rfl

theorem write_ok {g : Ring} (h : RWF g) (d : List Nat) (hd : d.length ≤ writeSpace g) :
    (write g d).2 = d.length ∧ RWF (write g d).1 ∧
      rcontent (write g d).1 = rcontent g ++ d := by
  obtain ⟨g', tx', e, hwf, hc, _, _, ht⟩ := rtx_amend h (rtx_begin h) (d := d) hd
  obtain ⟨hwf2, hc2⟩ := rtx_commit hwf ht
  rw [write_of_some g g' tx' d e]
  refine ⟨rfl, hwf2, ?_⟩
  show rcontent (commit g' tx') = _
  rw [hc2, hc, List.nil_append]

theorem write_fail (g : Ring) (d : List Nat) (hd : writeSpace g < d.length) :
    write g d = (g, 0) := by
  exact write_of_none g d (amend_none g (beginWrite g) d hd)

end Zix.Ring
