import ZixModel.Model.RingRA
/-! Helper lemmas for C04 (`ZixModel/Properties/C04.lean`): the global invariant `Inv` of the
release/acquire ring transition system, its preservation by both threads' steps for every value an
acquire load may return, the output invariant for skip-free readers, and the termination measure
used for wait-freedom. -/
namespace Zix.RingRA

/-! ### arithmetic and list helpers -/

/-- Two distinct positions less than `n` apart live in different cells. -/
theorem mod_ne_of_lt_of_lt_add {a b n : Nat} (h1 : a < b) (h2 : b < a + n) : a % n ≠ b % n := by
  intro h
  have h0 : (b - a) % n = 0 := Nat.sub_mod_eq_zero_of_mod_eq h.symm
  rw [Nat.mod_eq_of_lt (by omega)] at h0
  omega

theorem getD_le_of_all_le {l : List Nat} {c : Nat} (h : ∀ x ∈ l, x ≤ c) (j : Nat) : l.getD j 0 ≤ c := by
  rw [List.getD_eq_getElem?_getD]
  cases hj : l[j]? with
  | none => simp
  | some x => simpa using h x (List.mem_of_getElem? hj)

theorem getD_append_lt {l x : List Nat} {p : Nat} (h : p < l.length) : (l ++ x).getD p 0 = l.getD p 0 := by
  simp [List.getD_eq_getElem?_getD, List.getElem?_append_left h]

theorem getD_append_length (l : List Nat) (b : Nat) : (l ++ [b]).getD l.length 0 = b := by
  simp [List.getD_eq_getElem?_getD]

theorem getD_set_self {α} {l : List α} {i : Nat} (h : i < l.length) (v d : α) : (l.set i v).getD i d = v := by
  simp [List.getD_eq_getElem?_getD, h]

theorem getD_set_ne' {α} {l : List α} {i j : Nat} (h : i ≠ j) (v d : α) : (l.set i v).getD j d = l.getD j d := by
  simp [List.getD_eq_getElem?_getD, List.getElem?_set_ne h]

theorem take_drop_append {l : List Nat} (x : List Nat) {a k : Nat} (h : a + k ≤ l.length) :
    ((l ++ x).drop a).take k = (l.drop a).take k := by
  rw [List.drop_append_of_le_length (by omega), List.take_append_of_le_length (by simp; omega)]

theorem take_drop_succ {l : List Nat} {a k : Nat} (h : a + k < l.length) :
    (l.drop a).take (k + 1) = (l.drop a).take k ++ [l.getD (a + k) 0] := by
  rw [List.take_add_one, List.getElem?_drop, List.getD_eq_getElem?_getD, List.getElem?_eq_getElem h]
  simp

/-! ### recursive forms of the access sequences -/

def wActs : Nat → List Nat → List Act
  | _, [] => []
  | p, b :: bs => .bufWrite p b :: wActs (p + 1) bs

def rActs : Nat → Nat → List Act
  | _, 0 => []
  | p, k + 1 => .bufRead p :: rActs (p + 1) k

theorem byteActs_eq (pos : Nat) (data : List Nat) : byteActs pos data = wActs pos data := by
  induction data generalizing pos with
  | nil => rfl
  | cons b bs ih =>
    rw [wActs, ← ih]
    simp only [byteActs, List.length_cons, List.range_succ_eq_map, List.map_cons, List.map_map]
    simp
    intro a _
    omega

theorem readActs_eq (pos k : Nat) : readActs pos k = rActs pos k := by
  induction k generalizing pos with
  | zero => rfl
  | succ k ih =>
    rw [rActs, ← ih]
    simp only [readActs, List.range_succ_eq_map, List.map_cons, List.map_map]
    simp
    intro a _
    omega

@[simp] theorem wActs_length (p : Nat) (d : List Nat) : (wActs p d).length = d.length := by
  induction d generalizing p with
  | nil => rfl
  | cons b bs ih => simp [wActs, ih]

@[simp] theorem rActs_length (p k : Nat) : (rActs p k).length = k := by
  induction k generalizing p with
  | zero => rfl
  | succ k ih => simp [rActs, ih]


/-! ### the global invariant -/

/-- Shape of the writer thread.  `cons` is the reader's consumed count; the current write
position is `w.committed + staged.length`. -/
inductive WPhase (n : Nat) (w : Writer) (staged : List Nat) (cons : Nat) : Prop
  | idle (hp : w.pendingCall = none) (ha : w.acts = []) (htx : w.tx = none) (hst : staged = [])
      (hwf : wfCalls false w.calls = true)
  | loadWrite (d : List Nat) (hp : w.pendingCall = some (.write d)) (ha : w.acts = [.loadAcq])
      (htx : w.tx = none) (hst : staged = []) (hwf : wfCalls false w.calls = true)
  | loadBegin (hp : w.pendingCall = some .begin_) (ha : w.acts = [.loadAcq])
      (htx : w.tx = none) (hst : staged = []) (hwf : wfCalls true w.calls = true)
  | amendPending (d : List Nat) (sn : Nat) (hp : w.pendingCall = some (.amend d)) (ha : w.acts = [])
      (htx : w.tx = some (sn, w.committed + staged.length)) (hsn : sn ≤ cons)
      (hwf : wfCalls true w.calls = true)
  | writing (rest : List Nat) (hp : w.pendingCall = none) (htx : w.tx = none)
      (ha : w.acts = wActs (w.committed + staged.length) rest ++
        [.storeRel (w.committed + staged.length + rest.length)])
      (hb : rest.length ≤ w.seenConsumed + (n - 1) - (w.committed + staged.length))
      (hc : w.committed + staged.length + rest.length ≤ cons + (n - 1))
      (hwf : wfCalls false w.calls = true)
  | inTx (rest : List Nat) (sn : Nat) (hp : w.pendingCall = none)
      (htx : w.tx = some (sn, w.committed + staged.length + rest.length))
      (ha : w.acts = wActs (w.committed + staged.length) rest)
      (hb : rest.length ≤ sn + (n - 1) - (w.committed + staged.length))
      (hc : w.committed + staged.length + rest.length ≤ cons + (n - 1))
      (hsn : sn ≤ cons) (hwf : wfCalls true w.calls = true)

theorem WPhase.mono {n w staged c c'} (h : WPhase n w staged c) (hc' : c ≤ c') : WPhase n w staged c' := by
  cases h with
  | idle hp ha htx hst hwf => exact .idle hp ha htx hst hwf
  | loadWrite d hp ha htx hst hwf => exact .loadWrite d hp ha htx hst hwf
  | loadBegin hp ha htx hst hwf => exact .loadBegin hp ha htx hst hwf
  | amendPending d sn hp ha htx hsn hwf => exact .amendPending d sn hp ha htx (by omega) hwf
  | writing rest hp htx ha hb hc hwf => exact .writing rest hp htx ha hb (by omega) hwf
  | inTx rest sn hp htx ha hb hc hsn hwf => exact .inTx rest sn hp htx ha hb (by omega) (by omega) hwf

/-- Shape of the reader thread.  `cb` are the committed bytes (`cb.length` is the writer's
committed count). -/
inductive RPhase (r : Reader) (cb : List Nat) : Prop
  | idle (hp : r.pendingCall = none) (ha : r.acts = [])
  | load (c : RCall) (hp : r.pendingCall = some c) (ha : r.acts = [.loadAcq]) (hg : r.got = [])
  | reading (m : Nat) (tail : List Act) (hp : r.pendingCall = none)
      (ha : r.acts = rActs (r.consumed + r.got.length) m ++ tail)
      (ht : tail = [.deliver, .storeRel (r.consumed + r.got.length + m)] ∨ tail = [.discard])
      (hb : m ≤ r.seenCommitted - (r.consumed + r.got.length))
      (hc : r.consumed + r.got.length + m ≤ cb.length)
      (hg : r.got = (cb.drop r.consumed).take r.got.length)
  | storing (c : Nat) (hp : r.pendingCall = none) (ha : r.acts = [.storeRel c])
      (h1 : r.consumed ≤ c) (h2 : c ≤ cb.length)

theorem RPhase.append {r cb} (h : RPhase r cb) (x : List Nat) : RPhase r (cb ++ x) := by
  cases h with
  | idle hp ha => exact .idle hp ha
  | load c hp ha hg => exact .load c hp ha hg
  | reading m tail hp ha ht hb hc hg =>
    refine .reading m tail hp ha ht hb (by simp; omega) ?_
    rw [take_drop_append x (by omega)]; exact hg
  | storing c hp ha h1 h2 => exact .storing c hp ha h1 (by simp; omega)

structure Inv (s : St) : Prop where
  npos : 0 < s.n
  cellsLen : s.cells.length = s.n
  cbLen : s.committedBytes.length = s.w.committed
  wSt : ∀ x ∈ s.wStores, x ≤ s.w.committed
  rSt : ∀ x ∈ s.rStores, x ≤ s.r.consumed
  consLe : s.r.consumed ≤ s.w.committed
  seenC : s.r.seenCommitted ≤ s.w.committed
  seenW : s.w.seenConsumed ≤ s.r.consumed
  occ : s.w.committed + s.stagedBytes.length ≤ s.r.consumed + (s.n - 1)
  wph : WPhase s.n s.w s.stagedBytes s.r.consumed
  rph : RPhase s.r s.committedBytes
  cellsOk : ∀ p, s.r.consumed ≤ p → p < s.w.committed + s.stagedBytes.length →
    s.cells.getD (p % s.n) (0, 0) = (p, (s.committedBytes ++ s.stagedBytes).getD p 0)
  dels : ∀ d ∈ s.deliveries, d.1 + d.2.length ≤ s.committedBytes.length ∧
    d.2 = (s.committedBytes.drop d.1).take d.2.length
  noRace : s.race = false

theorem Inv.init {n : Nat} (hn : 0 < n) {wcalls : List WCall} (rcalls : List RCall)
    (hw : wfCalls false wcalls = true) : Inv (init n wcalls rcalls) where
  npos := hn
  cellsLen := by simp [RingRA.init]
  cbLen := rfl
  wSt := by simp [RingRA.init]
  rSt := by simp [RingRA.init]
  consLe := Nat.le_refl _
  seenC := Nat.le_refl _
  seenW := Nat.le_refl _
  occ := by simp [RingRA.init]
  wph := .idle rfl rfl rfl rfl hw
  rph := .idle rfl rfl
  cellsOk := by intro p _ h; simp [RingRA.init] at h
  dels := by simp [RingRA.init]
  noRace := rfl

/-! ### unfolding one step -/

theorem stepWriter_nil_none {s : St} (f : Nat) (ha : s.w.acts = []) (hp : s.w.pendingCall = none) :
    stepWriter s f = { s with w := wStart s.w } := by
  simp [stepWriter, ha, hp]

theorem stepWriter_nil_some {s : St} (f : Nat) (ha : s.w.acts = []) {c} (hp : s.w.pendingCall = some c) :
    stepWriter s f = { s with w := wExpand s.n s.w } := by
  simp [stepWriter, ha, hp]

/-- The writer just after its acquire load returned (before expanding the call). -/
abbrev wLoad (s : St) (f : Nat) (rest : List Act) : Writer :=
  { s.w with
    view := pick s.w.view f s.rStores.length,
    seenConsumed := s.rStores.getD (pick s.w.view f s.rStores.length) 0, acts := rest }

/-- The reader just after its acquire load returned (before expanding the call). -/
abbrev rLoad (s : St) (f : Nat) (rest : List Act) : Reader :=
  { s.r with
    view := pick s.r.view f s.wStores.length,
    seenCommitted := s.wStores.getD (pick s.r.view f s.wStores.length) 0, acts := rest }

theorem stepWriter_load {s : St} (f : Nat) {rest} (ha : s.w.acts = .loadAcq :: rest) :
    stepWriter s f = { s with w := wExpand s.n (wLoad s f rest) } := by
  simp only [stepWriter, ha]

theorem stepWriter_bufWrite_none {s : St} (f : Nat) {pos b : Nat} {rest : List Act}
    (ha : s.w.acts = .bufWrite pos b :: rest) (htx : s.w.tx = none) :
    stepWriter s f = { s with
      w := { s.w with acts := rest },
      cells := s.cells.set (pos % s.n) (pos, b),
      stagedBytes := s.stagedBytes ++ [b],
      race := s.race || !(decide (pos < s.w.seenConsumed + s.n ∧ s.w.committed ≤ pos)) } := by
  simp [stepWriter, ha, htx]

theorem stepWriter_bufWrite_some {s : St} (f : Nat) {pos b : Nat} {rest : List Act} {sn p : Nat}
    (ha : s.w.acts = .bufWrite pos b :: rest) (htx : s.w.tx = some (sn, p)) :
    stepWriter s f = { s with
      w := { s.w with acts := rest },
      cells := s.cells.set (pos % s.n) (pos, b),
      stagedBytes := s.stagedBytes ++ [b],
      race := s.race || !(decide (pos < sn + s.n ∧ s.w.committed ≤ pos)) } := by
  simp [stepWriter, ha, htx]

theorem stepWriter_storeRel {s : St} (f : Nat) {c : Nat} {rest : List Act} (ha : s.w.acts = .storeRel c :: rest) :
    stepWriter s f = { s with
      w := { s.w with acts := rest, committed := c },
      wStores := s.wStores ++ [c],
      committedBytes := s.committedBytes ++ s.stagedBytes, stagedBytes := [] } := by
  simp [stepWriter, ha]

theorem stepReader_nil {s : St} (f : Nat) (ha : s.r.acts = []) :
    stepReader s f = { s with r := rStart s.r } := by
  simp [stepReader, ha]

theorem stepReader_load {s : St} (f : Nat) {rest} (ha : s.r.acts = .loadAcq :: rest) :
    stepReader s f = { s with r := rExpand (rLoad s f rest) } := by
  simp only [stepReader, ha]

theorem stepReader_bufRead {s : St} (f : Nat) {pos : Nat} {rest : List Act} (ha : s.r.acts = .bufRead pos :: rest) :
    stepReader s f = { s with
      r := { s.r with acts := rest, got := s.r.got ++ [(s.cells.getD (pos % s.n) (0, 0)).2] },
      race := s.race || !(decide (pos < s.r.seenCommitted ∧ s.r.consumed ≤ pos)) } := by
  simp [stepReader, ha]

theorem stepReader_deliver {s : St} (f : Nat) {rest} (ha : s.r.acts = .deliver :: rest) :
    stepReader s f = { s with
      r := { s.r with acts := rest }, output := s.output ++ s.r.got,
      deliveries := s.deliveries ++ [(s.r.consumed, s.r.got)] } := by
  simp [stepReader, ha]

theorem stepReader_discard {s : St} (f : Nat) {rest} (ha : s.r.acts = .discard :: rest) :
    stepReader s f = { s with
      r := { s.r with acts := rest, got := [] },
      deliveries := s.deliveries ++ [(s.r.consumed, s.r.got)] } := by
  simp [stepReader, ha]

theorem stepReader_storeRel {s : St} (f : Nat) {c : Nat} {rest : List Act} (ha : s.r.acts = .storeRel c :: rest) :
    stepReader s f = { s with r := { s.r with acts := rest, consumed := c }, rStores := s.rStores ++ [c] } := by
  simp [stepReader, ha]


/-! ### the writer's steps preserve the invariant -/

theorem Inv.cells_bufWrite {s : St} (h : Inv s) (b : Nat)
    (hq : s.w.committed + s.stagedBytes.length < s.r.consumed + s.n) :
    ∀ p, s.r.consumed ≤ p → p < s.w.committed + (s.stagedBytes ++ [b]).length →
      (s.cells.set ((s.w.committed + s.stagedBytes.length) % s.n)
        (s.w.committed + s.stagedBytes.length, b)).getD (p % s.n) (0, 0) =
      (p, (s.committedBytes ++ (s.stagedBytes ++ [b])).getD p 0) := by
  intro p h1 h2
  have hlen : (s.committedBytes ++ s.stagedBytes).length = s.w.committed + s.stagedBytes.length := by
    simp [h.cbLen]
  simp only [List.length_append, List.length_cons, List.length_nil] at h2
  rw [← List.append_assoc]
  by_cases hpq : p = s.w.committed + s.stagedBytes.length
  · subst hpq
    rw [getD_set_self (by rw [h.cellsLen]; exact Nat.mod_lt _ h.npos)]
    rw [← hlen, getD_append_length]
  · have hlt : p < s.w.committed + s.stagedBytes.length := by omega
    rw [getD_set_ne' (Ne.symm (mod_ne_of_lt_of_lt_add hlt (by omega)))]
    rw [h.cellsOk p h1 hlt, getD_append_lt (l := s.committedBytes ++ s.stagedBytes) (x := [b]) (by omega)]

theorem Inv.stepWriter {s : St} (h : Inv s) (f : Nat) : Inv (stepWriter s f) := by
  cases h.wph with
  | idle hp ha htx hst hwf =>
    rw [stepWriter_nil_none f ha hp]
    cases hc : s.w.calls with
    | nil =>
      have e : wStart s.w = s.w := by simp [wStart, hc]
      rw [e]; exact h
    | cons c rest =>
      rw [hc] at hwf
      cases c with
      | write d =>
        have e : wStart s.w = { s.w with calls := rest, pendingCall := some (.write d), acts := [.loadAcq] } := by
          simp [wStart, hc]
        rw [e]
        exact { h with wph := .loadWrite d rfl rfl htx hst (by simpa [wfCalls] using hwf) }
      | begin_ =>
        have e : wStart s.w = { s.w with calls := rest, pendingCall := some .begin_, acts := [.loadAcq] } := by
          simp [wStart, hc]
        rw [e]
        exact { h with wph := .loadBegin rfl rfl htx hst (by simpa [wfCalls] using hwf) }
      | amend d => simp [wfCalls] at hwf
      | commit => simp [wfCalls] at hwf
  | loadWrite d hp ha htx hst hwf =>
    rw [stepWriter_load f ha]
    have hseen := getD_le_of_all_le h.rSt (pick s.w.view f s.rStores.length)
    have hocc := h.occ
    rw [hst] at hocc
    simp only [List.length_nil, Nat.add_zero] at hocc
    by_cases hsp : d.length ≤ wSpace s.n (s.rStores.getD (pick s.w.view f s.rStores.length) 0) s.w.committed
    · have e : wExpand s.n (wLoad s f []) =
          { wLoad s f [] with
            pendingCall := none
            acts := byteActs s.w.committed d ++ [.storeRel (s.w.committed + d.length)] } := by
        simp [wExpand, hp, hsp, -List.getD_eq_getElem?_getD]
      rw [e]
      unfold wSpace at hsp
      refine { h with seenW := hseen, wph := .writing d rfl htx ?_ ?_ ?_ hwf }
      · simp [hst, byteActs_eq]
      · simp only [hst, List.length_nil, Nat.add_zero]; omega
      · simp only [hst, List.length_nil, Nat.add_zero]; omega
    · have e : wExpand s.n (wLoad s f []) = { wLoad s f [] with pendingCall := none, acts := [] } := by
        simp [wExpand, hp, hsp, -List.getD_eq_getElem?_getD]
      rw [e]
      exact { h with seenW := hseen, wph := .idle rfl rfl htx hst hwf }
  | loadBegin hp ha htx hst hwf =>
    rw [stepWriter_load f ha]
    have hseen := getD_le_of_all_le h.rSt (pick s.w.view f s.rStores.length)
    have hocc := h.occ
    have e : wExpand s.n (wLoad s f []) =
        { wLoad s f [] with
          pendingCall := none
          tx := some (s.rStores.getD (pick s.w.view f s.rStores.length) 0, s.w.committed)
          acts := [] } := by
      simp [wExpand, hp]
    rw [e]
    refine { h with seenW := hseen, wph := .inTx [] _ rfl ?_ ?_ ?_ ?_ hseen hwf }
    · simp [hst]
    · simp [wActs]
    · simp
    · simpa using hocc
  | amendPending d sn hp ha htx hsn hwf =>
    rw [stepWriter_nil_some f ha hp]
    have hocc := h.occ
    by_cases hsp : d.length ≤ wSpace s.n sn (s.w.committed + s.stagedBytes.length)
    · have e : wExpand s.n s.w =
          { s.w with
            pendingCall := none
            tx := some (sn, s.w.committed + s.stagedBytes.length + d.length)
            acts := byteActs (s.w.committed + s.stagedBytes.length) d } := by
        simp [wExpand, hp, htx, hsp]
      rw [e]
      unfold wSpace at hsp
      refine { h with wph := .inTx d sn rfl rfl (byteActs_eq _ _) ?_ ?_ hsn hwf }
      · show d.length ≤ sn + (s.n - 1) - (s.w.committed + s.stagedBytes.length); omega
      · show s.w.committed + s.stagedBytes.length + d.length ≤ s.r.consumed + (s.n - 1); omega
    · have e : wExpand s.n s.w = { s.w with pendingCall := none, acts := [] } := by
        simp [wExpand, hp, htx, hsp]
      rw [e]
      refine { h with wph := .inTx [] sn rfl (by simpa using htx) (by simp [wActs]) (by simp) (by simpa using hocc) hsn hwf }
  | writing rest hp htx ha hb hc hwf =>
    cases rest with
    | nil =>
      simp only [wActs, List.nil_append, List.length_nil, Nat.add_zero] at ha
      rw [stepWriter_storeRel f ha]
      have hcons := h.consLe
      have hocc := h.occ
      exact { h with
        cbLen := by simp [h.cbLen]
        wSt := by
          intro x hx
          rcases List.mem_append.1 hx with hx | hx
          · exact Nat.le_trans (h.wSt x hx) (Nat.le_add_right _ _)
          · simp at hx; exact Nat.le_of_eq hx
        consLe := by show s.r.consumed ≤ s.w.committed + s.stagedBytes.length; omega
        seenC := by
          have := h.seenC
          show s.r.seenCommitted ≤ s.w.committed + s.stagedBytes.length; omega
        occ := by simpa using hocc
        wph := .idle hp rfl htx rfl hwf
        rph := h.rph.append _
        cellsOk := by
          intro p h1 h2
          simp only [List.length_nil, Nat.add_zero, List.append_nil] at h2 ⊢
          exact h.cellsOk p h1 h2
        dels := by
          intro d hd
          have := h.dels d hd
          refine ⟨by simp; omega, ?_⟩
          rw [take_drop_append _ this.1]; exact this.2 }
    | cons b bs =>
      simp only [wActs, List.cons_append, List.length_cons] at ha hb hc
      rw [stepWriter_bufWrite_none f ha htx]
      have hocc := h.occ
      refine { h with
        cellsLen := by simp [h.cellsLen]
        occ := by simp only [List.length_append, List.length_cons, List.length_nil]; omega
        wph := .writing bs hp htx ?_ ?_ ?_ hwf
        rph := h.rph
        cellsOk := h.cells_bufWrite b (by omega)
        noRace := by simp [h.noRace]; omega }
      · simp only [List.length_append, List.length_cons, List.length_nil]
        simp [Nat.add_assoc, Nat.add_comm 1]
      · simp only [List.length_append, List.length_cons, List.length_nil]; omega
      · simp only [List.length_append, List.length_cons, List.length_nil]; omega
  | inTx rest sn hp htx ha hb hc hsn hwf =>
    cases rest with
    | nil =>
      simp only [wActs, List.length_nil, Nat.add_zero] at ha htx
      rw [stepWriter_nil_none f ha hp]
      have hocc := h.occ
      cases hcl : s.w.calls with
      | nil =>
        have e : wStart s.w = s.w := by simp [wStart, hcl]
        rw [e]; exact h
      | cons c cs =>
        rw [hcl] at hwf
        cases c with
        | write d => simp [wfCalls] at hwf
        | begin_ => simp [wfCalls] at hwf
        | amend d =>
          have e : wStart s.w = { s.w with calls := cs, pendingCall := some (.amend d), acts := [] } := by
            simp [wStart, hcl, htx]
          rw [e]
          exact { h with wph := .amendPending d sn rfl rfl htx hsn (by simpa [wfCalls] using hwf) }
        | commit =>
          have e : wStart s.w =
              { s.w with
                calls := cs, pendingCall := none, tx := none
                acts := [.storeRel (s.w.committed + s.stagedBytes.length)] } := by
            simp [wStart, hcl, htx]
          rw [e]
          have hwf' : wfCalls false cs = true := by simpa [wfCalls] using hwf
          exact { h with
            wph := .writing [] rfl rfl (by simp [wActs]) (by simp) (by simpa using hocc) hwf' }
    | cons b bs =>
      simp only [wActs, List.length_cons] at ha hb hc htx
      rw [stepWriter_bufWrite_some f ha htx]
      have hocc := h.occ
      refine { h with
        cellsLen := by simp [h.cellsLen]
        occ := by simp only [List.length_append, List.length_cons, List.length_nil]; omega
        wph := .inTx bs sn hp ?_ ?_ ?_ ?_ hsn hwf
        rph := h.rph
        cellsOk := h.cells_bufWrite b (by omega)
        noRace := by simp [h.noRace]; omega }
      · simp only [List.length_append, List.length_cons, List.length_nil]
        rw [htx]; simp [Nat.add_assoc, Nat.add_comm 1]
      · simp [Nat.add_assoc]
      · simp only [List.length_append, List.length_cons, List.length_nil]; omega
      · simp only [List.length_append, List.length_cons, List.length_nil]; omega


/-! ### the reader's steps preserve the invariant -/

/-- The byte count a reader call asks for. -/
def RCall.len : RCall → Nat
  | .read k => k
  | .peek k => k
  | .skip k => k

theorem Inv.stepReader {s : St} (h : Inv s) (f : Nat) : Inv (stepReader s f) := by
  have hcons := h.consLe
  have hcb := h.cbLen
  cases h.rph with
  | idle hp ha =>
    rw [stepReader_nil f ha]
    cases hc : s.r.calls with
    | nil =>
      have e : rStart s.r = s.r := by simp [rStart, hc]
      rw [e]; exact h
    | cons c rest =>
      have e : rStart s.r =
          { s.r with calls := rest, pendingCall := some c, acts := [.loadAcq], got := [] } := by
        simp [rStart, hc]
      rw [e]
      exact { h with rph := .load c rfl rfl rfl }
  | load c hp ha hg =>
    rw [stepReader_load f ha]
    have hseen := getD_le_of_all_le h.wSt (pick s.r.view f s.wStores.length)
    by_cases hk : c.len ≤
        s.wStores.getD (pick s.r.view f s.wStores.length) 0 - s.r.consumed
    · cases c with
      | read k =>
        by_cases hk0 : 0 < k
        case neg =>
          have e0 : rExpand (rLoad s f []) = { rLoad s f [] with pendingCall := none, acts := [] } := by
            simp [rExpand, hp, -List.getD_eq_getElem?_getD]; intro _; omega
          rw [e0]
          exact { h with seenC := hseen, rph := .idle rfl rfl }
        have e : rExpand (rLoad s f []) =
            { rLoad s f [] with
              pendingCall := none
              acts := readActs s.r.consumed k ++ [.deliver, .storeRel (s.r.consumed + k)] } := by
          simp [rExpand, hp, -List.getD_eq_getElem?_getD]; exact ⟨hk, by omega⟩
        rw [e]
        refine { h with
          seenC := hseen
          rph := .reading k [.deliver, .storeRel (s.r.consumed + k)] rfl ?_ (Or.inl ?_) ?_ ?_ ?_ }
        · simp [hg, readActs_eq]
        · simp [hg]
        · simp only [hg, List.length_nil, Nat.add_zero]; exact hk
        · simp only [hg, List.length_nil, Nat.add_zero]
          simp only [RCall.len] at hk; omega
        · simp [hg]
      | peek k =>
        have e : rExpand (rLoad s f []) =
            { rLoad s f [] with
              pendingCall := none
              acts := readActs s.r.consumed k ++ [.discard] } := by
          simp [rExpand, hp, -List.getD_eq_getElem?_getD]; exact hk
        rw [e]
        refine { h with
          seenC := hseen
          rph := .reading k [.discard] rfl ?_ (Or.inr rfl) ?_ ?_ ?_ }
        · simp [hg, readActs_eq]
        · simp only [hg, List.length_nil, Nat.add_zero]; exact hk
        · simp only [hg, List.length_nil, Nat.add_zero]
          simp only [RCall.len] at hk; omega
        · simp [hg]
      | skip k =>
        have e : rExpand (rLoad s f []) =
            { rLoad s f [] with
              pendingCall := none
              acts := [.storeRel (s.r.consumed + k)] } := by
          simp [rExpand, hp, -List.getD_eq_getElem?_getD]; exact hk
        rw [e]
        refine { h with
          seenC := hseen
          rph := .storing (s.r.consumed + k) rfl rfl (Nat.le_add_right _ _) ?_ }
        simp only [RCall.len] at hk
        show s.r.consumed + k ≤ s.committedBytes.length
        omega
    · have e : rExpand (rLoad s f []) = { rLoad s f [] with pendingCall := none, acts := [] } := by
        cases c <;> simp [rExpand, hp, -List.getD_eq_getElem?_getD]
        · intro hle; exact absurd hle hk
        · exact Nat.lt_of_not_le hk
        · exact Nat.lt_of_not_le hk
      rw [e]
      exact { h with seenC := hseen, rph := .idle rfl rfl }
  | reading m tail hp ha ht hb hc hg =>
    cases m with
    | zero =>
      simp only [rActs, List.nil_append, Nat.add_zero] at ha ht hc
      rcases ht with ht | ht
      · rw [ht] at ha
        rw [stepReader_deliver f ha]
        exact { h with
          rph := .storing _ hp rfl (Nat.le_add_right _ _) hc
          dels := by
            intro d hd
            rcases List.mem_append.1 hd with hd | hd
            · exact h.dels d hd
            · simp at hd; subst hd; exact ⟨hc, hg⟩ }
      · rw [ht] at ha
        rw [stepReader_discard f ha]
        exact { h with
          rph := .idle hp rfl
          dels := by
            intro d hd
            rcases List.mem_append.1 hd with hd | hd
            · exact h.dels d hd
            · simp at hd; subst hd; exact ⟨hc, hg⟩ }
    | succ m =>
      simp only [rActs, List.cons_append] at ha
      rw [stepReader_bufRead f ha]
      have hseenC := h.seenC
      refine { h with
        rph := .reading m tail hp ?_ ?_ ?_ ?_ ?_
        noRace := by simp [h.noRace]; omega }
      · simp [Nat.add_assoc]
      · simpa [Nat.add_assoc, Nat.add_comm 1] using ht
      · simp only [List.length_append, List.length_cons, List.length_nil]; omega
      · simp only [List.length_append, List.length_cons, List.length_nil]; omega
      · show s.r.got ++ [(s.cells.getD ((s.r.consumed + s.r.got.length) % s.n) (0, 0)).2] =
          (s.committedBytes.drop s.r.consumed).take (s.r.got ++ [(s.cells.getD ((s.r.consumed + s.r.got.length) % s.n) (0, 0)).2]).length
        rw [h.cellsOk _ (Nat.le_add_right _ _) (by omega)]
        simp only [List.length_append, List.length_cons, List.length_nil, Nat.zero_add]
        rw [getD_append_lt (by omega), take_drop_succ (by omega), ← hg]
  | storing c hp ha h1 h2 =>
    rw [stepReader_storeRel f ha]
    have hocc := h.occ
    have hseenW := h.seenW
    exact { h with
      rSt := by
        intro x hx
        rcases List.mem_append.1 hx with hx | hx
        · exact Nat.le_trans (h.rSt x hx) h1
        · simp at hx; exact Nat.le_of_eq hx
      consLe := by show c ≤ s.w.committed; omega
      seenW := by show s.w.seenConsumed ≤ c; omega
      occ := by show s.w.committed + s.stagedBytes.length ≤ c + (s.n - 1); omega
      wph := h.wph.mono h1
      rph := .idle hp rfl
      cellsOk := fun p hp1 hp2 => h.cellsOk p (Nat.le_trans h1 hp1) hp2 }


/-! ### every reachable state satisfies the invariant -/

theorem Inv.step {s : St} (h : Inv s) (c : Choice) : Inv (step s c) := by
  unfold RingRA.step
  cases c.tid
  · exact h.stepWriter _
  · exact h.stepReader _

theorem Inv.run {s : St} (h : Inv s) (sched : List Choice) : Inv (run s sched) := by
  induction sched generalizing s with
  | nil => exact h
  | cons c cs ih => exact ih (h.step c)

theorem Inv.reachable {n : Nat} (hn : 0 < n) {wcalls : List WCall} (rcalls : List RCall)
    (hw : wfCalls false wcalls = true) (sched : List Choice) :
    Inv (RingRA.run (RingRA.init n wcalls rcalls) sched) :=
  (Inv.init hn rcalls hw).run sched

/-! ### frame facts (no invariant needed) -/

theorem stepWriter_n (s : St) (f : Nat) : (stepWriter s f).n = s.n := by
  unfold stepWriter; dsimp only; split <;> (try split) <;> rfl

theorem stepReader_n (s : St) (f : Nat) : (stepReader s f).n = s.n := by
  unfold stepReader; dsimp only; split <;> rfl

theorem run_n (s : St) (sched : List Choice) : (run s sched).n = s.n := by
  induction sched generalizing s with
  | nil => rfl
  | cons c cs ih =>
    show (RingRA.run (step s c) cs).n = s.n
    rw [ih]; unfold step; cases c.tid
    · exact stepWriter_n _ _
    · exact stepReader_n _ _

theorem stepWriter_r (s : St) (f : Nat) : (stepWriter s f).r = s.r := by
  unfold stepWriter; dsimp only; split <;> (try split) <;> rfl

theorem stepWriter_output (s : St) (f : Nat) : (stepWriter s f).output = s.output := by
  unfold stepWriter; dsimp only; split <;> (try split) <;> rfl

theorem stepWriter_committedBytes (s : St) (f : Nat) :
    ∃ x, (stepWriter s f).committedBytes = s.committedBytes ++ x := by
  unfold stepWriter; dsimp only; split <;> (try split) <;> first | exact ⟨[], (List.append_nil _).symm⟩ | exact ⟨_, rfl⟩

theorem stepReader_w (s : St) (f : Nat) : (stepReader s f).w = s.w := by
  unfold stepReader; dsimp only; split <;> rfl

/-! ### output of a reader that never skips -/

def RCall.isSkip : RCall → Bool
  | .skip _ => true
  | _ => false

/-- The position up to which bytes have been handed to the caller by `read`s: the count about to
be published if the release store is next, the consumed count otherwise. -/
def outEndA : List Act → Nat → Nat
  | .storeRel c :: _, _ => c
  | _, consumed => consumed

def outEnd (r : Reader) : Nat := outEndA r.acts r.consumed

theorem outEndA_reading (p m : Nat) (tail : List Act) (c : Nat)
    (ht : (∃ e, tail = [.deliver, .storeRel e]) ∨ tail = [.discard]) : outEndA (rActs p m ++ tail) c = c := by
  cases m with
  | succ m => rfl
  | zero =>
    rcases ht with ⟨e, ht⟩ | ht <;> subst ht <;> rfl

structure OutInv (s : St) : Prop where
  calls : ∀ c ∈ s.r.calls, c.isSkip = false
  pend : ∀ c, s.r.pendingCall = some c → c.isSkip = false
  out : s.output = s.committedBytes.take (outEnd s.r)

theorem Inv.outEnd_le {s : St} (h : Inv s) : outEnd s.r ≤ s.committedBytes.length := by
  have h1 := h.consLe
  have h2 := h.cbLen
  unfold outEnd
  cases h.rph with
  | idle hp ha => rw [ha]; show s.r.consumed ≤ _; omega
  | load c hp ha hg => rw [ha]; show s.r.consumed ≤ _; omega
  | reading m tail hp ha ht hb hc hg =>
    rw [ha, outEndA_reading _ _ _ _ (ht.imp (fun h => ⟨_, h⟩) id)]; omega
  | storing c hp ha h1 h2 => rw [ha]; exact h2

theorem OutInv.stepWriter {s : St} (h : Inv s) (o : OutInv s) (f : Nat) : OutInv (stepWriter s f) := by
  obtain ⟨x, hx⟩ := stepWriter_committedBytes s f
  refine ⟨?_, ?_, ?_⟩
  · rw [stepWriter_r]; exact o.calls
  · rw [stepWriter_r]; exact o.pend
  · rw [stepWriter_r, stepWriter_output, hx, List.take_append_of_le_length h.outEnd_le]; exact o.out

theorem rExpand_calls (r : Reader) : (rExpand r).calls = r.calls := by
  unfold rExpand; split <;> (try split) <;> rfl

theorem rExpand_pendingCall (r : Reader) : (rExpand r).pendingCall = none := by
  unfold rExpand; split <;> (try split) <;> first | rfl | assumption

theorem rExpand_consumed (r : Reader) : (rExpand r).consumed = r.consumed := by
  unfold rExpand; split <;> (try split) <;> rfl

theorem rExpand_outEnd (r : Reader) (ha : r.acts = [])
    (hns : ∀ c, r.pendingCall = some c → c.isSkip = false) : outEnd (rExpand r) = r.consumed := by
  unfold rExpand outEnd
  split
  · split
    · simp only [readActs_eq]; exact outEndA_reading _ _ _ _ (Or.inl ⟨_, rfl⟩)
    · rfl
  · split
    · simp only [readActs_eq]; exact outEndA_reading _ _ _ _ (Or.inr rfl)
    · rfl
  · rename_i k hk
    have := hns _ hk
    simp [RCall.isSkip] at this
  · rw [ha]; rfl

theorem OutInv.stepReader {s : St} (h : Inv s) (o : OutInv s) (f : Nat) : OutInv (stepReader s f) := by
  have hout := o.out
  unfold outEnd at hout
  cases h.rph with
  | idle hp ha =>
    rw [stepReader_nil f ha]
    rw [ha] at hout
    cases hc : s.r.calls with
    | nil =>
      have e : rStart s.r = s.r := by simp [rStart, hc]
      rw [e]; exact o
    | cons c rest =>
      have e : rStart s.r =
          { s.r with calls := rest, pendingCall := some c, acts := [.loadAcq], got := [] } := by
        simp [rStart, hc]
      rw [e]
      refine ⟨fun c' hc' => o.calls c' (by rw [hc]; exact List.mem_cons_of_mem _ hc'), ?_, hout⟩
      intro c' h'
      have : c = c' := by simpa using h'
      subst this
      exact o.calls c (by rw [hc]; exact List.mem_cons_self)
  | load c hp ha hg =>
    rw [stepReader_load f ha]
    rw [ha] at hout
    refine ⟨?_, ?_, ?_⟩
    · show ∀ c ∈ (rExpand (rLoad s f [])).calls, _
      rw [rExpand_calls]; exact o.calls
    · show ∀ c, (rExpand (rLoad s f [])).pendingCall = some c → _
      rw [rExpand_pendingCall]; intro c hc; cases hc
    · show s.output = s.committedBytes.take (outEnd (rExpand (rLoad s f [])))
      rw [rExpand_outEnd (rLoad s f []) rfl o.pend]; exact hout
  | reading m tail hp ha ht hb hc hg =>
    rw [ha, outEndA_reading _ _ _ _ (ht.imp (fun h => ⟨_, h⟩) id)] at hout
    cases m with
    | zero =>
      simp only [rActs, List.nil_append, Nat.add_zero] at ha ht hc
      rcases ht with ht | ht
      · rw [ht] at ha
        rw [stepReader_deliver f ha]
        refine ⟨o.calls, o.pend, ?_⟩
        show s.output ++ s.r.got = s.committedBytes.take (s.r.consumed + s.r.got.length)
        rw [List.take_add, hout]
        conv => lhs; rw [hg]
      · rw [ht] at ha
        rw [stepReader_discard f ha]
        exact ⟨o.calls, o.pend, hout⟩
    | succ m =>
      simp only [rActs, List.cons_append] at ha
      rw [stepReader_bufRead f ha]
      refine ⟨o.calls, o.pend, ?_⟩
      show s.output = s.committedBytes.take (outEndA (rActs (s.r.consumed + s.r.got.length + 1) m ++ tail) s.r.consumed)
      rw [outEndA_reading _ _ _ _ (ht.imp (fun h => ⟨_, h⟩) id)]; exact hout
  | storing c hp ha h1 h2 =>
    rw [stepReader_storeRel f ha]
    rw [ha] at hout
    exact ⟨o.calls, o.pend, hout⟩

theorem OutInv.init (n : Nat) (wcalls : List WCall) {rcalls : List RCall}
    (hr : ∀ c ∈ rcalls, c.isSkip = false) : OutInv (init n wcalls rcalls) :=
  ⟨hr, (by intro c hc; cases hc), rfl⟩

theorem OutInv.run {s : St} (h : Inv s) (o : OutInv s) (sched : List Choice) : OutInv (run s sched) := by
  induction sched generalizing s with
  | nil => exact o
  | cons c cs ih =>
    refine ih (h.step c) ?_
    unfold step
    cases c.tid
    · exact o.stepWriter h _
    · exact o.stepReader h _

/-- Skip-free reader: the output is exactly the committed bytes up to `outEnd`. -/
theorem output_eq_take {n : Nat} (hn : 0 < n) {wcalls : List WCall} {rcalls : List RCall}
    (hw : wfCalls false wcalls = true) (hr : ∀ c ∈ rcalls, c.isSkip = false) (sched : List Choice) :
    (run (init n wcalls rcalls) sched).output =
      (run (init n wcalls rcalls) sched).committedBytes.take (outEnd (run (init n wcalls rcalls) sched).r) :=
  ((OutInv.init n wcalls hr).run (Inv.init hn rcalls hw) sched).out


/-! ### wait-freedom: a thread scheduled alone finishes within its own work

The bound functions live in `Properties/C04.lean`; here they are an arbitrary `W` that charges
`wCost`/`rCost` per call. -/

def wCost : WCall → Nat
  | .write d => d.length + 3
  | .begin_ => 2
  | .amend d => d.length + 2
  | .commit => 2

def rCost : RCall → Nat
  | .read k => k + 4
  | .peek k => k + 3
  | .skip _ => 3

/-- Steps still owed by the call in flight once its first step is done. -/
def wPend : Option WCall → Nat
  | some (.write d) => d.length + 1
  | some (.amend d) => d.length + 1
  | _ => 0

def rPend : Option RCall → Nat
  | some (.read k) => k + 2
  | some (.peek k) => k + 1
  | some (.skip _) => 1
  | none => 0

/-- A call in flight is either waiting for its acquire load, or is an `amend` about to expand. -/
def WShape (w : Writer) : Prop :=
  ∀ c, w.pendingCall = some c → w.acts = [.loadAcq] ∨ (w.acts = [] ∧ ∃ d, c = .amend d)

def RShape (r : Reader) : Prop := ∀ c, r.pendingCall = some c → r.acts = [.loadAcq]

def wFinished (w : Writer) : Prop := w.calls = [] ∧ w.acts = [] ∧ w.pendingCall = none
def rFinished (r : Reader) : Prop := r.calls = [] ∧ r.acts = [] ∧ r.pendingCall = none

theorem wExpand_calls (n : Nat) (w : Writer) : (wExpand n w).calls = w.calls := by
  unfold wExpand; split <;> (try split) <;> (try split) <;> rfl

theorem wExpand_pendingCall (n : Nat) (w : Writer) : (wExpand n w).pendingCall = none := by
  unfold wExpand; split <;> (try split) <;> (try split) <;> rfl

theorem byteActs_length (p : Nat) (d : List Nat) : (byteActs p d).length = d.length := by
  simp [byteActs]

theorem readActs_length (p k : Nat) : (readActs p k).length = k := by
  simp [readActs]

theorem wExpand_acts_length (n : Nat) (w : Writer) :
    (wExpand n w).acts.length ≤ w.acts.length + wPend w.pendingCall := by
  unfold wExpand
  split
  · rename_i d hp
    rw [hp]
    split <;> simp [wPend, byteActs_length]
  · simp
  · rename_i d hp
    rw [hp]
    split
    · split <;> simp [wPend, byteActs_length]; omega
    · simp
  · simp

theorem wExpand_amend_acts_length (n : Nat) (w : Writer) {d : List Nat}
    (hp : w.pendingCall = some (.amend d)) : (wExpand n w).acts.length ≤ d.length := by
  unfold wExpand
  rw [hp]
  dsimp only
  split
  · split <;> simp [byteActs_length]
  · simp

theorem stepWriter_other {s : St} (f : Nat) {a : Act} {rest : List Act} (ha : s.w.acts = a :: rest)
    (hne : a ≠ .loadAcq) :
    (stepWriter s f).w.acts = rest ∧ (stepWriter s f).w.calls = s.w.calls ∧
      (stepWriter s f).w.pendingCall = s.w.pendingCall := by
  cases a <;> simp [stepWriter, ha] at hne ⊢

theorem WShape.stepWriter {s : St} (h : WShape s.w) (f : Nat) : WShape (stepWriter s f).w := by
  cases ha : s.w.acts with
  | nil =>
    cases hp : s.w.pendingCall with
    | some c =>
      rw [stepWriter_nil_some f ha hp]
      intro c' hc'
      rw [show ({ s with w := wExpand s.n s.w } : St).w.pendingCall = none from wExpand_pendingCall _ _] at hc'
      cases hc'
    | none =>
      rw [stepWriter_nil_none f ha hp]
      intro c' hc'
      change (wStart s.w).pendingCall = some c' at hc'
      show (wStart s.w).acts = _ ∨ ((wStart s.w).acts = _ ∧ _)
      cases hcl : s.w.calls with
      | nil => simp [wStart, hcl, hp] at hc'
      | cons c cs =>
        cases c with
        | write d => simp [wStart, hcl]
        | begin_ => simp [wStart, hcl]
        | amend d =>
          cases htx : s.w.tx with
          | none => simp [wStart, hcl, htx, hp] at hc'
          | some t =>
            simp [wStart, hcl, htx] at hc' ⊢
            exact ⟨d, hc'.symm⟩
        | commit =>
          cases htx : s.w.tx with
          | none => simp [wStart, hcl, htx, hp] at hc'
          | some t => simp [wStart, hcl, htx] at hc'
  | cons a rest =>
    by_cases hl : a = .loadAcq
    · subst hl
      rw [stepWriter_load f ha]
      intro c' hc'
      rw [show ({ s with w := wExpand s.n (wLoad s f rest) } : St).w.pendingCall = none from
        wExpand_pendingCall _ _] at hc'
      cases hc'
    · obtain ⟨_, _, h3⟩ := stepWriter_other f ha hl
      intro c' hc'
      rw [h3] at hc'
      rcases h c' hc' with h' | ⟨h', _⟩
      · rw [ha] at h'
        exact absurd (List.cons.inj h').1 hl
      · rw [ha] at h'; cases h'

theorem RShape.stepReader {s : St} (h : RShape s.r) (f : Nat) : RShape (stepReader s f).r := by
  cases ha : s.r.acts with
  | nil =>
    rw [stepReader_nil f ha]
    intro c' hc'
    change (rStart s.r).pendingCall = some c' at hc'
    show (rStart s.r).acts = _
    cases hcl : s.r.calls with
    | nil =>
      simp only [rStart, hcl] at hc'
      have := h c' hc'
      rw [ha] at this; cases this
    | cons c cs => simp [rStart, hcl]
  | cons a rest =>
    intro c' hc'
    have hp : (RingRA.stepReader s f).r.pendingCall = none ∨
        (RingRA.stepReader s f).r.pendingCall = s.r.pendingCall ∧ a ≠ .loadAcq := by
      cases a
      case loadAcq =>
        rw [stepReader_load f ha]
        exact Or.inl (rExpand_pendingCall _)
      all_goals simp [RingRA.stepReader, ha]
    rcases hp with hp | ⟨hp, hl⟩
    · rw [hp] at hc'; cases hc'
    · rw [hp] at hc'
      have := h c' hc'
      rw [ha] at this
      exact absurd (List.cons.inj this).1 hl

theorem WShape.run {s : St} (hw : WShape s.w) (hr : RShape s.r) (sched : List Choice) :
    WShape (run s sched).w ∧ RShape (run s sched).r := by
  induction sched generalizing s with
  | nil => exact ⟨hw, hr⟩
  | cons c cs ih =>
    apply ih
    · unfold step; cases c.tid
      · exact hw.stepWriter _
      · show WShape (RingRA.stepReader s c.fresh).w; rw [stepReader_w]; exact hw
    · unfold step; cases c.tid
      · show RShape (RingRA.stepWriter s c.fresh).r; rw [stepWriter_r]; exact hr
      · exact hr.stepReader _

theorem shape_reachable (n : Nat) (wcalls : List WCall) (rcalls : List RCall) (sched : List Choice) :
    WShape (run (init n wcalls rcalls) sched).w ∧ RShape (run (init n wcalls rcalls) sched).r :=
  WShape.run (by intro c hc; cases hc) (by intro c hc; cases hc) sched

section Writer
variable (W : List WCall → Nat) (hnil : W [] = 0) (hcons : ∀ c rest, W (c :: rest) = wCost c + W rest)

def wMeasure (w : Writer) : Nat := W w.calls + w.acts.length + wPend w.pendingCall

include hcons in
theorem wMeasure_step {s : St} (h : WShape s.w) (hnf : ¬ wFinished s.w) (f : Nat) :
    wMeasure W (stepWriter s f).w < wMeasure W s.w := by
  unfold wMeasure
  cases ha : s.w.acts with
  | nil =>
    cases hp : s.w.pendingCall with
    | some c =>
      rw [stepWriter_nil_some f ha hp]
      rcases h c hp with h' | ⟨_, d, rfl⟩
      · rw [ha] at h'; cases h'
      · show W (wExpand s.n s.w).calls + (wExpand s.n s.w).acts.length + wPend (wExpand s.n s.w).pendingCall < _
        have := wExpand_amend_acts_length s.n s.w hp
        rw [wExpand_calls, wExpand_pendingCall]
        simp only [wPend, List.length_nil]
        omega
    | none =>
      rw [stepWriter_nil_none f ha hp]
      show W (wStart s.w).calls + (wStart s.w).acts.length + wPend (wStart s.w).pendingCall < _
      cases hcl : s.w.calls with
      | nil => exact absurd ⟨hcl, ha, hp⟩ hnf
      | cons c cs =>
        rw [hcons]
        cases c with
        | write d => simp [wStart, hcl, wPend, wCost]; omega
        | begin_ => simp [wStart, hcl, wPend, wCost]; omega
        | amend d =>
          cases htx : s.w.tx with
          | none => simp [wStart, hcl, htx, hp, ha, wPend, wCost]
          | some t => simp [wStart, hcl, htx, wPend, wCost]; omega
        | commit =>
          cases htx : s.w.tx with
          | none => simp [wStart, hcl, htx, hp, ha, wPend, wCost]
          | some t => simp [wStart, hcl, htx, wPend, wCost]; omega
  | cons a rest =>
    by_cases hl : a = .loadAcq
    · subst hl
      rw [stepWriter_load f ha]
      show W (wExpand s.n (wLoad s f rest)).calls + (wExpand s.n (wLoad s f rest)).acts.length +
        wPend (wExpand s.n (wLoad s f rest)).pendingCall < _
      have := wExpand_acts_length s.n (wLoad s f rest)
      rw [wExpand_calls, wExpand_pendingCall]
      simp only [wPend, List.length_cons] at this ⊢
      omega
    · obtain ⟨h1, h2, h3⟩ := stepWriter_other f ha hl
      rw [h1, h2, h3]
      simp only [List.length_cons]
      omega

theorem wFinished_step {s : St} (hf : wFinished s.w) (f : Nat) : (stepWriter s f).w = s.w := by
  rw [stepWriter_nil_none f hf.2.1 hf.2.2]
  simp [wStart, hf.1]

include hnil in
theorem wMeasure_finished {w : Writer} (hf : wFinished w) : wMeasure W w = 0 := by
  simp [wMeasure, hf.1, hf.2.1, hf.2.2, hnil, wPend]

include hcons in
theorem wFinished_of_measure_zero {w : Writer} (h : WShape w) (h0 : wMeasure W w = 0) : wFinished w := by
  unfold wMeasure at h0
  have ha : w.acts = [] := List.eq_nil_of_length_eq_zero (by omega)
  refine ⟨?_, ha, ?_⟩
  · cases hc : w.calls with
    | nil => rfl
    | cons c cs =>
      rw [hc, hcons] at h0
      cases c <;> simp [wCost] at h0 <;> omega
  · cases hp : w.pendingCall with
    | none => rfl
    | some c =>
      rcases h c hp with h' | ⟨_, d, rfl⟩
      · rw [ha] at h'; cases h'
      · rw [hp] at h0; simp [wPend] at h0

include hnil hcons in
theorem writer_alone (sched : List Choice) {s : St} (hs : ∀ c ∈ sched, c.tid = .writer)
    (h : WShape s.w) (hm : wMeasure W s.w ≤ sched.length) : wFinished (run s sched).w := by
  induction sched generalizing s with
  | nil => exact wFinished_of_measure_zero W hcons h (Nat.le_zero.1 hm)
  | cons c cs ih =>
    show wFinished (RingRA.run (step s c) cs).w
    have hc : step s c = stepWriter s c.fresh := by
      unfold step; rw [hs c List.mem_cons_self]
    rw [hc]
    apply ih (fun c' hc' => hs c' (List.mem_cons_of_mem _ hc')) (h.stepWriter _)
    by_cases hf : wFinished s.w
    · rw [wFinished_step hf, wMeasure_finished W hnil hf]; exact Nat.zero_le _
    · have := wMeasure_step W hcons h hf c.fresh
      simp only [List.length_cons] at hm
      omega

include hcons in
theorem wMeasure_le (w : Writer) : wMeasure W w ≤ W (w.pendingCall.toList ++ w.calls) + w.acts.length := by
  unfold wMeasure
  cases hp : w.pendingCall with
  | none => simp [wPend]
  | some c =>
    simp only [Option.toList_some, List.cons_append, List.nil_append, hcons]
    cases c <;> simp [wPend, wCost] <;> omega

include hnil hcons in
/-- From any reachable state the writer, scheduled alone for at least its remaining work, finishes. -/
theorem writer_wait_free (n : Nat) (wcalls : List WCall) (rcalls : List RCall) (sched : List Choice)
    (fresh : Nat → Nat) (K : Nat)
    (hK : W ((run (init n wcalls rcalls) sched).w.pendingCall.toList ++ (run (init n wcalls rcalls) sched).w.calls) +
      (run (init n wcalls rcalls) sched).w.acts.length ≤ K) :
    wFinished (run (run (init n wcalls rcalls) sched)
      ((List.range K).map (fun i => (⟨.writer, fresh i⟩ : Choice)))).w := by
  apply writer_alone W hnil hcons
  · intro c hc
    obtain ⟨i, _, rfl⟩ := List.mem_map.1 hc
    rfl
  · exact (shape_reachable n wcalls rcalls sched).1
  · have := wMeasure_le W hcons (run (init n wcalls rcalls) sched).w
    simp only [List.length_map, List.length_range]
    omega

end Writer

theorem rExpand_acts_length (r : Reader) : (rExpand r).acts.length ≤ r.acts.length + rPend r.pendingCall := by
  unfold rExpand
  split
  · rename_i k hp; rw [hp]; split <;> simp [rPend, readActs_length]
  · rename_i k hp; rw [hp]; split <;> simp [rPend, readActs_length]
  · rename_i k hp; rw [hp]; split <;> simp [rPend]
  · simp

theorem stepReader_other {s : St} (f : Nat) {a : Act} {rest : List Act} (ha : s.r.acts = a :: rest)
    (hne : a ≠ .loadAcq) :
    (stepReader s f).r.acts = rest ∧ (stepReader s f).r.calls = s.r.calls ∧
      (stepReader s f).r.pendingCall = s.r.pendingCall := by
  cases a <;> simp [stepReader, ha] at hne ⊢

section Reader
variable (W : List RCall → Nat) (hnil : W [] = 0) (hcons : ∀ c rest, W (c :: rest) = rCost c + W rest)

def rMeasure (r : Reader) : Nat := W r.calls + r.acts.length + rPend r.pendingCall

include hcons in
theorem rMeasure_step {s : St} (h : RShape s.r) (hnf : ¬ rFinished s.r) (f : Nat) :
    rMeasure W (stepReader s f).r < rMeasure W s.r := by
  unfold rMeasure
  cases ha : s.r.acts with
  | nil =>
    have hp : s.r.pendingCall = none := by
      cases hp : s.r.pendingCall with
      | none => rfl
      | some c => have := h c hp; rw [ha] at this; cases this
    rw [stepReader_nil f ha]
    show W (rStart s.r).calls + (rStart s.r).acts.length + rPend (rStart s.r).pendingCall < _
    cases hcl : s.r.calls with
    | nil => exact absurd ⟨hcl, ha, hp⟩ hnf
    | cons c cs =>
      rw [hcons, hp]
      cases c <;> simp [rStart, hcl, rPend, rCost] <;> omega
  | cons a rest =>
    by_cases hl : a = .loadAcq
    · subst hl
      rw [stepReader_load f ha]
      show W (rExpand (rLoad s f rest)).calls + (rExpand (rLoad s f rest)).acts.length +
        rPend (rExpand (rLoad s f rest)).pendingCall < _
      have := rExpand_acts_length (rLoad s f rest)
      rw [rExpand_calls, rExpand_pendingCall]
      simp only [rPend, List.length_cons] at this ⊢
      omega
    · obtain ⟨h1, h2, h3⟩ := stepReader_other f ha hl
      rw [h1, h2, h3]
      simp only [List.length_cons]
      omega

theorem rFinished_step {s : St} (hf : rFinished s.r) (f : Nat) : (stepReader s f).r = s.r := by
  rw [stepReader_nil f hf.2.1]
  simp [rStart, hf.1]

include hnil in
theorem rMeasure_finished {r : Reader} (hf : rFinished r) : rMeasure W r = 0 := by
  simp [rMeasure, hf.1, hf.2.1, hf.2.2, hnil, rPend]

include hcons in
theorem rFinished_of_measure_zero {r : Reader} (h0 : rMeasure W r = 0) : rFinished r := by
  unfold rMeasure at h0
  have ha : r.acts = [] := List.eq_nil_of_length_eq_zero (by omega)
  refine ⟨?_, ha, ?_⟩
  · cases hc : r.calls with
    | nil => rfl
    | cons c cs =>
      rw [hc, hcons] at h0
      cases c <;> simp [rCost] at h0 <;> omega
  · cases hp : r.pendingCall with
    | none => rfl
    | some c =>
      rw [hp] at h0
      cases c <;> simp [rPend] at h0 <;> omega

include hnil hcons in
theorem reader_alone (sched : List Choice) {s : St} (hs : ∀ c ∈ sched, c.tid = .reader)
    (h : RShape s.r) (hm : rMeasure W s.r ≤ sched.length) : rFinished (run s sched).r := by
  induction sched generalizing s with
  | nil => exact rFinished_of_measure_zero W hcons (Nat.le_zero.1 hm)
  | cons c cs ih =>
    show rFinished (RingRA.run (step s c) cs).r
    have hc : step s c = stepReader s c.fresh := by
      unfold step; rw [hs c List.mem_cons_self]
    rw [hc]
    apply ih (fun c' hc' => hs c' (List.mem_cons_of_mem _ hc')) (h.stepReader _)
    by_cases hf : rFinished s.r
    · rw [rFinished_step hf, rMeasure_finished W hnil hf]; exact Nat.zero_le _
    · have := rMeasure_step W hcons h hf c.fresh
      simp only [List.length_cons] at hm
      omega

include hcons in
theorem rMeasure_le (r : Reader) : rMeasure W r ≤ W (r.pendingCall.toList ++ r.calls) + r.acts.length := by
  unfold rMeasure
  cases hp : r.pendingCall with
  | none => simp [rPend]
  | some c =>
    simp only [Option.toList_some, List.cons_append, List.nil_append, hcons]
    cases c <;> simp [rPend, rCost] <;> omega

include hnil hcons in
/-- From any reachable state the reader, scheduled alone for at least its remaining work, finishes. -/
theorem reader_wait_free (n : Nat) (wcalls : List WCall) (rcalls : List RCall) (sched : List Choice)
    (fresh : Nat → Nat) (K : Nat)
    (hK : W ((run (init n wcalls rcalls) sched).r.pendingCall.toList ++ (run (init n wcalls rcalls) sched).r.calls) +
      (run (init n wcalls rcalls) sched).r.acts.length ≤ K) :
    rFinished (run (run (init n wcalls rcalls) sched)
      ((List.range K).map (fun i => (⟨.reader, fresh i⟩ : Choice)))).r := by
  apply reader_alone W hnil hcons
  · intro c hc
    obtain ⟨i, _, rfl⟩ := List.mem_map.1 hc
    rfl
  · exact (shape_reachable n wcalls rcalls sched).2
  · have := rMeasure_le W hcons (run (init n wcalls rcalls) sched).r
    simp only [List.length_map, List.length_range]
    omega

end Reader

end Zix.RingRA
