import ZixModel.Model.StrView
namespace Zix.StrView

theorem head?_drop_eq (l : List Nat) (i : Nat) : (l.drop i).head? = l[i]? := by
  simp [List.head?_drop]

theorem cmpLoop_iff (mem : List Nat) (a b : Nat) (i n : Nat) :
    cmpLoop mem a b i n = true ↔ ∀ j, j < n → mem[a + i + j]? = mem[b + i + j]? := by
  induction n generalizing i with
  | zero => simp [cmpLoop]
  | succ n ih =>
    unfold cmpLoop
    simp only [head?_drop_eq]
    split
    · rename_i h
      simp only [Bool.false_eq_true, false_iff]
      intro hall
      have := hall 0 (by omega)
      simp at this
      simp [this] at h
    · rename_i h
      simp only [bne_iff_ne, ne_eq, Decidable.not_not] at h
      rw [ih]
      constructor
      · intro hall j hj
        cases j with
        | zero => simpa using h
        | succ j =>
          have := hall j (by omega)
          simpa [Nat.add_assoc, Nat.add_comm 1 j] using this
      · intro hall j hj
        have := hall (j + 1) (by omega)
        simpa [Nat.add_assoc, Nat.add_comm 1 j] using this

theorem bytes_getElem? (mem : List Nat) (v : View) (j : Nat) :
    (v.bytes mem)[j]? = if j < v.len then mem[v.off + j]? else none := by
  unfold View.bytes
  rw [List.getElem?_take]
  split <;> simp [List.getElem?_drop]

theorem bytes_length (mem : List Nat) (v : View) (h : v.off + v.len ≤ mem.length) :
    (v.bytes mem).length = v.len := by
  unfold View.bytes
  simp; omega

end Zix.StrView
