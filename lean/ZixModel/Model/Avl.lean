/-! Model of src/tree.c (ZixTree, an AVL tree with parent pointers).  Nodes carry an identity
`id` (the C code relinks nodes, it never copies data between them) and the stored balance factor.
Insertion and removal are written recursively but make the C code's decisions: the same
rotations with the same balance updates, the successor swap, the same retrace stops — the
correspondence harness compares the whole shape (ids, keys, balances, parents) after every call. -/
namespace Zix.Avl

inductive T where
  | nil
  | node (l : T) (id : Nat) (key : Int) (bal : Int) (r : T)
deriving Repr, DecidableEq, Inhabited

namespace T

def bal : T → Int
  | nil => 0
  | node _ _ _ b _ => b

def height : T → Nat
  | nil => 0
  | node l _ _ _ r => max l.height r.height + 1

def size : T → Nat
  | nil => 0
  | node l _ _ _ r => l.size + r.size + 1

/-- in-order list of (id, key) -/
def inorder : T → List (Nat × Int)
  | nil => []
  | node l i k _ r => l.inorder ++ (i, k) :: r.inorder

/-- `zix_tree_free_rec`: left, right, then the node -/
def postorder : T → List (Nat × Int)
  | nil => []
  | node l i k _ r => l.postorder ++ r.postorder ++ [(i, k)]

def setBal : T → Int → T
  | nil, _ => nil
  | node l i k _ r, b => node l i k b r

end T
open T

/-- `rotate_left(p)`: q = p.right comes up; `--q.balance; p.balance = -q.balance`. -/
def rotateLeft : T → T
  | node a pi pk _ (node b qi qk qb c) =>
    let qb' := qb - 1
    node (node a pi pk (-qb') b) qi qk qb' c
  | t => t

/-- `rotate_right(p)`: q = p.left comes up; `++q.balance; p.balance = -q.balance`. -/
def rotateRight : T → T
  | node (node a qi qk qb b) pi pk _ c =>
    let qb' := qb + 1
    node a qi qk qb' (node b pi pk (-qb') c)
  | t => t

/-- `rotate_left_right(p)`: q = p.left, r = q.right comes up. -/
def rotateLeftRight : T → T
  | node (node a qi qk qb (node b ri rk rb c)) pi pk pb d =>
    let qb' := qb - (1 + max 0 rb)
    let pb' := pb + (1 - min (min 0 rb - 1) (rb + qb'))
    node (node a qi qk qb' b) ri rk 0 (node c pi pk pb' d)
  | t => t

/-- `rotate_right_left(p)`: q = p.right, r = q.left comes up. -/
def rotateRightLeft : T → T
  | node a pi pk pb (node (node b ri rk rb c) qi qk qb d) =>
    let qb' := qb + (1 - min 0 rb)
    let pb' := pb - (1 + max (max 0 rb + 1) (rb + qb'))
    node (node a pi pk pb' b) ri rk 0 (node c qi qk qb' d)
  | t => t

/-- `zix_tree_rebalance(node)` for a node whose balance is ±2 (otherwise unchanged). -/
def rebalance : T → T
  | t@(node l _ _ b r) =>
    if b = -2 then (if l.bal = 1 then rotateLeftRight t else rotateRight t)
    else if b = 2 then (if r.bal = -1 then rotateRightLeft t else rotateLeft t)
    else t
  | nil => nil

inductive InsRes where
  | exists_ (id : Nat)
  | done (t : T) (grew : Bool)
deriving Repr

/-- `zix_tree_insert`: descend (`e < key` left; `e > key` or duplicates allowed: right; else EXISTS),
attach the new leaf, retrace: each ancestor whose subtree grew has its balance adjusted; ±2 is
repaired by one rebalance and stops the retrace, 0 stops it. -/
def insertAux (dups : Bool) (e : Int) (id : Nat) : T → InsRes
  | nil => .done (node nil id e 0 nil) true
  | node l i k b r =>
    if e < k then
      match insertAux dups e id l with
      | .exists_ x => .exists_ x
      | .done l' grew =>
        if grew then
          let b' := b - 1
          if b' = -2 then .done (rebalance (node l' i k b' r)) false
          else .done (node l' i k b' r) (b' ≠ 0)
        else .done (node l' i k b r) false
    else if e > k ∨ dups then
      match insertAux dups e id r with
      | .exists_ x => .exists_ x
      | .done r' grew =>
        if grew then
          let b' := b + 1
          if b' = 2 then .done (rebalance (node l i k b' r')) false
          else .done (node l i k b' r') (b' ≠ 0)
        else .done (node l i k b r') false
    else .exists_ i

/-- The left subtree of this node lost one level: `balance += 1`, then as the C retrace does. -/
def fixLeftShrunk : T → T × Bool
  | node l i k b r =>
    let b' := b + 1
    if b' = 1 then (node l i k b' r, false)
    else if b' = 0 then (node l i k b' r, true)
    else let t := rebalance (node l i k b' r); (t, t.bal = 0)
  | nil => (nil, false)

/-- The right subtree of this node lost one level: `balance -= 1`. -/
def fixRightShrunk : T → T × Bool
  | node l i k b r =>
    let b' := b - 1
    if b' = -1 then (node l i k b' r, false)
    else if b' = 0 then (node l i k b' r, true)
    else let t := rebalance (node l i k b' r); (t, t.bal = 0)
  | nil => (nil, false)

/-- Detach the leftmost node of a non-empty tree: (its id, its key, the rest, rest lost a level). -/
def removeMin : T → Nat × Int × T × Bool
  | nil => (0, 0, nil, false)
  | node nil i k _ r => (i, k, r, true)
  | node l i k b r =>
    let (mi, mk, l', s) := removeMin l
    if s then
      let (t, s') := fixLeftShrunk (node l' i k b r)
      (mi, mk, t, s')
    else (mi, mk, node l' i k b r, false)

/-- Remove the node at the root of this subtree (the C cases: leaf, one child, successor swap). -/
def removeRoot : T → T × Bool
  | nil => (nil, false)
  | node nil _ _ _ nil => (nil, true)
  | node nil _ _ _ r => (r, true)
  | node l _ _ _ nil => (l, true)
  | node l _ _ b r =>
    let (mi, mk, r', s) := removeMin r
    if s then fixRightShrunk (node l mi mk b r') else (node l mi mk b r', false)

/-- `zix_tree_remove(iter)` for the node with this id: `none` if no such node. -/
def removeId (id : Nat) : T → Option (T × Bool)
  | nil => none
  | node l i k b r =>
    if i = id then some (removeRoot (node l i k b r))
    else
      match removeId id l with
      | some (l', s) => some (if s then fixLeftShrunk (node l' i k b r) else (node l' i k b r, false))
      | none =>
        match removeId id r with
        | some (r', s) => some (if s then fixRightShrunk (node l i k b r') else (node l i k b r', false))
        | none => none

/-- `zix_tree_find`: the first equal node met on the way down; also the number of comparisons. -/
def find (e : Int) : T → Nat → Option Nat × Nat
  | nil, n => (none, n)
  | node l i k _ r, n =>
    if e = k then (some i, n + 1)
    else if e < k then find e l (n + 1) else find e r (n + 1)

structure Tree where
  dups : Bool
  root : T
  size : Nat
  next : Nat   -- next node id
deriving Repr

def Tree.new (dups : Bool) : Tree := ⟨dups, .nil, 0, 1⟩

inductive Status where
  | success | exists_ | notFound
deriving Repr, DecidableEq

def Tree.insert (t : Tree) (e : Int) : Tree × Status × Nat :=
  match insertAux t.dups e t.next t.root with
  | .exists_ i => (t, .exists_, i)
  | .done r _ => ({ t with root := r, size := t.size + 1, next := t.next + 1 }, .success, t.next)

/-- `zix_tree_insert` when the node allocation may be refused: the search comes first (a duplicate
is EXISTS even without memory), then NO_MEM leaves the tree untouched. `none` = NO_MEM. -/
def Tree.insertMayFail (t : Tree) (e : Int) (allocOk : Bool) : Tree × Option (Status × Nat) :=
  match insertAux t.dups e t.next t.root with
  | .exists_ i => (t, some (.exists_, i))
  | .done r _ =>
    if allocOk then ({ t with root := r, size := t.size + 1, next := t.next + 1 }, some (.success, t.next))
    else (t, none)

def Tree.remove (t : Tree) (id : Nat) : Option Tree :=
  match removeId id t.root with
  | some (r, _) => some { t with root := r, size := t.size - 1 }
  | none => none

end Zix.Avl
