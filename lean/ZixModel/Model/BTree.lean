/-! Model of src/btree.c (as repaired).  A node is a leaf with values or an internal node with
values and children; every node carries the id of the memory block (page) it lives in, so that
allocation events and the white-box dump name the same pages as the implementation.  Elements are
natural numbers compared with `<` (the harness's comparator is a total order on them).

The algorithms are transcribed case by case from the C code: pre-emptive split on the way down
(median = n/2) with the post-split compare, `grow_up`, binary `find_value`/`find_pattern` with a
comparison counter, `rotate_left/right`, `merge` (with root collapse), `remove_min/max`,
`fatten_child`, `replace_value` with its size / index-parity tie-break, the pre-loop root merge,
iterator paths (index per level), `increment`, `lower_bound` with the ancestor fallback.
Descent functions take a fuel argument (the height suffices). -/
namespace Zix.BTree

inductive Node where
  | leaf (id : Nat) (vals : List Nat)
  | inode (id : Nat) (vals : List Nat) (children : List Node)
deriving Repr, Inhabited

structure Cfg where
  leafMax   : Nat
  inodeMax  : Nat
  maxHeight : Nat
deriving Repr

namespace Node
def id : Node → Nat
  | leaf i _ => i
  | inode i _ _ => i
def vals : Node → List Nat
  | leaf _ v => v
  | inode _ v _ => v
def children : Node → List Node
  | leaf _ _ => []
  | inode _ _ c => c
def isLeaf : Node → Bool
  | leaf _ _ => true
  | inode _ _ _ => false
def nVals (n : Node) : Nat := n.vals.length
def child (n : Node) (i : Nat) : Node := n.children.getD i (leaf 0 [])
end Node

def Cfg.maxVals (c : Cfg) (n : Node) : Nat := if n.isLeaf then c.leafMax else c.inodeMax
def Cfg.minVals (c : Cfg) (n : Node) : Nat := (c.maxVals n + 1) / 2 - 1
def Cfg.canRemoveFrom (c : Cfg) (n : Node) : Bool := n.nVals > c.minVals n
def Cfg.isFull (c : Cfg) (n : Node) : Bool := n.nVals == c.maxVals n

/-- `zix_btree_ainsert` -/
def ainsert (l : List Nat) (i x : Nat) : List Nat := l.take i ++ x :: l.drop i
def cinsert (l : List Node) (i : Nat) (x : Node) : List Node := l.take i ++ x :: l.drop i

/-! ### allocation oracle and events -/

structure AllocSt where
  next : Nat   -- id the next granted block gets
  reqs : Nat   -- number of requests made so far (index of the next request)
deriving Repr

inductive Ev where
  | alloc (id : Nat)
  | allocFail
  | free (id : Nat)
deriving Repr, DecidableEq

def allocPage (fails : Nat → Bool) (a : AllocSt) : AllocSt × Option Nat × List Ev :=
  if fails a.reqs then ({ a with reqs := a.reqs + 1 }, none, [.allocFail])
  else ({ next := a.next + 1, reqs := a.reqs + 1 }, some a.next, [.alloc a.next])

/-! ### searching inside a node -/

/-- `zix_btree_find_value`: binary search; returns (index, equal, comparisons). -/
def findValue (vals : List Nat) (e : Nat) : (first count cmps fuel : Nat) → Nat × Bool × Nat
  | first, _, cmps, 0 => (first, false, cmps)
  | first, count, cmps, fuel + 1 =>
    if count = 0 then (first, false, cmps)
    else
      let half := count / 2
      let i := first + half
      let v := vals.getD i 0
      if v = e then (i, true, cmps + 1)
      else if v < e then findValue vals e (first + half + 1) (count - (half + 1)) (cmps + 1) fuel
      else findValue vals e first half (cmps + 1) fuel

def nodeFind (n : Node) (e : Nat) : Nat × Bool × Nat := findValue n.vals e 0 n.nVals 0 (n.nVals + 1)

/-- `zix_btree_find_pattern`: leftmost match under a search comparator `cmp v` (sign of v vs key). -/
def findPattern (vals : List Nat) (cmp : Nat → Int) : (first count cmps : Nat) → (equal : Bool) → (fuel : Nat) → Nat × Bool × Nat
  | first, _, cmps, eq, 0 => (first, eq, cmps)
  | first, count, cmps, eq, fuel + 1 =>
    if count = 0 then (first, eq, cmps)
    else
      let half := count / 2
      let i := first + half
      let c := cmp (vals.getD i 0)
      if c = 0 then findPattern vals cmp first half (cmps + 1) true fuel
      else if c < 0 then findPattern vals cmp (first + half + 1) (count - (half + 1)) (cmps + 1) eq fuel
      else findPattern vals cmp first half (cmps + 1) eq fuel

def nodeFindPattern (n : Node) (cmp : Nat → Int) : Nat × Bool × Nat :=
  findPattern n.vals cmp 0 n.nVals 0 false (n.nVals + 1)

/-! ### insertion -/

/-- `zix_btree_split_child(n, i, lhs)` given the id of the freshly allocated right-hand page. -/
def splitChild (c : Cfg) (vals : List Nat) (children : List Node) (i : Nat) (rid : Nat) : List Nat × List Node :=
  let lhs := children.getD i (.leaf 0 [])
  let maxN := c.maxVals lhs
  let ln := maxN / 2
  match lhs with
  | .leaf lid lv =>
    let l' := Node.leaf lid (lv.take ln)
    let r' := Node.leaf rid (lv.drop (ln + 1))
    (ainsert vals i (lv.getD ln 0), cinsert (children.set i l') (i + 1) r')
  | .inode lid lv lc =>
    let l' := Node.inode lid (lv.take ln) (lc.take (ln + 1))
    let r' := Node.inode rid (lv.drop (ln + 1)) (lc.drop (ln + 1))
    (ainsert vals i (lv.getD ln 0), cinsert (children.set i l') (i + 1) r')

inductive Status where
  | success | exists_ | notFound | noMem
deriving Repr, DecidableEq

structure InsOut where
  a     : AllocSt
  node  : Node
  st    : Status
  evs   : List Ev
  cmps  : Nat

/-- The walk down of `zix_btree_insert` from a node that is not full. -/
def insertNode (c : Cfg) (fails : Nat → Bool) : (fuel : Nat) → AllocSt → Node → Nat → InsOut
  | 0, a, n, _ => ⟨a, n, .noMem, [], 0⟩
  | _ + 1, a, .leaf id vals, e =>
    let (i, eq, k) := nodeFind (.leaf id vals) e
    if eq then ⟨a, .leaf id vals, .exists_, [], k⟩
    else ⟨a, .leaf id (ainsert vals i e), .success, [], k⟩
  | fuel + 1, a, .inode id vals children, e =>
    let (i, eq, k) := nodeFind (.inode id vals children) e
    if eq then ⟨a, .inode id vals children, .exists_, [], k⟩
    else
      let child := children.getD i (.leaf 0 [])
      if c.isFull child then
        match allocPage fails a with
        | (a1, none, ev) => ⟨a1, .inode id vals children, .noMem, ev, k⟩
        | (a1, some rid, ev) =>
          let (vals', children') := splitChild c vals children i rid
          let sv := vals'.getD i 0
          -- compare with the new split value to choose a side
          if sv < e then
            let r := insertNode c fails fuel a1 (children'.getD (i + 1) (.leaf 0 [])) e
            ⟨r.a, .inode id vals' (children'.set (i + 1) r.node), r.st, ev ++ r.evs, k + 1 + r.cmps⟩
          else if sv = e then ⟨a1, .inode id vals' children', .exists_, ev, k + 1⟩
          else
            let r := insertNode c fails fuel a1 (children'.getD i (.leaf 0 [])) e
            ⟨r.a, .inode id vals' (children'.set i r.node), r.st, ev ++ r.evs, k + 1 + r.cmps⟩
      else
        let r := insertNode c fails fuel a child e
        ⟨r.a, .inode id vals (children.set i r.node), r.st, r.evs, k + r.cmps⟩

def height : Node → Nat
  | .leaf _ _ => 1
  | .inode _ _ cs => 1 + (match cs with | [] => 0 | c :: _ => height c)

structure Tree where
  root   : Node
  size   : Nat
  treeId : Nat    -- block holding the ZixBTree struct
deriving Repr

/-- `zix_btree_new`: two page requests (tree, root leaf). -/
def Tree.new (fails : Nat → Bool) (a : AllocSt) : AllocSt × Option Tree × List Ev :=
  match allocPage fails a with
  | (a1, none, e1) => (a1, none, e1)
  | (a1, some tid, e1) =>
    match allocPage fails a1 with
    | (a2, none, e2) => (a2, none, e1 ++ e2 ++ [.free tid])
    | (a2, some rid, e2) => (a2, some ⟨.leaf rid [], 0, tid⟩, e1 ++ e2)

/-- `zix_btree_insert` -/
def Tree.insert (c : Cfg) (fails : Nat → Bool) (a : AllocSt) (t : Tree) (e : Nat) :
    AllocSt × Tree × Status × List Ev × Nat :=
  if c.isFull t.root then
    -- grow_up: a new root page, then split the old root under it
    match allocPage fails a with
    | (a1, none, e1) => (a1, t, .noMem, e1, 0)
    | (a1, some nid, e1) =>
      match allocPage fails a1 with
      | (a2, none, e2) => (a2, t, .noMem, e1 ++ e2 ++ [.free nid], 0)
      | (a2, some rid, e2) =>
        let (v, cs) := splitChild c [] [t.root] 0 rid
        let r := insertNode c fails (height t.root + 2) a2 (.inode nid v cs) e
        (r.a, { t with root := r.node, size := if r.st = .success then t.size + 1 else t.size }, r.st,
          e1 ++ e2 ++ r.evs, r.cmps)
  else
    let r := insertNode c fails (height t.root + 1) a t.root e
    (r.a, { t with root := r.node, size := if r.st = .success then t.size + 1 else t.size }, r.st, r.evs, r.cmps)

/-! ### find, iterators -/

/-- An iterator: the index at every level from the root down to the level it points at;
`none` is the end iterator. -/
abbrev Iter := Option (List Nat)

/-- `zix_btree_find` -/
def findNode : (fuel : Nat) → Node → Nat → Option (List Nat) × Nat
  | 0, _, _ => (none, 0)
  | fuel + 1, n, e =>
    let (i, eq, k) := nodeFind n e
    if eq then (some [i], k)
    else if n.isLeaf then (none, k)
    else
      let (r, k') := findNode fuel (n.child i) e
      (r.map (i :: ·), k + k')

def Tree.find (t : Tree) (e : Nat) : Iter × Nat := findNode (height t.root) t.root e

/-- The node an iterator path points into, and the index there. -/
def nodeAt : Node → List Nat → Option (Node × Nat)
  | _, [] => none
  | n, [i] => some (n, i)
  | n, i :: rest => if n.isLeaf then none else nodeAt (n.child i) rest

/-- `zix_btree_get` -/
def deref (root : Node) (it : Iter) : Option Nat :=
  match it with
  | none => none
  | some p => match nodeAt root p with
    | some (n, i) => n.vals[i]?
    | none => none

/-- path of zeros down to the leftmost leaf of `n` -/
def leftmost : (fuel : Nat) → Node → List Nat
  | 0, _ => [0]
  | fuel + 1, n => if n.isLeaf then [0] else 0 :: leftmost fuel (n.child 0)

/-- `zix_btree_begin` -/
def Tree.begin (t : Tree) : Iter := if t.size = 0 then none else some (leftmost (height t.root) t.root)

/-- Pop frames while the index is at the end of its node (leaf case of `zix_btree_iter_increment`,
after the index has been advanced): `p` is the reversed path (deepest frame first). -/
def popEnds (root : Node) : (fuel : Nat) → List Nat → Iter
  | 0, _ => none
  | _, [] => none
  | fuel + 1, i :: up =>
    match nodeAt root (up.reverse ++ [i]) with
    | none => none
    | some (n, _) =>
      if i ≥ n.nVals then
        (match up with
         | [] => none
         | _ => popEnds root fuel up)
      else some (up.reverse ++ [i])

/-- `zix_btree_iter_increment` on a valid (non-end) iterator. -/
def increment (root : Node) (p : List Nat) : Iter :=
  match nodeAt root p with
  | none => none
  | some (n, i) =>
    if n.isLeaf then popEnds root (p.length + 1) ((p.dropLast ++ [i + 1]).reverse)
    else some (p.dropLast ++ [i + 1] ++ leftmost (height n) (n.child (i + 1)))

/-- `zix_btree_iter_equals` -/
def iterEquals (a b : Iter) : Bool := a == b

/-- `zix_btree_lower_bound` with search comparator `cmp v` = sign of (v compared with the key). -/
def lowerBoundNode (cmp : Nat → Int) : (fuel : Nat) → Node → List Nat × Bool × Option Nat × Nat
  -- returns (path to the leaf frame, equal-in-leaf, found_level relative, comparisons)
  | 0, _ => ([0], false, none, 0)
  | fuel + 1, n =>
    let (i, eq, k) := nodeFindPattern n cmp
    if n.isLeaf then ([i], eq, none, k)
    else
      let (p, leq, fl, k') := lowerBoundNode cmp fuel (n.child i)
      -- found_level: the deepest internal level at which a match was seen
      let fl' := match fl with
        | some d => some (d + 1)
        | none => if eq then some 0 else none
      (i :: p, leq, fl', k + k')

def Tree.lowerBound (t : Tree) (cmp : Nat → Int) : Iter × Nat :=
  let (p, leq, fl, k) := lowerBoundNode cmp (height t.root) t.root
  if leq then (some p, k)
  else
    match nodeAt t.root p with
    | none => (none, k)
    | some (n, i) =>
      if i = n.nVals then
        match fl with
        | some d => (some (p.take (d + 1)), k)          -- found on a previous level but went too far
        | none => (popEnds t.root (p.length + 1) p.reverse, k)   -- next value in an ancestor, or end
      else (some p, k)

/-! ### removal -/

def rotateLeft (vals : List Nat) (children : List Node) (i : Nat) : List Nat × List Node :=
  let lhs := children.getD i (.leaf 0 [])
  let rhs := children.getD (i + 1) (.leaf 0 [])
  let pv := vals.getD i 0
  match lhs, rhs with
  | .leaf li lv, .leaf ri rv =>
    (vals.set i (rv.headD 0), (children.set i (.leaf li (lv ++ [pv]))).set (i + 1) (.leaf ri rv.tail))
  | .inode li lv lc, .inode ri rv rc =>
    (vals.set i (rv.headD 0),
     (children.set i (.inode li (lv ++ [pv]) (lc ++ [rc.headD (.leaf 0 [])]))).set (i + 1) (.inode ri rv.tail rc.tail))
  | _, _ => (vals, children)

def rotateRight (vals : List Nat) (children : List Node) (i : Nat) : List Nat × List Node :=
  let lhs := children.getD (i - 1) (.leaf 0 [])
  let rhs := children.getD i (.leaf 0 [])
  let pv := vals.getD (i - 1) 0
  match lhs, rhs with
  | .leaf li lv, .leaf ri rv =>
    (vals.set (i - 1) (lv.getLastD 0), (children.set (i - 1) (.leaf li lv.dropLast)).set i (.leaf ri (pv :: rv)))
  | .inode li lv lc, .inode ri rv rc =>
    (vals.set (i - 1) (lv.getLastD 0),
     (children.set (i - 1) (.inode li lv.dropLast lc.dropLast)).set i (.inode ri (pv :: rv) (lc.getLastD (.leaf 0 []) :: rc)))
  | _, _ => (vals, children)

/-- `zix_btree_merge(n, i)`: returns the new values and children of `n`, and the freed page. -/
def mergeAt (vals : List Nat) (children : List Node) (i : Nat) : List Nat × List Node × Nat :=
  let lhs := children.getD i (.leaf 0 [])
  let rhs := children.getD (i + 1) (.leaf 0 [])
  let pv := vals.getD i 0
  let merged := match lhs, rhs with
    | .leaf li lv, .leaf _ rv => Node.leaf li (lv ++ pv :: rv)
    | .inode li lv lc, .inode _ rv rc => Node.inode li (lv ++ pv :: rv) (lc ++ rc)
    | l, _ => l
  (vals.eraseIdx i, (children.set i merged).eraseIdx (i + 1), rhs.id)

/-- `zix_btree_remove_min` from the subtree rooted at a node that can spare a value. -/
def removeMin (c : Cfg) : (fuel : Nat) → Node → Node × Nat × List Ev
  | 0, n => (n, 0, [])
  | _ + 1, .leaf id vals => (.leaf id vals.tail, vals.headD 0, [])
  | fuel + 1, .inode id vals children =>
    let c0 := children.getD 0 (.leaf 0 [])
    let c1 := children.getD 1 (.leaf 0 [])
    if c.canRemoveFrom c0 then
      let (n', v, ev) := removeMin c fuel c0
      (.inode id vals (children.set 0 n'), v, ev)
    else if c.canRemoveFrom c1 then
      let (vals', children') := rotateLeft vals children 0
      let (n', v, ev) := removeMin c fuel (children'.getD 0 (.leaf 0 []))
      (.inode id vals' (children'.set 0 n'), v, ev)
    else
      let (vals', children', freed) := mergeAt vals children 0
      let (n', v, ev) := removeMin c fuel (children'.getD 0 (.leaf 0 []))
      (.inode id vals' (children'.set 0 n'), v, .free freed :: ev)

/-- `zix_btree_remove_max` -/
def removeMax (c : Cfg) : (fuel : Nat) → Node → Node × Nat × List Ev
  | 0, n => (n, 0, [])
  | _ + 1, .leaf id vals => (.leaf id vals.dropLast, vals.getLastD 0, [])
  | fuel + 1, .inode id vals children =>
    let z := vals.length
    let y := z - 1
    let cz := children.getD z (.leaf 0 [])
    let cy := children.getD y (.leaf 0 [])
    if c.canRemoveFrom cz then
      let (n', v, ev) := removeMax c fuel cz
      (.inode id vals (children.set z n'), v, ev)
    else if c.canRemoveFrom cy then
      let (vals', children') := rotateRight vals children z
      let (n', v, ev) := removeMax c fuel (children'.getD z (.leaf 0 []))
      (.inode id vals' (children'.set z n'), v, ev)
    else
      let (vals', children', freed) := mergeAt vals children y
      let (n', v, ev) := removeMax c fuel (children'.getD y (.leaf 0 []))
      (.inode id vals' (children'.set y n'), v, .free freed :: ev)

/-- `zix_btree_replace_value(n, i)`: `none` when both neighbours are minimal; else the new node,
the removed value, whether the replacement came from the left child, and free events. -/
def replaceValue (c : Cfg) (fuel : Nat) (id : Nat) (vals : List Nat) (children : List Node) (i : Nat) :
    Option (Node × Nat × Bool × List Ev) :=
  let lhs := children.getD i (.leaf 0 [])
  let rhs := children.getD (i + 1) (.leaf 0 [])
  if !c.canRemoveFrom lhs && !c.canRemoveFrom rhs then none
  else
    let out := vals.getD i 0
    let fromLeft : Bool :=
      if lhs.nVals > rhs.nVals then true
      else if rhs.nVals > lhs.nVals then false
      else i % 2 = 1
    if fromLeft then
      let (l', v, ev) := removeMax c fuel lhs
      some (.inode id (vals.set i v) (children.set i l'), out, true, ev)
    else
      let (r', v, ev) := removeMin c fuel rhs
      some (.inode id (vals.set i v) (children.set (i + 1) r'), out, false, ev)

/-- `zix_btree_fatten_child(n, i)`: new values/children of `n`, the (possibly decremented) child
index, free events. -/
def fattenChild (c : Cfg) (vals : List Nat) (children : List Node) (i : Nat) :
    List Nat × List Node × Nat × List Ev :=
  if i > 0 ∧ c.canRemoveFrom (children.getD (i - 1) (.leaf 0 [])) then
    let (v, cs) := rotateRight vals children i; (v, cs, i, [])
  else if i < vals.length ∧ c.canRemoveFrom (children.getD (i + 1) (.leaf 0 [])) then
    let (v, cs) := rotateLeft vals children i; (v, cs, i, [])
  else if i = vals.length then
    let (v, cs, f) := mergeAt vals children (i - 1); (v, cs, i - 1, [.free f])
  else
    let (v, cs, f) := mergeAt vals children i; (v, cs, i, [.free f])

structure RemOut where
  node : Node
  out  : Option Nat        -- the removed element, `none` = not found
  path : List Nat          -- frames from this level down
  incr : Bool              -- the iterator must be incremented to reach the successor
  evs  : List Ev
  cmps : Nat

/-- The walk down of `zix_btree_remove` from node `n` (which can spare a value, or is the root). -/
def removeNode (c : Cfg) : (fuel : Nat) → Node → Nat → RemOut
  | 0, n, _ => ⟨n, none, [], false, [], 0⟩
  | _ + 1, .leaf id vals, e =>
    let (i, eq, k) := nodeFind (.leaf id vals) e
    if !eq then ⟨.leaf id vals, none, [], false, [], k⟩
    else
      let vals' := vals.eraseIdx i
      if i = vals'.length ∧ vals'.length > 0 then
        -- removed the largest element of this leaf: frame (i-1), then increment
        ⟨.leaf id vals', some (vals.getD i 0), [i - 1], true, [], k⟩
      else ⟨.leaf id vals', some (vals.getD i 0), [i], false, [], k⟩
  | fuel + 1, .inode id vals children, e =>
    let (i, eq, k) := nodeFind (.inode id vals children) e
    if eq then
      match replaceValue c fuel id vals children i with
      | some (n', out, fromLeft, ev) => ⟨n', some out, [i], fromLeft, ev, k⟩
      | none =>
        let (vals', children', freed) := mergeAt vals children i
        let r := removeNode c fuel (children'.getD i (.leaf 0 [])) e
        ⟨.inode id vals' (children'.set i r.node), r.out, i :: r.path, r.incr, .free freed :: r.evs, k + r.cmps⟩
    else
      let child := children.getD i (.leaf 0 [])
      if c.canRemoveFrom child then
        let r := removeNode c fuel child e
        ⟨.inode id vals (children.set i r.node), r.out, i :: r.path, r.incr, r.evs, k + r.cmps⟩
      else
        let (vals', children', i', ev) := fattenChild c vals children i
        let r := removeNode c fuel (children'.getD i' (.leaf 0 [])) e
        ⟨.inode id vals' (children'.set i' r.node), r.out, i' :: r.path, r.incr, ev ++ r.evs, k + r.cmps⟩

/-- `zix_btree_remove`: (tree, status, removed element, `next` iterator, events, comparisons). -/
def Tree.remove (c : Cfg) (t : Tree) (e : Nat) : Tree × Status × Option Nat × Iter × List Ev × Nat :=
  -- root with two minimal children: merge them into a new root first
  let (root, ev0) : Node × List Ev :=
    match t.root with
    | .inode id [v] [l, r] =>
      if !c.canRemoveFrom l && !c.canRemoveFrom r then
        let (_, cs, freed) := mergeAt [v] [l, r] 0
        (cs.getD 0 (.leaf 0 []), [.free id, .free freed])
      else (t.root, [])
    | n => (n, [])
  let r := removeNode c (height root + 1) root e
  match r.out with
  | none => ({ t with root := r.node }, .notFound, none, none, ev0 ++ r.evs, r.cmps)
  | some out =>
    let t' : Tree := { t with root := r.node, size := t.size - 1 }
    let next : Iter :=
      if t'.size = 0 then none
      else if r.incr then increment r.node r.path else some r.path
    (t', .success, some out, next, ev0 ++ r.evs, r.cmps)

/-! ### clear / free -/

/-- Order in which `zix_btree_free_children` hands elements to the destroy function, and the
pages it releases (children before the parent's own values). -/
def destroyOrder : (fuel : Nat) → Node → List Nat × List Ev
  | 0, _ => ([], [])
  | _ + 1, .leaf _ vals => (vals, [])
  | fuel + 1, .inode _ vals children =>
    let rs := children.map (fun ch => let (d, f) := destroyOrder fuel ch; (d, f ++ [Ev.free ch.id]))
    (rs.flatMap (·.1) ++ vals, rs.flatMap (·.2))

/-- `zix_btree_clear`: the root page is kept and becomes an empty leaf. -/
def Tree.clear (t : Tree) : Tree × List Nat × List Ev :=
  let (d, f) := destroyOrder (height t.root + 1) t.root
  ({ t with root := .leaf t.root.id [], size := 0 }, d, f)

/-- all values in order -/
def toList : (fuel : Nat) → Node → List Nat
  | 0, _ => []
  | _ + 1, .leaf _ vals => vals
  | fuel + 1, .inode _ vals children =>
    let rec go : List Nat → List Node → List Nat
      | v :: vs, ch :: cs => toList fuel ch ++ v :: go vs cs
      | [], ch :: _ => toList fuel ch
      | _, [] => []
    go vals children

def Tree.toList (t : Tree) : List Nat := Zix.BTree.toList (height t.root + 1) t.root

end Zix.BTree
