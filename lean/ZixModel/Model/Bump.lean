/-! Model of `src/bump_allocator.c` (as repaired by the `fix:` commits recorded in
known_findings.json).  Sizes and offsets are `size_t`: natural numbers below `W = 2^64`,
and every C addition that can wrap is written with `% W`, so that the theorems in
`Properties/C09.lean` are about what the code computes, not about ideal arithmetic. -/
namespace Zix.Bump

def W : Nat := 2 ^ 64
/-- `min_alignment = sizeof(uintmax_t)` -/
def minAlign : Nat := 8

/-- `round_up_multiple(number, factor)` for a power-of-two factor:
`(number + factor - 1) & ~(factor - 1)` in `size_t` arithmetic. -/
def roundUp (n f : Nat) : Nat :=
  let x := (n + f - 1) % W
  x - x % f

structure Block where
  off  : Nat      -- offset of the block in the buffer
  size : Nat      -- bytes requested by the caller
  id   : Nat
deriving Repr, DecidableEq

structure State where
  base : Nat        -- address of the buffer
  cap  : Nat
  top  : Nat
  last : Nat
  live : List Block -- shadow: blocks granted and not yet released by the caller
  next : Nat        -- next block id
deriving Repr

/-- `zix_bump_allocator(capacity, buffer)` -/
def init (base cap : Nat) : State :=
  let mis := base % minAlign
  let t := if mis = 0 then 0 else minAlign - mis
  { base := base, cap := cap, top := t, last := t, live := [], next := 1 }

/-- The size a request really occupies: a zero-size request still takes one aligned unit,
so that every block has its own address. -/
def realSize (size : Nat) : Nat := roundUp (if size = 0 then 1 else size) minAlign

/-- `zix_bump_malloc` on the raw state (no shadow bookkeeping). -/
def mallocRaw (s : State) (size : Nat) : State × Option Nat :=
  let rs := realSize size
  if rs < size ∨ s.top > s.cap ∨ rs > s.cap - s.top then (s, none)
  else ({ s with last := s.top, top := s.top + rs }, some s.top)

def grant (s : State) (off size : Nat) : State :=
  { s with live := ⟨off, size, s.next⟩ :: s.live, next := s.next + 1 }

def malloc (s : State) (size : Nat) : State × Option Nat :=
  match mallocRaw s size with
  | (s', some off) => (grant s' off size, some off)
  | (s', none) => (s', none)

/-- `zix_bump_calloc`: the product is checked for overflow before anything else. -/
def calloc (s : State) (nmemb size : Nat) : State × Option Nat :=
  if size ≠ 0 ∧ nmemb > (W - 1) / size then (s, none)
  else malloc s (nmemb * size)

/-- `zix_bump_realloc(ptr, size)` where `ptr` is the address `buffer + off`: only the last block,
and only while it has not been freed (`last < top`; after a free, and on a fresh allocator,
`top = last`). -/
def realloc (s : State) (off size : Nat) : State × Option Nat :=
  if off ≠ s.last ∨ s.last ≥ s.top then (s, none)
  else
    let rs := realSize size
    if rs < size ∨ s.last > s.cap ∨ rs > s.cap - s.last then (s, none)
    else
      ({ s with top := s.last + rs,
                live := s.live.map (fun b => if b.off = off then { b with size := size } else b) },
       some off)

/-- `zix_bump_free(ptr)` / `zix_bump_aligned_free(ptr)` for the live block with this id. -/
def free (s : State) (id : Nat) : State :=
  match s.live.find? (·.id = id) with
  | none => s
  | some b =>
    let s' := { s with live := s.live.filter (·.id ≠ id) }
    if b.off = s.last then { s' with top := s.last } else s'

/-- `zix_bump_aligned_alloc(alignment, size)`; `alignment` a power of two ≥ 8. -/
def alignedAlloc (s : State) (alignment size : Nat) : State × Option Nat :=
  let topAddr := (s.base + s.top) % W
  let aligned := roundUp topAddr alignment
  let offset := (aligned + W - topAddr) % W
  if s.top > s.cap ∨ offset > s.cap - s.top then (s, none)
  else
    match malloc { s with top := s.top + offset } size with
    | (s', some off) => (s', some off)
    | (_, none) => (s, none)

end Zix.Bump
