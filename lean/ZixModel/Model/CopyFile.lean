import ZixModel.Model.Errno
/-! Model of `zix_copy_file` (src/posix/filesystem_posix.c with src/system.c, as repaired) over an
abstract file system and a fault oracle.  Every system call's outcome comes from
`fault : Call → Nat → Option Fault` — "the n-th call of this kind fails / is short like this" —
an ARBITRARY function in the theorems.  `errno` is modelled: failing calls set it, successful calls
leave it unchanged (glibc), and the "catch errno at any point" logic of `zix_system_close_fds` is
transcribed literally. -/
namespace Zix.CopyFile
open Zix.Errno

inductive Call where
  | openSrc | fstatSrc | openDst | fstatDst | ftruncate | cfr | alloc | read | write | free | fdatasync | closeDst | closeSrc
deriving Repr, DecidableEq

inductive Fault where
  | err (e : Int)        -- the call fails with this errno (alloc: any value = refused; free: the release
                         -- cannot fail, it leaves this value in errno)
  | short (n : Nat)      -- read/write/copy_file_range transfer only n bytes (n ≥ 1 honoured by the generator)
deriving Repr, DecidableEq

/-- What the destination path refers to before the call. -/
inductive Dst where
  | absent
  | file (content : List Nat)
  | sameAsSrc            -- identical path, hard link or symlink to the source: the same inode
  | directory
deriving Repr, DecidableEq

inductive SrcKind where
  | regular | directory | fifo | missing
deriving Repr, DecidableEq

structure World where
  srcKind : SrcKind
  src     : List Nat          -- source bytes
  dst     : Dst
  blk     : Nat               -- max(st_blksize) of the two files
  sizeKnown : Bool := true    -- false: `st_size` is reported as 0 whatever the content (procfs text files)
deriving Repr

structure St where
  src    : List Nat           -- source content (never written by the model; `srcTouched` records a truncation)
  srcTouched : Bool
  dst    : Option (List Nat)  -- destination content; `none` = no such file
  errno  : Int
  counts : List (Call × Nat)  -- calls made so far, per kind
  trace  : List String
  opened : Nat                -- descriptors opened
  closed : Nat                -- descriptors closed
deriving Repr

def St.count (s : St) (c : Call) : Nat := (s.counts.lookup c).getD 0
def St.bump (s : St) (c : Call) : St :=
  { s with counts := (c, s.count c + 1) :: s.counts.filter (·.1 ≠ c) }

def callName : Call → String
  | .openSrc => "open-src" | .fstatSrc => "fstat-src" | .openDst => "open-dst"
  | .fstatDst => "fstat-dst" | .ftruncate => "ftruncate" | .cfr => "cfr" | .alloc => "alloc" | .read => "read" | .write => "write"
  | .free => "free" | .fdatasync => "fdatasync" | .closeDst => "close-dst" | .closeSrc => "close-src"

/-- Issue one call: look up its fault, count it, log it. -/
def issue (fault : Call → Nat → Option Fault) (s : St) (c : Call) : St × Option Fault :=
  let f := fault c (s.count c)
  let s := s.bump c
  let tag := match f with
    | none => "ok" | some (.err e) => s!"E{e}" | some (.short n) => s!"short{n}"
  ({ s with trace := s.trace ++ [s!"{callName c}:{tag}"] }, f)

def EXDEV : Int := 18
def EINVAL : Int := 22
def ENOSYS : Int := 38
def EEXIST : Int := 17
def EISDIR : Int := 21
def ENOENT : Int := 2
def EIO : Int := 5

def stBadArg : Int := 5
def stError : Int := 1

/-- `zix_system_close_fds(fd1, fd2)` as called by `finish_copy(dst_fd, src_fd, …)`: the destination is
closed first, then the source; `have1`/`have2` say whether the fds are open. -/
def closeFds (fault : Call → Nat → Option Fault) (s : St) (have1 have2 : Bool) : St × Int :=
  let st0 := errnoStatus s.errno
  let (s, r1fail) :=
    if have1 then
      match issue fault s .closeDst with
      | (s, some (.err e)) => ({ s with errno := e, closed := s.closed + 1 }, true)
      | (s, _) => ({ s with closed := s.closed + 1 }, false)
    else (s, false)
  let st1 := if r1fail then errnoStatus s.errno else 0
  let (s, r2fail) :=
    if have2 then
      match issue fault s .closeSrc with
      | (s, some (.err e)) => ({ s with errno := e, closed := s.closed + 1 }, true)
      | (s, _) => ({ s with closed := s.closed + 1 }, false)
    else (s, false)
  let st2 := if r2fail then errnoStatus s.errno else 0
  (s, if st0 ≠ 0 then st0 else if st1 ≠ 0 then st1 else st2)

/-- `finish_copy(dst_fd, src_fd, status)` -/
def finishCopy (fault : Call → Nat → Option Fault) (s : St) (haveDst haveSrc : Bool) (status : Int) : St × Int :=
  let (s, st0) :=
    if haveDst then
      match issue fault s .fdatasync with
      | (s, some (.err e)) => ({ s with errno := e }, errnoStatus e)
      | (s, _) => (s, 0)
    else (s, 0)
  let (s, st1) := closeFds fault s haveDst haveSrc
  (s, if status ≠ 0 then status else if st0 ≠ 0 then st0 else st1)

/-- The `copy_file_range` loop: returns the state and `some status`, or `none` for NOT_SUPPORTED. -/
def cfrLoop (fault : Call → Nat → Option Fault) : (fuel : Nat) → St → (remaining : Nat) → St × Option Int
  | 0, s, _ => (s, some 0)
  | fuel + 1, s, remaining =>
    if remaining = 0 then (s, some 0)
    else
      match issue fault s .cfr with
      | (s, some (.err e)) =>
        let s := { s with errno := e }
        let e' := if e = EXDEV ∨ e = EINVAL then ENOSYS else e
        if errnoStatus e' = 10 then (s, none) else (s, some (errnoStatus e'))
      | (s, f) =>
        let k := match f with | some (.short n) => min (max n 1) remaining | _ => remaining
        let off := s.src.length - remaining
        let s := { s with dst := some ((s.dst.getD []) ++ (s.src.drop off).take k) }
        cfrLoop fault fuel s (remaining - k)

/-- Write `chunk` completely, retrying after short writes; `some status` on failure. -/
def writeAll (fault : Call → Nat → Option Fault) : (fuel : Nat) → St → List Nat → St × Option Int
  | 0, s, _ => (s, some stError)
  | fuel + 1, s, chunk =>
    if chunk = [] then (s, none)
    else
      match issue fault s .write with
      | (s, some (.err e)) => ({ s with errno := e }, some (errnoStatus e))
      | (s, f) =>
        let k := match f with | some (.short n) => min n chunk.length | _ => chunk.length
        if k = 0 then (s, some stError)   -- a write that makes no progress
        else
          let s := { s with dst := some ((s.dst.getD []) ++ chunk.take k) }
          writeAll fault fuel s (chunk.drop k)

/-- `copy_blocks`: read a buffer, write it out, until EOF. -/
def copyBlocks (fault : Call → Nat → Option Fault) (bufSize : Nat) : (fuel : Nat) → St → (off : Nat) → St × Int
  | 0, s, _ => (s, 0)
  | fuel + 1, s, off =>
    match issue fault s .read with
    | (s, some (.err e)) => ({ s with errno := e }, errnoStatus e)
    | (s, f) =>
      let avail := min bufSize (s.src.length - off)
      let k := match f with | some (.short n) => min (max n 1) avail | _ => avail
      if k = 0 then (s, 0)    -- EOF
      else
        match writeAll fault (k + 1) s ((s.src.drop off).take k) with
        | (s, some st) => (s, st)
        | (s, none) => copyBlocks fault bufSize fuel s (off + k)

structure Result where
  status : Int
  st     : St

/-- `zix_copy_file(allocator, src, dst, options)` -/
def copyFile (w : World) (overwrite : Bool) (fault : Call → Nat → Option Fault) : Result :=
  let s0 : St := { src := w.src, srcTouched := false,
                   dst := (match w.dst with | .absent => none | .file c => some c | .sameAsSrc => some w.src | .directory => none),
                   errno := 0, counts := [], trace := [], opened := 0, closed := 0 }
  -- open source
  let (s, f) := issue fault s0 .openSrc
  let openErr : Option Int := match f with
    | some (.err e) => some e
    | _ => if w.srcKind = .missing then some ENOENT else none
  match openErr with
  | some e =>
    let (s, st) := finishCopy fault { s with errno := e } false false (errnoStatus e)
    ⟨st, s⟩
  | none =>
    let s := { s with opened := s.opened + 1 }
    match issue fault s .fstatSrc with
    | (s, some (.err e)) =>
      let (s, st) := finishCopy fault { s with errno := e } false true (errnoStatus e)
      ⟨st, s⟩
    | (s, _) =>
      if w.srcKind ≠ .regular then
        let (s, st) := finishCopy fault s false true stBadArg
        ⟨st, s⟩
      else
        -- open destination (created if absent; not truncated yet)
        let (s, f) := issue fault s .openDst
        let dstErr : Option Int := match f with
          | some (.err e) => some e
          | _ => match w.dst with
            | .directory => some (if overwrite then EISDIR else EEXIST)
            | .absent => none
            | _ => if overwrite then none else some EEXIST
        match dstErr with
        | some e =>
          let (s, st) := finishCopy fault { s with errno := e } false true (errnoStatus e)
          ⟨st, s⟩
        | none =>
          let s := { s with opened := s.opened + 1, dst := (match s.dst with | none => some [] | d => d) }
          match issue fault s .fstatDst with
          | (s, some (.err e)) =>
            let (s, st) := finishCopy fault { s with errno := e } true true (errnoStatus e)
            ⟨st, s⟩
          | (s, _) =>
            if w.dst == .sameAsSrc then
              -- the destination is the source itself: refuse, nothing has been truncated
              let (s, st) := finishCopy fault s true true stBadArg
              ⟨st, s⟩
            else
              -- discard the old content
              let (s, truncErr) : St × Option Int :=
                if overwrite then
                  match issue fault s .ftruncate with
                  | (s, some (.err e)) => ({ s with errno := e }, some e)
                  | (s, _) => ({ s with dst := some [] }, none)
                else (s, none)
              match truncErr with
              | some e =>
                let (s, st) := finishCopy fault s true true (errnoStatus e)
                ⟨st, s⟩
              | none =>
                -- user-space copy from offset `done` (used when the kernel copy is unavailable or the source
                -- reports no size): block or stack buffer, read/write loop, release, `errno = 0`, finish
                let fallback (s : St) : Result :=
                  let done := (s.dst.getD []).length
                  let (s, f) := issue fault s .alloc
                  let bufSize := match f with | some _ => 512 | none => w.blk
                  let s := { s with errno := 0 }
                  let (s, st) := copyBlocks fault bufSize (s.src.length + 2) s done
                  -- `zix_aligned_free` (always called, with NULL when the block was refused) may leave errno set
                  let s := match issue fault s .free with
                    | (s, some (.err e)) => { s with errno := e }
                    | (s, _) => s
                  let s := { s with errno := 0 }
                  let (s, st) := finishCopy fault s true true st
                  ⟨st, s⟩
                -- kernel copy, only for a source that reports a size (`st_size > 0`)
                let reported := if w.sizeKnown then s.src.length else 0
                if reported = 0 then fallback s
                else
                  let s := { s with errno := 0 }
                  match cfrLoop fault (s.src.length + 1) s reported with
                  | (s, some st) =>
                    let (s, st) := finishCopy fault s true true st
                    ⟨st, s⟩
                  | (s, none) =>
                    -- what cfr copied so far stays, the file offsets have advanced by it
                    fallback s

end Zix.CopyFile
