import ZixModel.Generated.DigestConst
/-! Model of src/digest.c on `BitVec 64` / `BitVec 32`.  Buffers are byte lists (`Nat < 256`);
blocks are read little-endian (`memcpy` into an integer on the platforms this sandbox builds
for), the tail is assembled byte by byte as the `switch` does.  Constants are regenerated from
the source on every run. -/
namespace Zix.Digest
open Zix.Generated

def leWord64 (bs : List Nat) : BitVec 64 :=
  bs.foldr (fun b acc => (acc <<< 8) ||| BitVec.ofNat 64 b) 0

def leWord32 (bs : List Nat) : BitVec 32 :=
  bs.foldr (fun b acc => (acc <<< 8) ||| BitVec.ofNat 32 b) 0

def mix64 (h : BitVec 64) : BitVec 64 :=
  let h := h ^^^ (h >>> mix64Shift1)
  let h := h * BitVec.ofNat 64 mix64Mul
  h ^^^ (h >>> mix64Shift2)

/-- One block step of fasthash64: `h ^= mix64(k); h *= m`. -/
def step64 (m : BitVec 64) (h k : BitVec 64) : BitVec 64 := (h ^^^ mix64 k) * m

/-- The block loop followed by the tail `switch` of `zix_digest64`. -/
def body64 (m : BitVec 64) : BitVec 64 → List Nat → BitVec 64
  | h, b0 :: b1 :: b2 :: b3 :: b4 :: b5 :: b6 :: b7 :: rest =>
    body64 m (step64 m h (leWord64 [b0, b1, b2, b3, b4, b5, b6, b7])) rest
  | h, [] => h
  | h, tail => step64 m h (leWord64 tail)

def digest64 (seed : BitVec 64) (data : List Nat) : BitVec 64 :=
  let m := BitVec.ofNat 64 d64Mul
  mix64 (body64 m (seed ^^^ (BitVec.ofNat 64 data.length * m)) data)

/-- `zix_digest64_aligned` on a buffer of whole 64-bit words. -/
def digest64Aligned (seed : BitVec 64) (words : List (BitVec 64)) : BitVec 64 :=
  let m := BitVec.ofNat 64 d64MulAligned
  mix64 (words.foldl (step64 m) (seed ^^^ (BitVec.ofNat 64 (8 * words.length) * m)))

def rotl32 (v : BitVec 32) (n : Nat) : BitVec 32 := (v <<< n) ||| (v >>> (32 - n))

def mix32 (h : BitVec 32) : BitVec 32 :=
  let h := h ^^^ (h >>> mix32Shift1)
  let h := h * BitVec.ofNat 32 mix32Mul1
  let h := h ^^^ (h >>> mix32Shift2)
  let h := h * BitVec.ofNat 32 mix32Mul2
  h ^^^ (h >>> mix32Shift3)

/-- `k *= c1; k = rotl32(k, r1); k *= c2` -/
def scramble32 (c1 c2 : BitVec 32) (r1 : Nat) (k : BitVec 32) : BitVec 32 :=
  rotl32 (k * c1) r1 * c2

structure K32 where
  c1 : BitVec 32
  c2 : BitVec 32
  r1 : Nat
  r2 : Nat
  mul : BitVec 32
  add : BitVec 32

def k32 : K32 := ⟨.ofNat 32 d32C1, .ofNat 32 d32C2, d32Rot1, d32Rot2, .ofNat 32 d32Mul, .ofNat 32 d32Add⟩
def k32Aligned : K32 :=
  ⟨.ofNat 32 d32C1Aligned, .ofNat 32 d32C2Aligned, d32Rot1Aligned, d32Rot2Aligned, .ofNat 32 d32MulAligned, .ofNat 32 d32AddAligned⟩

/-- One block step of MurmurHash3_x86_32. -/
def step32 (c : K32) (h k : BitVec 32) : BitVec 32 :=
  rotl32 (h ^^^ scramble32 c.c1 c.c2 c.r1 k) c.r2 * c.mul + c.add

def body32 (c : K32) : BitVec 32 → List Nat → BitVec 32
  | h, b0 :: b1 :: b2 :: b3 :: rest => body32 c (step32 c h (leWord32 [b0, b1, b2, b3])) rest
  | h, [] => h
  | h, tail => h ^^^ scramble32 c.c1 c.c2 c.r1 (leWord32 tail)

def digest32 (seed : BitVec 32) (data : List Nat) : BitVec 32 :=
  mix32 (body32 k32 seed data ^^^ BitVec.ofNat 32 data.length)

def digest32Aligned (seed : BitVec 32) (words : List (BitVec 32)) : BitVec 32 :=
  mix32 (words.foldl (step32 k32Aligned) seed ^^^ BitVec.ofNat 32 (4 * words.length))

/-- `zix_digest`: the variant of the native word size (64-bit here; the `#if` is regenerated). -/
def digestNative (seed : BitVec 64) (data : List Nat) : BitVec 64 :=
  if nativeIs64 then digest64 seed data else (digest32 (seed.setWidth 32) data).setWidth 64

def bytesOfWord64 (w : BitVec 64) : List Nat := (List.range 8).map (fun i => (w >>> (8 * i)).toNat % 256)
def bytesOfWord32 (w : BitVec 32) : List Nat := (List.range 4).map (fun i => (w >>> (8 * i)).toNat % 256)

end Zix.Digest
