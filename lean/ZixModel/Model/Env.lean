/-! Model of `zix_expand_environment_strings` (src/posix/environment_posix.c, as repaired).
Strings are NUL-free byte lists; reading index `i ≥ length` yields the terminating 0, as in C.
The scanner is the C loop over the three indices `(s, start)` and the inner `t`; it takes a fuel
argument and "fuel `length + 1` suffices" is a theorem (`Properties/C16`), not an assumption. -/
namespace Zix.Env

def isVarChar (c : Nat) : Bool := (48 ≤ c && c ≤ 57) || (65 ≤ c && c ≤ 90) || c == 95
def isPathDelim (c : Nat) : Bool := c == 47 || c == 58 || c == 0

/-- `string[i]` with the terminating NUL. -/
def at' (str : List Nat) (i : Nat) : Nat := str.getD i 0

/-- `find_env`: the first entry that starts with `name` followed by '='; returns the value. -/
def findEnv (env : List (List Nat)) (name : List Nat) : Option (List Nat) :=
  match env with
  | [] => none
  | e :: rest =>
    if e.take name.length = name ∧ at' e name.length = 61 then some (e.drop (name.length + 1))
    else findEnv rest name

/-- `append_var`: the value if the variable is set, else the reference as written. -/
def varText (env : List (List Nat)) (ref : List Nat) : List Nat :=
  match findEnv env (ref.drop 1) with
  | some v => v
  | none => ref

def homeName : List Nat := [72, 79, 77, 69]   -- "HOME"

/-- The text a home reference becomes: HOME's value when it is set, else the '~' as written. -/
def homeText (env : List (List Nat)) : List Nat :=
  match findEnv env homeName with
  | some v => v
  | none => [126]

/-- The inner `for (t = 1;; ++t)`: the least `t ≥ 1` with `string[s + t]` not a name character. -/
def refLen (str : List Nat) (s : Nat) : (t fuel : Nat) → Nat
  | t, 0 => t
  | t, fuel + 1 => if isVarChar (at' str (s + t)) then refLen str s (t + 1) fuel else t

/-- The main loop.  State: `s`, `start`, `out`.  Returns `none` when the fuel runs out. -/
def loop (env : List (List Nat)) (str : List Nat) : (fuel s start : Nat) → (out : List Nat) → Option (List Nat)
  | 0, _, _, _ => none
  | fuel + 1, s, start, out =>
    let c := at' str s
    if c = 0 then
      -- loop exit: copy the tail
      some (out ++ str.drop start)
    else if c = 36 ∧ isVarChar (at' str (s + 1)) then
      let t := refLen str s 1 str.length
      let out := out ++ (str.drop start).take (s - start) ++ varText env ((str.drop s).take t)
      loop env str fuel (s + t) (s + t) out
    else if c = 126 ∧ isPathDelim (at' str (s + 1)) ∧ (s = 0 ∨ isPathDelim (at' str (s - 1))) then
      let out := out ++ (str.drop start).take (s - start) ++ homeText env
      loop env str fuel (s + 1) (s + 1) out
    else
      loop env str fuel (s + 1) start out

/-- `zix_expand_environment_strings` with enough memory. -/
def expand (env : List (List Nat)) (str : List Nat) : Option (List Nat) :=
  loop env str (str.length + 1) 0 0 []

end Zix.Env
