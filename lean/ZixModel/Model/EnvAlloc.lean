import ZixModel.Model.Env
/-! Allocation behaviour of `zix_expand_environment_strings` (src/posix/environment_posix.c): the same
scanner as `Model/Env.lean`, but the output string lives in a block obtained from the caller's
allocator and grown with `realloc` by every `append_str`, and any request may be refused.

`fails : Nat → Bool` is an ARBITRARY oracle: is the k-th request (0-based, counted over the whole
call) refused.  Events are what the caller's allocator sees, in order. -/
namespace Zix.EnvAlloc
open Zix.Env

inductive Ev where
  | realloc (old : Option Nat) (size : Nat) (res : Option Nat)   -- block ids; `none` = NULL
  | free (b : Option Nat)
deriving Repr, DecidableEq

structure St where
  out  : Option (Nat × List Nat)   -- the output block: id and the bytes written so far (without the NUL)
  next : Nat                        -- next fresh block id
  req  : Nat                        -- requests made so far
  evs  : List Ev
deriving Repr

def init : St := { out := none, next := 1, req := 0, evs := [] }

/-- The events of a refused `append_str`: the refused request, then the release of the old block
(`zix_free(allocator, dst)`, also called with NULL when nothing had been allocated). -/
def refusedEvs (s : St) (suffix : List Nat) : List Ev :=
  let old := s.out.map (·.1)
  let content := (s.out.map (·.2)).getD []
  s.evs ++ [.realloc old (content.length + suffix.length + 1) none, .free old]

/-- `append_str(allocator, &len, out, suffix_len, suffix)`: the new state, or — when the request is
refused — the final event log (NULL is returned and the call gives up). -/
def appendStr (fails : Nat → Bool) (s : St) (suffix : List Nat) : St ⊕ List Ev :=
  let old := s.out.map (·.1)
  let content := (s.out.map (·.2)).getD []
  if fails s.req then .inr (refusedEvs s suffix)
  else .inl { out := some (s.next, content ++ suffix), next := s.next + 1, req := s.req + 1,
              evs := s.evs ++ [.realloc old (content.length + suffix.length + 1) (some s.next)] }

/-- Result of the whole call: the returned block (id, bytes) or NULL, and the event log. -/
structure Result where
  ret : Option (Nat × List Nat)
  evs : List Ev
deriving Repr

/-- Append `pre` (only when it is not empty, as the C code does) and then `text`. -/
def appendTwo (fails : Nat → Bool) (s : St) (pre text : List Nat) : St ⊕ List Ev :=
  match (if pre = [] then .inl s else appendStr fails s pre : St ⊕ List Ev) with
  | .inr e => .inr e
  | .inl s1 => appendStr fails s1 text

/-- The main loop of `Model/Env.lean` with the output in an allocated block. -/
def loop (fails : Nat → Bool) (env : List (List Nat)) (str : List Nat) :
    (fuel s start : Nat) → St → Option Result
  | 0, _, _, _ => none
  | fuel + 1, s, start, st =>
    let c := at' str s
    if c = 0 then
      -- loop exit: copy the tail when there is one, or when nothing has been allocated yet
      let tail := str.drop start
      if tail ≠ [] ∨ st.out.isNone then
        match appendStr fails st tail with
        | .inl st' => some ⟨st'.out, st'.evs⟩
        | .inr e => some ⟨none, e⟩
      else some ⟨st.out, st.evs⟩
    else if c = 36 ∧ isVarChar (at' str (s + 1)) then
      let t := refLen str s 1 str.length
      match appendTwo fails st ((str.drop start).take (s - start)) (varText env ((str.drop s).take t)) with
      | .inl st' => loop fails env str fuel (s + t) (s + t) st'
      | .inr e => some ⟨none, e⟩
    else if c = 126 ∧ isPathDelim (at' str (s + 1)) ∧ (s = 0 ∨ isPathDelim (at' str (s - 1))) then
      match appendTwo fails st ((str.drop start).take (s - start)) (homeText env) with
      | .inl st' => loop fails env str fuel (s + 1) (s + 1) st'
      | .inr e => some ⟨none, e⟩
    else
      loop fails env str fuel (s + 1) start st

/-- `zix_expand_environment_strings(allocator, string)` under the allocation oracle. -/
def expandA (fails : Nat → Bool) (env : List (List Nat)) (str : List Nat) : Option Result :=
  loop fails env str (str.length + 1) 0 0 init

/-- Blocks outstanding after a log: `realloc old _ (some b)` replaces `old` by `b`; a refused realloc
keeps `old`; `free (some b)` releases `b`.  `none` = the log is not well formed (a block that is not
outstanding was passed). -/
def outstanding : List Ev → List Nat → Option (List Nat)
  | [], live => some live
  | .realloc old _ res :: rest, live =>
    match old with
    | some o => if o ∈ live then
        (match res with | some b => outstanding rest (b :: live.erase o) | none => outstanding rest live)
      else none
    | none => (match res with | some b => outstanding rest (b :: live) | none => outstanding rest live)
  | .free (some b) :: rest, live => if b ∈ live then outstanding rest (live.erase b) else none
  | .free none :: rest, live => outstanding rest live

end Zix.EnvAlloc
