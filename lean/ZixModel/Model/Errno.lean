import ZixModel.Generated.Errno
/-! Model of `zix_errno_status` (src/errno_status.c): first matching row, else the fallback. -/
namespace Zix.Errno
open Zix.Generated

def errnoStatus (e : Int) : Int := (errnoMap.lookup e).getD errnoFallback

/-- `zix_errno_status_if(r)` / `zix_posix_status(rc)`: SUCCESS when the call returned 0. -/
def statusIf (r : Int) (errno : Int) : Int := if r = 0 then 0 else errnoStatus errno

def errnoOf (name : String) : Option Int := errnoNames.lookup name

end Zix.Errno
