import ZixModel.Generated.FileType
import ZixModel.Model.Path
import ZixModel.Spec.Cpp17Path
import ZixModel.Model.Errno
/-! Model of src/filesystem.c and the query part of src/posix/filesystem_posix.c (as repaired):
`stat_file_type` over the regenerated table, `zix_file_equals` as the page loop over byte lists,
`zix_create_directories` over an abstract, symlink-free directory tree using the component
iterator model of `Model/Path.lean` (the in-place NUL chopping is rendered as prefixes). -/
namespace Zix.Fs
open Zix.Generated Zix.Path

/-! ## file type -/

/-- `stat_file_type(sb)`: first row whose mask equals `st_mode & S_IFMT`, else the fallback. -/
def statFileType (mode : Nat) : Int :=
  ((fileTypeMap.find? (fun r => r.1 = mode &&& sIFMT)).map (·.2)).getD fileTypeFallback

/-- `zix_file_type`: `none` = stat failed. -/
def fileType (mode : Option Nat) : Int :=
  match mode with
  | none => fileTypeStatFails
  | some m => statFileType m

/-! ## file_equals -/

/-- The page loop: read up to `page` bytes from each, compare. -/
def pagesEqual (page : Nat) : (fuel : Nat) → List Nat → List Nat → Bool
  | 0, _, _ => true
  | fuel + 1, a, b =>
    let ca := a.take page
    if ca = [] then (b.take page).isEmpty   -- read(a) returned 0: the second file must have ended too
    else
      let cb := b.take page
      if cb.length ≠ ca.length ∨ ca ≠ cb then false
      else pagesEqual page fuel (a.drop page) (b.drop page)

/-- The core of `zix_file_equals` for two files that could be opened: contents `ca`, `cb`, and the sizes
`sa`, `sb` that `fstat` REPORTS for them (procfs text files, FIFOs and devices report 0 whatever
they hold).  `sameInode` = both paths lead to the same file.  Contents are compared when the
reported sizes are equal or one of them is zero (a reported zero says nothing).  When no page can
be allocated the comparison runs through 512-byte stack buffers. -/
def fileEqualsSized (ca cb : List Nat) (sa sb : Nat) (sameInode : Bool) (page : Nat) (allocOk : Bool) : Bool :=
  if sameInode then true
  else if sa = sb ∨ sa = 0 ∨ sb = 0 then
    pagesEqual (if allocOk then page else 512) (ca.length + 1) ca cb
  else false

/-- `zix_file_equals(path_a, path_b)` for two different paths naming ordinary files (the reported
size is the length): `none` = the file does not exist. -/
def fileEquals (a b : Option (List Nat)) (sameInode : Bool) (page : Nat) (allocOk : Bool) : Bool :=
  match a, b with
  | some ca, some cb => fileEqualsSized ca cb ca.length cb.length sameInode page allocOk
  | _, _ => false

/-- The inode fast path of `zix_file_equals`: the two descriptors are taken for the same file when the
device numbers agree and the inode numbers are non-zero and agree. -/
def sameInode (devA inoA devB inoB : Nat) : Bool :=
  devA = devB ∧ inoA ≠ 0 ∧ inoB ≠ 0 ∧ inoA = inoB

/-! ## create_directories over an abstract tree -/

inductive Kind where
  | dir | file
deriving Repr, DecidableEq

/-- Absolute paths (component lists, root = []) of everything that exists. -/
structure Tree where
  nodes : List (List (List Nat) × Kind)
  cwd   : List (List Nat)
deriving Repr

def Tree.kindOf (t : Tree) (p : List (List Nat)) : Option Kind :=
  if p = [] then some .dir else (t.nodes.find? (·.1 = p)).map (·.2)

/-- components of a string: split at '/', dropping empty ones -/
def comps (s : List Nat) : List (List Nat) :=
  (Zix.PathSpec.splitNames (s.dropWhile isSep)).filter (· ≠ [])

/-- Physical resolution of a path string: `none` = ENOENT/ENOTDIR on the way. -/
def resolve (t : Tree) (s : List Nat) : Option (List (List Nat)) :=
  let start : List (List Nat) := if isSep (s.headD 0) then [] else t.cwd
  (comps s).foldl (fun acc c =>
    match acc with
    | none => none
    | some cur =>
      if t.kindOf cur ≠ some .dir then none
      else if c = [dot] then some cur
      else if c = [dot, dot] then some cur.dropLast
      else some (cur ++ [c])) (some start)

/-- `stat(path)`: the kind of what the path names, if anything. -/
def statKind (t : Tree) (s : List Nat) : Option Kind :=
  match resolve t s with
  | some p => t.kindOf p
  | none => none

/-- `mkdir(path)`: the new tree, or an errno. -/
def mkdir (t : Tree) (s : List Nat) : Tree × Option Int :=
  let cs := comps s
  match cs.getLast? with
  | none => (t, some 17)    -- "/" or ".": exists
  | some last =>
    -- resolve the parent
    let parentStr : List (List Nat) := cs.dropLast
    let start : List (List Nat) := if isSep (s.headD 0) then [] else t.cwd
    let parent := parentStr.foldl (fun acc c =>
      match acc with
      | none => none
      | some cur =>
        if t.kindOf cur ≠ some .dir then none
        else if c = [dot] then some cur
        else if c = [dot, dot] then some cur.dropLast
        else some (cur ++ [c])) (some start)
    match parent with
    | none => (t, some 2)
    | some par =>
      if t.kindOf par = none then (t, some 2)
      else if t.kindOf par ≠ some .dir then (t, some 20)
      else if last = [dot] ∨ last = [dot, dot] then (t, some 17)
      else if (t.kindOf (par ++ [last])).isSome then (t, some 17)
      else ({ t with nodes := t.nodes ++ [(par ++ [last], .dir)] }, none)

/-- `zix_create_directories(dir_path)` with enough memory: the final tree and the status. -/
def createDirectories (t : Tree) (s : List Nat) : Tree × Int :=
  if s = [] then (t, 5)    -- BAD_ARG
  else
    let frames := (allFrames s).filter (fun f => f.state = .fileName)
    let rec go : List PathIter → Tree → Tree × Int
      | [], t => (t, 0)
      | f :: rest, t =>
        let pre := s.take f.range.2
        if statKind t pre = some .dir then go rest t
        else
          match mkdir t pre with
          | (t', none) => go rest t'
          | (t', some e) => (t', Zix.Errno.errnoStatus e)
    go frames t

end Zix.Fs
