import ZixModel.Model.Fs
/-! `zix_create_directories` over a directory tree WITH symbolic links, and generically over any
operating system.

* `createDirectoriesG stat mkdir` is the walk of src/filesystem.c written against two abstract
  system calls (`stat`: does this path string name a directory; `mkdir`: create it or fail with an
  errno) over an arbitrary state type.  The property theorems (`Properties/C15Link.lean`) are proved
  for EVERY state type and pair of calls that satisfies the three laws `OsLaws` — they do not depend
  on how paths are resolved.
* `Tree`/`walk`/`statKind`/`mkdir` below are one executable instance: POSIX path resolution with
  symbolic links (relative and absolute targets, links in the middle and at the end of a path,
  dangling links, loops).  The correspondence check runs the implementation on real trees with
  symbolic links against this instance. -/
namespace Zix.FsLink
open Zix.Path

/-! ## the walk, generic in the operating system -/

/-- `zix_create_directories(dir_path)` with enough memory, against abstract `stat`/`mkdir`.
`isDir σ p` = `zix_file_type(p) == ZIX_FILE_TYPE_DIRECTORY`; `mkdir σ p` = the new state, or an errno. -/
def createDirectoriesG {σ : Type} (isDir : σ → List Nat → Bool) (mkdir : σ → List Nat → σ × Option Int)
    (t : σ) (s : List Nat) : σ × Int :=
  if s = [] then (t, 5)    -- BAD_ARG
  else
    let frames := (allFrames s).filter (fun f => f.state = .fileName)
    let rec go : List PathIter → σ → σ × Int
      | [], t => (t, 0)
      | f :: rest, t =>
        let pre := s.take f.range.2
        if isDir t pre then go rest t
        else
          match mkdir t pre with
          | (t', none) => go rest t'
          | (t', some e) => (t', Zix.Errno.errnoStatus e)
    go frames t

/-- The same walk when other threads or processes act on the file system at the same time: `env k p`
is whatever they do between the `k`-th failed "is it a directory?" test and the `mkdir(p)` that
follows it (`k` counts the mkdir calls).  An `mkdir` that fails with a status of EXISTS is followed by
a second test of the same path: if it names a directory by now, the walk goes on. -/
def createDirectoriesE {σ : Type} (isDir : σ → List Nat → Bool) (mkdir : σ → List Nat → σ × Option Int)
    (env : Nat → List Nat → σ → σ) (t : σ) (s : List Nat) : σ × Int :=
  if s = [] then (t, 5)    -- BAD_ARG
  else
    let frames := (allFrames s).filter (fun f => f.state = .fileName)
    let rec go : List PathIter → Nat → σ → σ × Int
      | [], _, t => (t, 0)
      | f :: rest, k, t =>
        let pre := s.take f.range.2
        if isDir t pre then go rest k t
        else
          match mkdir (env k pre t) pre with
          | (t', none) => go rest (k + 1) t'
          | (t', some e) =>
            if Zix.Errno.errnoStatus e = 4 ∧ isDir t' pre then go rest (k + 1) t'
            else (t', Zix.Errno.errnoStatus e)
    go frames 0 t

/-! ## an instance: a tree with symbolic links -/

inductive Kind where
  | dir | file
  | link (target : List Nat)     -- the target string, as readlink returns it
deriving Repr, DecidableEq

/-- Physical absolute paths (component lists, root = []) of everything that exists. -/
structure Tree where
  nodes : List (List (List Nat) × Kind)
  cwd   : List (List Nat)
deriving Repr, DecidableEq

def Tree.lookup (t : Tree) (p : List (List Nat)) : Option Kind :=
  if p = [] then some .dir else (t.nodes.find? (·.1 = p)).map (·.2)

/-- components of a string: split at '/', dropping empty ones -/
def comps (s : List Nat) : List (List Nat) := Zix.Fs.comps s

/-- path_resolution(7): resolve the components `cs` from the physical directory `cur`, following
every symbolic link met (the target's components are spliced in front of the rest).  The result is
the physical path of what the path names, or an errno (2 ENOENT, 20 ENOTDIR, 40 ELOOP = the fuel,
which bounds the total number of steps, ran out). -/
def walk (t : Tree) : (fuel : Nat) → (cur : List (List Nat)) → (cs : List (List Nat)) → Except Int (List (List Nat))
  | 0, _, _ => .error 40
  | _ + 1, cur, [] => .ok cur
  | fuel + 1, cur, c :: rest =>
    match t.lookup cur with
    | some .dir =>
      if c = [dot] then walk t fuel cur rest
      else if c = [dot, dot] then walk t fuel cur.dropLast rest
      else
        match t.lookup (cur ++ [c]) with
        | none => .error 2
        | some (.link tgt) => walk t fuel (if isSep (tgt.headD 0) then [] else cur) (comps tgt ++ rest)
        | some _ => walk t fuel (cur ++ [c]) rest
    | some _ => .error 20
    | none => .error 2

def walkFuel : Nat := 4096

def Tree.start (t : Tree) (s : List Nat) : List (List Nat) := if isSep (s.headD 0) then [] else t.cwd

/-- `stat(path)`: the kind of what the path names after following every link (never `link`). -/
def statKind (t : Tree) (s : List Nat) : Option Kind :=
  if s = [] then none
  else
    match walk t walkFuel (t.start s) (comps s) with
    | .ok p => t.lookup p
    | .error _ => none

def isDir (t : Tree) (s : List Nat) : Bool := statKind t s = some .dir

/-- `realpath(path)` (what `zix_canonical_path` returns): the physical path of what the path names,
`none` when it names nothing (or, with a trailing separator, something that is not a directory). -/
def canonical (t : Tree) (s : List Nat) : Option (List (List Nat)) :=
  if s = [] then none
  else
    match walk t walkFuel (t.start s) (comps s) with
    | .ok p =>
      match t.lookup p with
      | some k => if isSep (s.getLastD 0) ∧ k ≠ .dir then none else some p
      | none => none
    | .error _ => none

/-- `mkdir(path)`: the new tree, or an errno.  The parent is resolved following links; the last
component is not followed (an existing entry of any kind, dangling link included, is EEXIST).
The parent is resolved with one step less than `stat` has, so that a directory that could be created
is always within reach of a later `stat` of the same path. -/
def mkdir (t : Tree) (s : List Nat) : Tree × Option Int :=
  let cs := comps s
  match cs.getLast? with
  | none => (t, some 17)    -- "/" : exists
  | some last =>
    match walk t (walkFuel - 1) (t.start s) cs.dropLast with
    | .error e => (t, some e)
    | .ok par =>
      if t.lookup par ≠ some .dir then (t, some 20)
      else if last = [dot] ∨ last = [dot, dot] then (t, some 17)
      else if (t.lookup (par ++ [last])).isSome then (t, some 17)
      else ({ t with nodes := t.nodes ++ [(par ++ [last], .dir)] }, none)

/-- `zix_create_directories` on a tree with symbolic links. -/
def createDirectories (t : Tree) (s : List Nat) : Tree × Int :=
  createDirectoriesG isDir mkdir t s

/-- What a racing creator does: before the mkdir calls whose index is in `dirs` it creates the same
path as a directory; before those in `files` it puts a file there (modelled as a node of kind
`file` under the resolved parent, when the parent resolves and the name is free). -/
def racer (dirs files : List Nat) (k : Nat) (p : List Nat) (t : Tree) : Tree :=
  if k ∈ dirs then (mkdir t p).1
  else if k ∈ files then
    match mkdir t p with
    | (t', none) =>
      match t'.nodes.getLast? with
      | some n => { t' with nodes := t'.nodes.dropLast ++ [(n.1, Kind.file)] }
      | none => t'
    | (t', some _) => t'
  else t

/-- `zix_create_directories` on a tree with symbolic links while a racing creator is active. -/
def createDirectoriesRace (dirs files : List Nat) (t : Tree) (s : List Nat) : Tree × Int :=
  createDirectoriesE isDir mkdir (racer dirs files) t s

end Zix.FsLink
