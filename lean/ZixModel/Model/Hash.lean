import ZixModel.Generated.HashConst
/-! Model of src/hash.c (as repaired): open addressing with linear probing and tombstones.
Records and keys are natural-number ids; `keyOf : rec → key` is the user's key accessor and the
hash code of each key is whatever the user's hash function returns (arbitrary).  User callbacks
are logged as events.  Probing takes a fuel argument; that `nEntries` always suffices is a theorem. -/
namespace Zix.Hash
open Zix.Generated

inductive Slot where
  | empty
  | tomb
  | live (code : Nat) (rec : Nat)
deriving Repr, DecidableEq, Inhabited

/-- User-callback events, in call order. -/
inductive Ev where
  | hash (key : Nat)            -- hash_func(key)
  | key (rec : Nat)             -- key_func(record)
  | eq (stored : Nat) (probe : Nat)  -- equal_func / predicate (key of a stored record, key being searched)
deriving Repr, DecidableEq

structure Table where
  slots : List Slot
  count : Nat
deriving Repr

def Table.n (t : Table) : Nat := t.slots.length

def new : Table := { slots := List.replicate hashMinEntries .empty, count := 0 }

def fold (code n : Nat) : Nat := code % n   -- `code & mask`, n a power of two
def nextIndex (n i : Nat) : Nat := if i + 1 = n then 0 else i + 1

/-- `find_entry` with the full-cycle guard: returns the index of the matching entry or of the first
empty slot, or `n` after a whole cycle.  `none` only if the fuel runs out. -/
def findEntry (keyOf : Nat → Nat) (slots : List Slot) (key code start : Nat) :
    (fuel i : Nat) → (evs : List Ev) → Option (Nat × List Ev)
  | 0, _, _ => none
  | fuel + 1, i, evs =>
    match slots.getD i .empty with
    | .empty => some (i, evs)
    | .tomb =>
      let j := nextIndex slots.length i
      if j = start then some (slots.length, evs) else findEntry keyOf slots key code start fuel j evs
    | .live c r =>
      if c = code then
        let evs := evs ++ [.key r, .eq (keyOf r) key]
        if keyOf r = key then some (i, evs)
        else
          let j := nextIndex slots.length i
          if j = start then some (slots.length, evs) else findEntry keyOf slots key code start fuel j evs
      else
        let j := nextIndex slots.length i
        if j = start then some (slots.length, evs) else findEntry keyOf slots key code start fuel j evs

/-- `zix_hash_plan_insert_prehashed`: index of the match, or of the first tombstone seen, or of the
first empty slot. -/
def planInsert (keyOf : Nat → Nat) (slots : List Slot) (key code start : Nat) :
    (fuel i : Nat) → (firstTomb : Option Nat) → (evs : List Ev) → Option (Nat × List Ev)
  | 0, _, _, _ => none
  | fuel + 1, i, ft, evs =>
    match slots.getD i .empty with
    | .empty => some (ft.getD i, evs)
    | .tomb =>
      let ft := if ft.isNone then some i else ft
      let j := nextIndex slots.length i
      if j = start then some (ft.getD j, evs) else planInsert keyOf slots key code start fuel j ft evs
    | .live c r =>
      if c = code then
        let evs := evs ++ [.key r, .eq (keyOf r) key]
        if keyOf r = key then some (i, evs)
        else
          let j := nextIndex slots.length i
          if j = start then some (ft.getD j, evs) else planInsert keyOf slots key code start fuel j ft evs
      else
        let j := nextIndex slots.length i
        if j = start then some (ft.getD j, evs) else planInsert keyOf slots key code start fuel j ft evs

/-- Reinsert every live entry of `old` (in index order) into a fresh table of `n` slots. -/
def rehashInto (keyOf : Nat → Nat) : (old : List Slot) → (fresh : List Slot) → (evs : List Ev) → List Slot × List Ev
  | [], fresh, evs => (fresh, evs)
  | .live c r :: rest, fresh, evs =>
    let evs := evs ++ [.key r]
    match findEntry keyOf fresh (keyOf r) c (fold c fresh.length) fresh.length (fold c fresh.length) evs with
    | some (i, evs) => rehashInto keyOf rest (fresh.set i (.live c r)) evs
    | none => rehashInto keyOf rest fresh evs
  | _ :: rest, fresh, evs => rehashInto keyOf rest fresh evs

def rehash (keyOf : Nat → Nat) (t : Table) (n : Nat) (evs : List Ev) : Table × List Ev :=
  let (s, evs) := rehashInto keyOf t.slots (List.replicate n .empty) evs
  ({ t with slots := s }, evs)

inductive Status where
  | success | exists_ | notFound | noMem | badArg
deriving Repr, DecidableEq

/-- `zix_hash_insert_at(position, record)`.  `allocOk` = the new table (if one is needed) can be allocated. -/
def insertAt (keyOf : Nat → Nat) (t : Table) (index code rec : Nat) (allocOk : Bool) (evs : List Ev) :
    Table × Status × List Ev :=
  match t.slots.getD index .empty with
  | .live _ _ => (t, .exists_, evs)
  | _ =>
    let t1 : Table := { t with slots := t.slots.set index (.live code rec) }
    let maxLoad := t.n / hashLoadDiv1 + t.n / hashLoadDiv2
    let newCount := t.count + 1
    if newCount ≥ maxLoad then
      if allocOk then
        let (t2, evs) := rehash keyOf t1 (t.n * 2) evs
        ({ t2 with count := newCount }, .success, evs)
      else (t, .noMem, evs)
    else ({ t1 with count := newCount }, .success, evs)

/-- `zix_hash_insert(record)`; `code` is what the user's hash function returns for the record's key. -/
def insert (keyOf : Nat → Nat) (t : Table) (rec code : Nat) (allocOk : Bool) : Table × Status × List Ev :=
  let key := keyOf rec
  let evs := [Ev.key rec, Ev.hash key]
  match planInsert keyOf t.slots key code (fold code t.n) t.n (fold code t.n) none evs with
  | some (i, evs) => insertAt keyOf t i code rec allocOk evs
  | none => (t, .noMem, evs)   -- unreachable (probe_terminates)

/-- `zix_hash_find(key)`: the iterator (slot index) or `none` for end. -/
def find (keyOf : Nat → Nat) (t : Table) (key code : Nat) : Option Nat × List Ev :=
  let evs := [Ev.hash key]
  match findEntry keyOf t.slots key code (fold code t.n) t.n (fold code t.n) evs with
  | some (i, evs) =>
    if i < t.n then
      match t.slots.getD i .empty with
      | .live _ _ => (some i, evs)
      | _ => (none, evs)
    else (none, evs)
  | none => (none, evs)

def recordAt (t : Table) (i : Nat) : Option Nat :=
  match t.slots.getD i .empty with
  | .live _ r => some r
  | _ => none

/-- `zix_hash_erase(i)` on a live slot `i`. -/
def erase (keyOf : Nat → Nat) (t : Table) (i : Nat) (allocOk : Bool) : Table × Status × Option Nat × List Ev :=
  let removed := recordAt t i
  let t1 : Table := { slots := t.slots.set i .tomb, count := t.count - 1 }
  if t1.count < t.n / hashShrinkDiv ∧ t.n > hashMinEntries then
    if allocOk then
      let (t2, evs) := rehash keyOf t1 (t.n / 2) []
      (t2, .success, removed, evs)
    else (t1, .noMem, removed, [])
  else (t1, .success, removed, [])

/-- `zix_hash_erase(i)` for ANY iterator value `i` (a live slot, a tombstone, an empty slot, the end
iterator `n`, or anything beyond): positions that hold no record are refused with BAD_ARG and
nothing is touched. -/
def eraseAt (keyOf : Nat → Nat) (t : Table) (i : Nat) (allocOk : Bool) : Table × Status × Option Nat × List Ev :=
  match recordAt t i with
  | none => (t, .badArg, none, [])
  | some _ => erase keyOf t i allocOk

/-- `zix_hash_remove(key)` -/
def remove (keyOf : Nat → Nat) (t : Table) (key code : Nat) (allocOk : Bool) : Table × Status × Option Nat × List Ev :=
  match find keyOf t key code with
  | (some i, evs) =>
    let (t', st, r, evs2) := erase keyOf t i allocOk
    (t', st, r, evs ++ evs2)
  | (none, evs) => (t, .notFound, none, evs)

/-- begin..end iteration: the live records in slot order. -/
def iterate (t : Table) : List Nat :=
  t.slots.filterMap (fun s => match s with | .live _ r => some r | _ => none)

end Zix.Hash
