import ZixModel.Generated.LockFlags
import ZixModel.Model.Errno
/-! Model of `zix_file_lock` / `zix_file_unlock` (flag expressions regenerated from the source) over
an abstract `flock` table: any number of open file descriptions (handles / processes) on one file. -/
namespace Zix.Lock
open Zix.Generated Zix.Errno

inductive Mode where
  | block | try_
deriving Repr, DecidableEq

def lockFlags : Mode → Nat
  | .block => lockFlagsBlock
  | .try_ => lockFlagsTry

def unlockFlags : Mode → Nat
  | .block => unlockFlagsBlock
  | .try_ => unlockFlagsTry

/-- The kernel's flock state for one file: which open file descriptions hold the exclusive lock. -/
structure Table where
  holders : List Nat
deriving Repr

inductive Res where
  | ok
  | wouldBlock        -- EWOULDBLOCK: returned at once
  | blocks            -- the call does not return until the lock can be granted
deriving Repr, DecidableEq

/-- `flock(fd, flags)` for the open file description `ofd` (exclusive locks and unlock only). -/
def flock (t : Table) (ofd : Nat) (flags : Nat) : Table × Res :=
  if flags &&& LOCK_UN ≠ 0 then ({ holders := t.holders.filter (· ≠ ofd) }, .ok)
  else if flags &&& LOCK_EX ≠ 0 then
    if t.holders.all (· = ofd) then ({ holders := [ofd] }, .ok)
    else if flags &&& LOCK_NB ≠ 0 then (t, .wouldBlock)
    else (t, .blocks)
  else (t, .ok)

def closeOfd (t : Table) (ofd : Nat) : Table := { holders := t.holders.filter (· ≠ ofd) }

/-- `zix_file_lock(file, mode)`: status, or `none` while the call is still blocked. -/
def fileLock (t : Table) (ofd : Nat) (mode : Mode) : Table × Option Int :=
  match flock t ofd (lockFlags mode) with
  | (t', .ok) => (t', some 0)
  | (t', .wouldBlock) => (t', some (errnoStatus 11))
  | (t', .blocks) => (t', none)

/-- `zix_file_lock` when signals interrupt the first `k` `flock` calls (each then fails with EINTR and
leaves the table as it was).  With the retry loop (`lockRetriesOnEintr`, regenerated from the source)
the call is simply made again; without it the first interruption is reported as an error.
Returns the table, the status (`none` = still blocked) and the number of `flock` calls made. -/
def fileLockSig (t : Table) (ofd : Nat) (mode : Mode) : (k : Nat) → Table × Option Int × Nat
  | 0 => let r := fileLock t ofd mode; (r.1, r.2, 1)
  | k + 1 =>
    if lockRetriesOnEintr then
      let r := fileLockSig t ofd mode k; (r.1, r.2.1, r.2.2 + 1)
    else (t, some (errnoStatus 4), 1)

def fileUnlock (t : Table) (ofd : Nat) (mode : Mode) : Table × Option Int :=
  match flock t ofd (unlockFlags mode) with
  | (t', .ok) => (t', some 0)
  | (t', .wouldBlock) => (t', some (errnoStatus 11))
  | (t', .blocks) => (t', none)

inductive Op where
  | lock (ofd : Nat) (mode : Mode)
  | unlock (ofd : Nat) (mode : Mode)
  | close (ofd : Nat)
deriving Repr

def step (t : Table) : Op → Table
  | .lock o m => (fileLock t o m).1
  | .unlock o m => (fileUnlock t o m).1
  | .close o => closeOfd t o

end Zix.Lock
