/-! Model of src/path.c (POSIX build, as repaired).  Strings are NUL-free byte lists; index `i ≥ length`
reads the terminating 0.  Decomposition functions return index ranges `(begin, end)` into the input,
written as the C code's scans (which separator of a leading run, backward scans for parent and
filename, last-dot rule).  `normalize` is the element-by-element algorithm of the repaired
`zix_path_lexically_normal`; `relative` uses the model of the component iterator
(`zix_path_begin`/`zix_path_next`), which `zix_create_directories` uses too. -/
namespace Zix.Path

def sep : Nat := 47
def dot : Nat := 46
def isSep (c : Nat) : Bool := c == sep

def at' (s : List Nat) (i : Nat) : Nat := s.getD i 0

abbrev Range := Nat × Nat
def Range.isEmpty (r : Range) : Bool := r.1 == r.2
def slice (s : List Nat) (r : Range) : List Nat := (s.drop r.1).take (r.2 - r.1)

/-! ## root -/

def leadingSeps (s : List Nat) : Nat := (s.takeWhile isSep).length

/-- `zix_path_root_slices(path).dir`: the LAST separator of a leading run. -/
def rootDirRange (s : List Nat) : Range :=
  let k := leadingSeps s
  if k = 0 then (0, 0) else (k - 1, k)

/-- `zix_path_root_path_range` (no root names on POSIX) -/
def rootPathRange (s : List Nat) : Range := rootDirRange s

def relativeRange (s : List Nat) : Range := ((rootPathRange s).2, s.length)

/-! ## parent, filename, stem, extension -/

/-- `while (l > p && is_dir_sep(path[l - 1])) --l;` -/
def rewindSeps (s : List Nat) (p : Nat) : Nat → Nat
  | 0 => 0
  | l + 1 => if l + 1 > p ∧ isSep (at' s l) then rewindSeps s p l else l + 1

/-- `while (l > p && !is_dir_sep(path[l])) --l;` -/
def rewindName (s : List Nat) (p : Nat) : Nat → Nat
  | 0 => 0
  | l + 1 => if l + 1 > p ∧ !isSep (at' s (l + 1)) then rewindName s p l else l + 1

/-- `while (l > p && is_dir_sep(path[l])) --l;` -/
def dropSeps (s : List Nat) (p : Nat) : Nat → Nat
  | 0 => 0
  | l + 1 => if l + 1 > p ∧ isSep (at' s (l + 1)) then dropSeps s p l else l + 1

def parentRange (s : List Nat) : Range :=
  if s.length = 0 then (0, 0)
  else
    let root := rootPathRange s
    let p := root.1
    let l0 := s.length - 1
    let l1 := if isSep (at' s l0) then rewindSeps s p l0 else rewindName s p l0
    if l1 ≤ root.2 then root
    else
      let l2 := dropSeps s p l1
      (root.1, root.1 + l2 + 1 - p)

/-- `while (f > begin && !is_dir_sep(path[f - 1])) --f;` -/
def rewindToSep (s : List Nat) (b : Nat) : Nat → Nat
  | 0 => 0
  | f + 1 => if f + 1 > b ∧ !isSep (at' s f) then rewindToSep s b f else f + 1

def filenameRange (s : List Nat) : Range :=
  if s.length = 0 then (0, 0)
  else
    let b := (rootPathRange s).2
    if b = s.length ∨ isSep (at' s (s.length - 1)) then (0, 0)
    else (rewindToSep s b (s.length - 1), s.length)

/-- `--end; while (end > begin && path[end] != '.') --end;` -/
def rewindToDot (s : List Nat) (b : Nat) : Nat → Nat
  | 0 => 0
  | e + 1 => if e + 1 > b ∧ at' s (e + 1) ≠ dot then rewindToDot s b e else e + 1

def stemRange (s : List Nat) : Range :=
  let name := filenameRange s
  let stem : Range :=
    if !name.isEmpty ∧ slice s name ≠ [dot] ∧ slice s name ≠ [dot, dot] then
      (name.1, rewindToDot s name.1 (name.2 - 1))
    else name
  if stem.isEmpty then name else stem

def extensionRange (s : List Nat) : Range :=
  let stem := stemRange s
  if stem.isEmpty then stem else (stem.2, s.length)

def isAbsolute (s : List Nat) : Bool := isSep (at' s 0)

/-- The nine `has_*` / `is_absolute` answers in the harness's order. -/
def queries (s : List Nat) : List Bool :=
  [ !(rootPathRange s).isEmpty, false, !(rootDirRange s).isEmpty, at' s (rootPathRange s).2 ≠ 0,
    !(parentRange s).isEmpty, !(filenameRange s).isEmpty, !(stemRange s).isEmpty, !(extensionRange s).isEmpty,
    isAbsolute s ]

/-! ## the component iterator -/

inductive IterState where
  | rootName | rootDir | fileName | end_
deriving Repr, DecidableEq

structure PathIter where
  range : Range
  state : IterState
deriving Repr, DecidableEq

def skipSeps (s : List Nat) : (fuel i : Nat) → Nat
  | 0, i => i
  | fuel + 1, i => if isSep (at' s i) then skipSeps s fuel (i + 1) else i

def skipName (s : List Nat) : (fuel i : Nat) → Nat
  | 0, i => i
  | fuel + 1, i => if at' s i ≠ 0 ∧ !isSep (at' s i) then skipName s fuel (i + 1) else i

/-- `zix_path_next` -/
def next (s : List Nat) (it : PathIter) : PathIter :=
  if it.state = .rootName ∧ isSep (at' s it.range.2) then
    ⟨(it.range.2, it.range.2 + 1), .rootDir⟩
  else
    let it : PathIter :=
      if it.state = .rootName ∨ it.state = .rootDir then
        let e := skipSeps s (s.length + 1) it.range.2
        ⟨(e, e), .fileName⟩
      else it
    if it.state = .fileName then
      let b := it.range.2
      if at' s b = 0 then ⟨(b, it.range.2), .end_⟩
      else
        let b' := skipSeps s (s.length + 1) b
        let e := skipName s (s.length + 1) b'
        ⟨(b', e), .fileName⟩
    else it

/-- `zix_path_begin` (the root name is always empty on POSIX) -/
def begin (s : List Nat) : PathIter := next s ⟨(0, 0), .rootName⟩

/-- All frames the iterator yields before END. -/
def frames (s : List Nat) : (fuel : Nat) → PathIter → List PathIter
  | 0, _ => []
  | fuel + 1, it => if it.state = .end_ then [] else it :: frames s fuel (next s it)

def allFrames (s : List Nat) : List PathIter := frames s (s.length + 2) (begin s)

/-! ## lexically_normal -/

/-- The elements of the relative part, each with "a separator follows". -/
def relElems (s : List Nat) : (fuel i : Nat) → List (List Nat × Bool)
  | 0, _ => []
  | fuel + 1, i =>
    if i ≥ s.length then []
    else
      let e := skipName s (s.length + 1) i
      let nxt := skipSeps s (s.length + 1) e
      ((s.drop i).take (e - i), decide (e < s.length)) :: relElems s fuel nxt

/-- Start of the last element of `out` (after `rootLen`), ignoring one trailing separator. -/
def lastElemStart (out : List Nat) (rootLen : Nat) : Nat :=
  let lastEnd := if out.length > rootLen ∧ out.getLastD 0 = sep then out.length - 1 else out.length
  let body := (out.take lastEnd).drop rootLen
  -- length of the suffix of `body` without separator
  lastEnd - (body.reverse.takeWhile (fun c => c ≠ sep)).length

def lastIsUp (out : List Nat) (rootLen : Nat) : Bool :=
  let lastEnd := if out.length > rootLen ∧ out.getLastD 0 = sep then out.length - 1 else out.length
  let st := lastElemStart out rootLen
  (out.take lastEnd).drop st == [dot, dot]

def normStep (rootLen : Nat) (hasRootDir : Bool) (out : List Nat) (el : List Nat × Bool) : List Nat :=
  let (name, followed) := el
  if name = [dot] then out
  else if name = [dot, dot] then
    if out.length > rootLen ∧ !lastIsUp out rootLen then out.take (lastElemStart out rootLen)
    else if !hasRootDir ∨ out.length > rootLen then out ++ [dot, dot] ++ (if followed then [sep] else [])
    else out
  else out ++ name ++ (if followed then [sep] else [])

/-- `zix_path_lexically_normal` when memory is available. -/
def normalize (s : List Nat) : List Nat :=
  if s = [] then []
  else
    let root := rootPathRange s
    let rootOut : List Nat := (slice s root).map (fun c => if isSep c then sep else c)
    let rootLen := rootOut.length
    let hasRootDir := rootLen > 0 ∧ rootOut.getLastD 0 = sep
    let out := (relElems s (s.length + 1) root.2).foldl (normStep rootLen hasRootDir) rootOut
    -- remove any separator after a trailing dot-dot entry
    let r := out.length
    let out :=
      if r ≥ rootLen + 3 ∧ out.getD (r - 1) 0 = sep ∧ out.getD (r - 2) 0 = dot ∧ out.getD (r - 3) 0 = dot ∧
         (r = rootLen + 3 ∨ out.getD (r - 4) 0 = sep) then out.dropLast
      else out
    if out = [] then [dot] else out

/-! ## join, preferred -/

/-- `zix_path_join(a, b)`; `none` stands for a NULL argument. -/
def join (a b : Option (List Nat)) : List Nat :=
  let bs := b.getD []
  match a with
  | none => bs
  | some [] => bs
  | some as =>
    let bHasRootDir := !(rootDirRange bs).isEmpty
    let aHasFilename := !(filenameRange as).isEmpty
    if bHasRootDir then bs
    else if aHasFilename then as ++ [sep] ++ bs
    else as ++ bs

def preferred (s : List Nat) : List Nat := s.map (fun c => if isSep c then sep else c)

/-! ## lexically_relative -/

def rangeText (s : List Nat) (it : PathIter) : List Nat := slice s it.range

/-- Advance both iterators while they are at equal elements. -/
def skipCommon (p b : List Nat) : (fuel : Nat) → PathIter → PathIter → PathIter × PathIter
  | 0, x, y => (x, y)
  | fuel + 1, x, y =>
    if x.state ≠ .end_ ∧ y.state ≠ .end_ ∧ x.state = y.state ∧ rangeText p x = rangeText b y then
      skipCommon p b fuel (next p x) (next b y)
    else (x, y)

/-- Count `..` and real names among the remaining elements of base. -/
def countBase (b : List Nat) : (fuel : Nat) → PathIter → Nat × Nat → Nat × Nat
  | 0, _, acc => acc
  | fuel + 1, y, (up, names) =>
    if y.state = .end_ then (up, names)
    else
      let t := rangeText b y
      let acc := if t = [] then (up, names) else if t = [dot, dot] then (up + 1, names) else if t = [dot] then (up, names) else (up, names + 1)
      countBase b fuel (next b y) acc

/-- `zix_path_lexically_relative(path, base)` when memory is available; `none` = NULL. -/
def relative (p b : List Nat) : Option (List Nat) :=
  let pHasRoot := !(rootDirRange p).isEmpty
  let bHasRoot := !(rootDirRange b).isEmpty
  if isAbsolute p ≠ isAbsolute b ∨ (!pHasRoot ∧ bHasRoot) then none
  else
    let (x, y) := skipCommon p b (p.length + b.length + 4) (begin p) (begin b)
    if (x.state = .end_ ∧ y.state = .end_) ∨ (x.range.isEmpty ∧ y.state = .end_) then some [dot]
    else
      let (nUp, nNames) := countBase b (b.length + 2) y (0, 0)
      if nUp > nNames then none
      else
        let up := if x.state = .rootDir then 0 else nNames - nUp
        if up = 0 ∧ (x.state = .end_ ∨ x.range.isEmpty) then some [dot]
        else
          let ups : List Nat := (List.replicate up [dot, dot]).foldl (fun acc u => if acc = [] then u else acc ++ [sep] ++ u) []
          if x.range.1 < p.length then
            let suffix := p.drop x.range.1
            some (if ups = [] then suffix else ups ++ [sep] ++ suffix)
          else if up > 0 ∧ x.state ≠ .end_ then some (ups ++ [p.getLastD 0])
          else some ups

end Zix.Path
