import ZixModel.Model.Path
/-! The result buffers of the path builders (src/path.c): how many bytes each function requests from
the allocator — transcribed from the C size computations — so that "every write stays inside the
result buffer" becomes a theorem relating these sizes to the value models of `Model/Path.lean`. -/
namespace Zix.PathBuf
open Zix.Path

/-- Bytes requested by `zix_path_join(a, b)`: `zix_string_view_copy(b)` when `a` is NULL or empty,
otherwise `calloc(prefix_len + add_sep + strlen(b) + 1, 1)`. -/
def joinAlloc (a b : Option (List Nat)) : Nat :=
  let bs := b.getD []
  match a with
  | none => bs.length + 1
  | some [] => bs.length + 1
  | some as =>
    let aHasRootDir := !(rootDirRange as).isEmpty
    let aHasFilename := !(filenameRange as).isEmpty
    let bHasRootDir := !(rootDirRange bs).isEmpty
    let prefixLen := if bHasRootDir then 0 else as.length      -- a_root.name.end = 0 on POSIX
    let addSep : Nat := if !bHasRootDir ∧ (aHasFilename ∨ (!aHasRootDir ∧ isAbsolute as)) then 1 else 0
    prefixLen + addSep + bs.length + 1

/-- `zix_path_preferred`: `calloc(strlen(path) + 1, 1)`. -/
def preferredAlloc (s : List Nat) : Nat := s.length + 1

/-- `zix_path_lexically_normal`: one byte for the empty path, else `strlen(path) + 2`. -/
def normalAlloc (s : List Nat) : Nat := if s = [] then 1 else s.length + 2

/-- Every value the result takes while `zix_path_lexically_normal` builds it (the fold of
`Path.normalize`, state after each element), for the in-bounds theorem. -/
def normalTrace (s : List Nat) : List (List Nat) :=
  let root := rootPathRange s
  let rootOut : List Nat := (slice s root).map (fun c => if isSep c then sep else c)
  let rootLen := rootOut.length
  let hasRootDir := rootLen > 0 ∧ rootOut.getLastD 0 = sep
  ((relElems s (s.length + 1) root.2).foldl
    (fun (acc : List Nat × List (List Nat)) el =>
      let o := normStep rootLen hasRootDir acc.1 el
      (o, acc.2 ++ [o])) (rootOut, [rootOut])).2

/-- Bytes requested by `zix_path_lexically_relative(path, base)`; `none` = NULL is returned without
any request.  The "." results come from `zix_string_view_copy` (2 bytes); the general case is
`calloc(n_up * 3 + strlen(path) - a.range.begin + 1, 1)`. -/
def relativeAlloc (p b : List Nat) : Option Nat :=
  let pHasRoot := !(rootDirRange p).isEmpty
  let bHasRoot := !(rootDirRange b).isEmpty
  if isAbsolute p ≠ isAbsolute b ∨ (!pHasRoot ∧ bHasRoot) then none
  else
    let (x, y) := skipCommon p b (p.length + b.length + 4) (begin p) (begin b)
    if (x.state = .end_ ∧ y.state = .end_) ∨ (x.range.isEmpty ∧ y.state = .end_) then some 2
    else
      let (nUp, nNames) := countBase b (b.length + 2) y (0, 0)
      if nUp > nNames then none
      else
        let up := if x.state = .rootDir then 0 else nNames - nUp
        if up = 0 ∧ (x.state = .end_ ∨ x.range.isEmpty) then some 2
        else some (up * 3 + p.length - x.range.1 + 1)

end Zix.PathBuf
