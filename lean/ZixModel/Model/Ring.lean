/-! Single-threaded value model of `src/ring.c` (C05).  Indices are `uint32_t`: naturals below
`2^32`, subtraction written with `+ 2^32 … %`.  `x & size_mask` is written `x % size`
(equal for the power-of-two sizes the constructor produces; the correspondence harness compares
both heads after every call, so a mask/modulo slip in the code is seen there). -/
namespace Zix.Ring

def W32 : Nat := 2 ^ 32

/-- `next_power_of_two` from ring.c, on 32-bit values. -/
def nextPow2 (size : Nat) : Nat :=
  let s := (size + W32 - 1) % W32
  let s := s ||| (s >>> 1)
  let s := s ||| (s >>> 2)
  let s := s ||| (s >>> 4)
  let s := s ||| (s >>> 8)
  let s := s ||| (s >>> 16)
  (s + 1) % W32

structure Ring where
  size : Nat
  r    : Nat          -- read_head
  w    : Nat          -- write_head
  buf  : List Nat     -- `size` bytes
deriving Repr

/-- An open write transaction: the heads captured by `zix_ring_begin_write`, `w` advanced by amends. -/
structure Tx where
  r : Nat
  w : Nat
deriving Repr

def new (s : Nat) : Ring :=
  let n := nextPow2 s
  { size := n, r := 0, w := 0, buf := List.replicate n 0 }

/-- `zix_ring_new(size)`: a size whose rounding wraps to zero (zero itself, and anything above 2^31)
is refused like an allocation failure; `none` = NULL. -/
def new? (s : Nat) : Option Ring :=
  if nextPow2 s = 0 then none else some (new s)

def reset (g : Ring) : Ring := { g with r := 0, w := 0 }

/-- `read_space_internal`: `(w - r) & mask` -/
def readSpaceAt (g : Ring) (r w : Nat) : Nat := ((w + W32 - r) % W32) % g.size
/-- `write_space_internal`: `(r - w - 1) & mask` -/
def writeSpaceAt (g : Ring) (r w : Nat) : Nat := ((r + W32 + W32 - w - 1) % W32) % g.size

def readSpace (g : Ring) : Nat := readSpaceAt g g.r g.w
def writeSpace (g : Ring) : Nat := writeSpaceAt g g.r g.w
def capacity (g : Ring) : Nat := (g.size + W32 - 1) % W32

/-- `peek_internal`: the one- or two-piece copy out of the buffer. -/
def peekAt (g : Ring) (r w n : Nat) : Option (List Nat) :=
  if readSpaceAt g r w < n then none
  else if r + n < g.size then some ((g.buf.drop r).take n)
  else
    let first := g.size - r
    some ((g.buf.drop r).take first ++ g.buf.take (n - first))

def peek (g : Ring) (n : Nat) : Option (List Nat) := peekAt g g.r g.w n

def read (g : Ring) (n : Nat) : Ring × Option (List Nat) :=
  match peekAt g g.r g.w n with
  | none => (g, none)
  | some d => ({ g with r := (g.r + n) % W32 % g.size }, some d)

def skip (g : Ring) (n : Nat) : Ring × Bool :=
  if readSpaceAt g g.r g.w < n then (g, false)
  else ({ g with r := (g.r + n) % W32 % g.size }, true)

def beginWrite (g : Ring) : Tx := { r := g.r, w := g.w }

/-- overwrite `buf[at ..]` with `src` -/
def blit (buf : List Nat) (pos : Nat) (src : List Nat) : List Nat :=
  buf.take pos ++ src ++ buf.drop (pos + src.length)

/-- `zix_ring_amend_write`: `none` = ZIX_STATUS_NO_MEM. -/
def amend (g : Ring) (tx : Tx) (src : List Nat) : Option (Ring × Tx) :=
  let n := src.length
  if writeSpaceAt g tx.r tx.w < n then none
  else
    let e := tx.w + n
    if e ≤ g.size then
      some ({ g with buf := blit g.buf tx.w src }, { tx with w := e % g.size })
    else
      let n1 := g.size - tx.w
      let n2 := n - n1
      some ({ g with buf := blit (blit g.buf tx.w (src.take n1)) 0 (src.drop n1) }, { tx with w := n2 })

def commit (g : Ring) (tx : Tx) : Ring := { g with w := tx.w }

/-- `zix_ring_write` = begin, amend, commit; returns the number of bytes written (0 on failure). -/
def write (g : Ring) (src : List Nat) : Ring × Nat :=
  match amend g (beginWrite g) src with
  | none => (g, 0)
  | some (g', tx) => (commit g' tx, src.length)

end Zix.Ring
