import ZixModel.Model.Ring
/-! Allocation behaviour of `zix_ring_new` / `zix_ring_free` (src/ring.c): two requests — the
`ZixRing` header, then the buffer of the rounded size — under an ARBITRARY refusal oracle.  Block
ids are the serial numbers of the granted requests (1, 2). -/
namespace Zix.RingAlloc
open Zix.Ring

inductive Ev where
  | malloc (size : Option Nat) (res : Option Nat)   -- size `none` = sizeof(ZixRing) (platform dependent)
  | free (b : Nat)
deriving Repr, DecidableEq

/-- `zix_ring_new(allocator, size)` for the rounded size `n = next_power_of_two(size)`: the events, and
the header and buffer blocks of the ring created (`none` = NULL). -/
def newN (fails : Nat → Bool) (n : Nat) : List Ev × Option (Nat × Nat) :=
  if n = 0 then ([], none)                                   -- refused before anything is requested
  else if fails 0 then ([.malloc none none], none)
  else if fails 1 then ([.malloc none (some 1), .malloc (some n) none, .free 1], none)
  else ([.malloc none (some 1), .malloc (some n) (some 2)], some (1, 2))

def newA (fails : Nat → Bool) (size : Nat) : List Ev × Option (Nat × Nat) := newN fails (nextPow2 size)

/-- `zix_ring_free(ring)`: buffer first, then the header; nothing for NULL. -/
def freeA : Option (Nat × Nat) → List Ev
  | none => []
  | some (h, b) => [.free b, .free h]

/-- Blocks outstanding after a log (`none` = a block was released that is not outstanding). -/
def outstanding : List Ev → List Nat → Option (List Nat)
  | [], live => some live
  | .malloc _ (some b) :: rest, live => outstanding rest (b :: live)
  | .malloc _ none :: rest, live => outstanding rest live
  | .free b :: rest, live => if b ∈ live then outstanding rest (live.erase b) else none

end Zix.RingAlloc
