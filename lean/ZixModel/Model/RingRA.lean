/-! Concurrent model of src/ring.c for C04: one writer thread and one reader thread over a
release/acquire memory.

**Memory model (the trusted rendering of the C11 fragment the code uses).**  The two heads are
atomic locations with a single writing thread each, so each location's modification order is its
writer's list of release stores.  A thread has a *view* of the peer's location: an index into
that list.  An acquire load may return ANY store at or after the view (stale values included),
advances the view to it, and thereby synchronises with that store and everything sequenced before
it.  Buffer bytes are plain (non-atomic) accesses.  Logical positions count bytes since creation;
position `p` lives in cell `p % N`.  A plain access is *ordered* with the conflicting access of
the other thread exactly when the acquiring side has seen a count that covers it:

* the reader may touch position `q` only if it has acquired a committed count `> q`
  (then the write of `q` happens-before the read);
* the writer may touch position `p` only if it has acquired a consumed count `> p - N`
  (then the read of the cell's previous occupant `p - N` happens-before the overwrite).

Any plain access outside these conditions is a data race and sets `race`.

**Programs.**  Each public function is the access sequence of ring.c: one acquire load of the
peer's head, a plain load of the own head (thread-local, not a shared step), per-byte buffer
accesses, one release store of the own head if it changes.  The correspondence harness checks
these sequences against the instrumented implementation.  Steps are scheduled one at a time by an
arbitrary schedule; every step of a thread with work to do is always enabled (no waiting). -/
namespace Zix.RingRA

inductive WCall where
  | write (data : List Nat)
  | begin_
  | amend (data : List Nat)
  | commit
deriving Repr

inductive RCall where
  | read (n : Nat)
  | peek (n : Nat)
  | skip (n : Nat)
deriving Repr

/-- A micro-step still to be executed by a thread inside the current call. -/
inductive Act where
  | loadAcq                       -- acquire load of the peer's head
  | bufWrite (pos : Nat) (b : Nat)
  | bufRead (pos : Nat)
  | storeRel (count : Nat)        -- release store of the own head (ghost: the logical count)
  | deliver                       -- reader: hand the bytes read so far to the caller
  | discard                       -- reader: peek finished (bytes not consumed)
deriving Repr

structure Writer where
  committed : Nat                 -- logical count published by the last release store
  seenConsumed : Nat              -- consumed count acquired most recently (value of the last acquire load)
  view : Nat                      -- index into the reader's store list
  tx : Option (Nat × Nat)         -- open transaction: (consumed count seen at begin, logical write position)
  acts : List Act                 -- rest of the current call
  calls : List WCall              -- calls still to make
  pendingCall : Option WCall      -- the call whose acquire load is in flight
deriving Repr

structure Reader where
  consumed : Nat
  seenCommitted : Nat
  view : Nat
  acts : List Act
  calls : List RCall
  pendingCall : Option RCall
  got : List Nat                  -- bytes read by the current call so far
deriving Repr

structure St where
  n : Nat                         -- ring size (number of cells); capacity n - 1
  cells : List (Nat × Nat)        -- cell → (logical position, byte) of the last write; length n
  wStores : List Nat              -- writer's release stores (committed counts), oldest first; starts [0]
  rStores : List Nat              -- reader's release stores (consumed counts); starts [0]
  w : Writer
  r : Reader
  output : List Nat               -- bytes delivered by successful reads, in order
  deliveries : List (Nat × List Nat)  -- (logical start position, bytes) of every successful read and peek (ghost)
  committedBytes : List Nat       -- bytes of committed writes, in order (ghost)
  stagedBytes : List Nat          -- bytes written since the last commit (ghost)
  race : Bool
deriving Repr

def init (n : Nat) (wcalls : List WCall) (rcalls : List RCall) : St :=
  { n := n, cells := List.replicate n (0, 0), wStores := [0], rStores := [0],
    w := ⟨0, 0, 0, none, [], wcalls, none⟩, r := ⟨0, 0, 0, [], rcalls, none, []⟩,
    output := [], deliveries := [], committedBytes := [], stagedBytes := [], race := false }

def byteActs (pos : Nat) (data : List Nat) : List Act :=
  (List.range data.length).map (fun i => Act.bufWrite (pos + i) (data.getD i 0))

def readActs (pos n : Nat) : List Act := (List.range n).map (fun i => Act.bufRead (pos + i))

/-- Writer: start the next call.  Calls that begin with an acquire load queue `loadAcq`. -/
def wStart (w : Writer) : Writer :=
  match w.calls with
  | [] => w
  | c :: rest =>
    match c with
    | .write _ => { w with calls := rest, pendingCall := some c, acts := [.loadAcq] }
    | .begin_ => { w with calls := rest, pendingCall := some c, acts := [.loadAcq] }
    | .amend _ =>
      -- no shared load: uses the transaction's copy of the heads
      match w.tx with
      | none => { w with calls := rest }                         -- misuse: ignored
      | some _ => { w with calls := rest, pendingCall := some c, acts := [] }
    | .commit =>
      match w.tx with
      | none => { w with calls := rest }
      | some (_, pos) => { w with calls := rest, pendingCall := none, tx := none, acts := [.storeRel pos] }

/-- Free space the writer computes from a consumed count `seen` and a write position `pos`. -/
def wSpace (n seen pos : Nat) : Nat := n - 1 - (pos - seen)

/-- Writer: after its acquire load returned `seen` (or for `amend`, using the transaction's copy),
expand the call into buffer writes and the release store. -/
def wExpand (n : Nat) (w : Writer) : Writer :=
  match w.pendingCall with
  | some (.write data) =>
    if data.length ≤ wSpace n w.seenConsumed w.committed then
      { w with pendingCall := none,
               acts := byteActs w.committed data ++ [.storeRel (w.committed + data.length)] }
    else { w with pendingCall := none, acts := [] }
  | some .begin_ => { w with pendingCall := none, tx := some (w.seenConsumed, w.committed), acts := [] }
  | some (.amend data) =>
    match w.tx with
    | some (seen, pos) =>
      if data.length ≤ wSpace n seen pos then
        { w with pendingCall := none, tx := some (seen, pos + data.length), acts := byteActs pos data }
      else { w with pendingCall := none, acts := [] }
    | none => { w with pendingCall := none, acts := [] }
  | _ => { w with pendingCall := none }

def rStart (r : Reader) : Reader :=
  match r.calls with
  | [] => r
  | c :: rest => { r with calls := rest, pendingCall := some c, acts := [.loadAcq], got := [] }

def rExpand (r : Reader) : Reader :=
  match r.pendingCall with
  | some (.read k) =>
    -- a zero-size read returns 0 right after the peek (`if (!peek_internal(...)) return 0;`): no store
    if k ≤ r.seenCommitted - r.consumed ∧ 0 < k then
      { r with pendingCall := none, acts := readActs r.consumed k ++ [.deliver, .storeRel (r.consumed + k)] }
    else { r with pendingCall := none, acts := [] }
  | some (.peek k) =>
    if k ≤ r.seenCommitted - r.consumed then
      { r with pendingCall := none, acts := readActs r.consumed k ++ [.discard] }
    else { r with pendingCall := none, acts := [] }
  | some (.skip k) =>
    if k ≤ r.seenCommitted - r.consumed then
      { r with pendingCall := none, acts := [.storeRel (r.consumed + k)] }
    else { r with pendingCall := none, acts := [] }
  | none => r

inductive Tid where
  | writer | reader
deriving Repr, DecidableEq

/-- One scheduler choice: which thread moves, and — if its step is an acquire load — how many
stores past its current view the load returns (clamped to the newest; 0 = the stalest allowed). -/
structure Choice where
  tid : Tid
  fresh : Nat
deriving Repr

def pick (view fresh len : Nat) : Nat := min (view + fresh) (len - 1)

def stepWriter (s : St) (fresh : Nat) : St :=
  let w := s.w
  match w.acts with
  | [] =>
    if w.pendingCall.isSome then { s with w := wExpand s.n w }     -- amend: no load needed
    else { s with w := wStart w }
  | .loadAcq :: rest =>
    let j := pick w.view fresh s.rStores.length
    let seen := s.rStores.getD j 0
    { s with w := wExpand s.n { w with view := j, seenConsumed := seen, acts := rest } }
  | .bufWrite pos b :: rest =>
    let seen := match w.tx with | some (sn, _) => sn | none => w.seenConsumed
    let ordered : Bool := pos < seen + s.n ∧ w.committed ≤ pos
    -- the reader must not be able to touch this cell concurrently, and the previous occupant is consumed
    { s with w := { w with acts := rest },
             cells := s.cells.set (pos % s.n) (pos, b),
             stagedBytes := s.stagedBytes ++ [b],
             race := s.race || !ordered }
  | .storeRel c :: rest =>
    { s with w := { w with acts := rest, committed := c },
             wStores := s.wStores ++ [c],
             committedBytes := s.committedBytes ++ s.stagedBytes, stagedBytes := [] }
  | _ :: rest => { s with w := { w with acts := rest } }

def stepReader (s : St) (fresh : Nat) : St :=
  let r := s.r
  match r.acts with
  | [] => { s with r := rStart r }
  | .loadAcq :: rest =>
    let j := pick r.view fresh s.wStores.length
    let seen := s.wStores.getD j 0
    { s with r := rExpand { r with view := j, seenCommitted := seen, acts := rest } }
  | .bufRead pos :: rest =>
    let cell := s.cells.getD (pos % s.n) (0, 0)
    let ordered : Bool := pos < r.seenCommitted ∧ r.consumed ≤ pos
    { s with r := { r with acts := rest, got := r.got ++ [cell.2] },
             race := s.race || !ordered }
  | .deliver :: rest =>
    { s with r := { r with acts := rest }, output := s.output ++ r.got,
             deliveries := s.deliveries ++ [(r.consumed, r.got)] }
  | .discard :: rest =>
    { s with r := { r with acts := rest, got := [] }, deliveries := s.deliveries ++ [(r.consumed, r.got)] }
  | .storeRel c :: rest =>
    { s with r := { r with acts := rest, consumed := c }, rStores := s.rStores ++ [c] }
  | _ :: rest => { s with r := { r with acts := rest } }

def step (s : St) (c : Choice) : St :=
  match c.tid with
  | .writer => stepWriter s c.fresh
  | .reader => stepReader s c.fresh

def run (s : St) (sched : List Choice) : St := sched.foldl step s

/-- Calls are used as the API intends: a plain `write` is not issued inside an open transaction,
`amend`/`commit` only inside one, `begin` only outside. -/
def wfCalls : Bool → List WCall → Bool
  | _, [] => true
  | false, .write _ :: rest => wfCalls false rest
  | false, .begin_ :: rest => wfCalls true rest
  | true, .amend _ :: rest => wfCalls true rest
  | true, .commit :: rest => wfCalls false rest
  | _, _ => false

/-- Both threads have finished all their calls. -/
def St.idle (s : St) : Bool :=
  s.w.acts.isEmpty && s.w.calls.isEmpty && s.w.pendingCall.isNone &&
  s.r.acts.isEmpty && s.r.calls.isEmpty && s.r.pendingCall.isNone

end Zix.RingRA
