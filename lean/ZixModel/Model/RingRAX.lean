import ZixModel.Model.RingRA
import ZixModel.Generated.RingOrders
/-! The SPSC ring machine of `Model/RingRA.lean` with an explicit happens-before layer and a memory
order per atomic access site.  It is the SEARCH ENGINE of the C04 check, not the object of its
theorems: when the memory orders observed in ring.c stop being the acquire/release ones the
theorems are about, the check runs this machine with the observed orders and looks for a schedule
with a data race (a concrete failing history).

Happens-before is tracked with two-thread vector clocks.  Each thread counts its own buffer
accesses.  A release store publishes the storing thread's clock (and what it knows of the peer's);
a relaxed store publishes nothing (C++20 release sequences: only the release store itself and RMWs).
An acquire load that reads a store joins the published clocks into the loading thread's knowledge;
a relaxed load joins nothing.  A buffer write races with the last read of the same cell unless the
writer knows that read's clock; a buffer read races with the last write of the cell unless the reader
knows that write's clock. -/
namespace Zix.RingRAX
open Zix.RingRA

/-- `true` = the order the theorems assume (acquire for loads, release for stores); `false` = relaxed. -/
structure Orders where
  writeLoad : Bool      -- zix_ring_write: load of read_head
  writeStore : Bool     -- zix_ring_write: store of write_head
  beginLoad : Bool      -- zix_ring_begin_write: load of read_head
  commitStore : Bool    -- zix_ring_commit_write: store of write_head
  readLoad : Bool       -- zix_ring_read: load of write_head
  readStore : Bool      -- zix_ring_read: store of read_head
  peekLoad : Bool       -- zix_ring_peek: load of write_head
  skipLoad : Bool       -- zix_ring_skip: load of write_head
  skipStore : Bool      -- zix_ring_skip: store of read_head
deriving Repr, DecidableEq

def Orders.proved : Orders := ⟨true, true, true, true, true, true, true, true, true⟩

/-- A load synchronises if it is at least acquire, a store if it is at least release. -/
def strongLoad (o : String) : Bool := o == "acquire" || o == "acq_rel" || o == "seq_cst"
def strongStore (o : String) : Bool := o == "release" || o == "acq_rel" || o == "seq_cst"

/-- The orders observed in the code (a missing site counts as relaxed). -/
def Orders.ofList (l : List (String × String)) : Orders :=
  let ld := fun k => strongLoad ((l.lookup k).getD "relaxed")
  let st := fun k => strongStore ((l.lookup k).getD "relaxed")
  ⟨ld "write.load", st "write.store", ld "begin.load", st "commit.store", ld "read.load", st "read.store",
   ld "peek.load", ld "skip.load", st "skip.store"⟩

def Orders.observed : Orders := Orders.ofList Zix.Generated.ringOrders

inductive Site where
  | write | begin_ | commit | read | peek | skip | none
deriving Repr, DecidableEq

structure StX where
  s : St
  wSite : Site                 -- the call the writer is in
  rSite : Site
  wClock : Nat                 -- writer's own buffer-access count
  rClock : Nat
  wKnowsR : Nat                -- reader clock the writer has synchronised with
  rKnowsW : Nat
  wPub : List (Nat × Nat)      -- per writer store: (writer clock, known reader clock) published; (0,0) if relaxed
  rPub : List (Nat × Nat)
  cellWrite : List Nat         -- per cell: writer clock of the last write (0 = never)
  cellRead : List Nat          -- per cell: reader clock of the last read
  raceX : Bool
  raceAt : Option (Nat × String)   -- first race: (cell, what)
deriving Repr

def initX (n : Nat) (wcalls : List WCall) (rcalls : List RCall) : StX :=
  { s := init n wcalls rcalls, wSite := .none, rSite := .none, wClock := 0, rClock := 0, wKnowsR := 0, rKnowsW := 0,
    wPub := [(0, 0)], rPub := [(0, 0)], cellWrite := List.replicate n 0, cellRead := List.replicate n 0,
    raceX := false, raceAt := none }

def siteOfW : WCall → Site
  | .write _ => .write | .begin_ => .begin_ | .amend _ => .begin_ | .commit => .commit

def siteOfR : RCall → Site
  | .read _ => .read | .peek _ => .peek | .skip _ => .skip

def stepX (o : Orders) (x : StX) (c : Choice) : StX :=
  let s := x.s
  match c.tid with
  | .writer =>
    let w := s.w
    let x :=
      match w.acts with
      | [] =>
        if w.pendingCall.isSome then x
        else match w.calls with
          | call :: _ => { x with wSite := siteOfW call }
          | [] => x
      | .loadAcq :: _ =>
        let j := pick w.view c.fresh s.rStores.length
        let acq := match x.wSite with | .write => o.writeLoad | .begin_ => o.beginLoad | _ => true
        if acq then
          let p := x.rPub.getD j (0, 0)
          { x with wKnowsR := max x.wKnowsR p.1 }
        else x
      | .bufWrite pos _ :: _ =>
        let cell := pos % s.n
        let clk := x.wClock + 1
        let lastRead := x.cellRead.getD cell 0
        let racy := lastRead > x.wKnowsR
        { x with wClock := clk, cellWrite := x.cellWrite.set cell clk,
                 raceX := x.raceX || racy,
                 raceAt := if racy ∧ x.raceAt.isNone then some (cell, "write of a cell whose last read does not happen-before it") else x.raceAt }
      | .storeRel _ :: _ =>
        let rel := match x.wSite with | .write => o.writeStore | .commit => o.commitStore | _ => true
        { x with wPub := x.wPub ++ [if rel then (x.wClock, x.wKnowsR) else (0, 0)] }
      | _ => x
    { x with s := step s c }
  | .reader =>
    let r := s.r
    let x :=
      match r.acts with
      | [] =>
        match r.calls with
        | call :: _ => { x with rSite := siteOfR call }
        | [] => x
      | .loadAcq :: _ =>
        let j := pick r.view c.fresh s.wStores.length
        let acq := match x.rSite with | .read => o.readLoad | .peek => o.peekLoad | .skip => o.skipLoad | _ => true
        if acq then
          let p := x.wPub.getD j (0, 0)
          { x with rKnowsW := max x.rKnowsW p.1 }
        else x
      | .bufRead pos :: _ =>
        let cell := pos % s.n
        let clk := x.rClock + 1
        let lastWrite := x.cellWrite.getD cell 0
        let racy := lastWrite > x.rKnowsW
        { x with rClock := clk, cellRead := x.cellRead.set cell clk,
                 raceX := x.raceX || racy,
                 raceAt := if racy ∧ x.raceAt.isNone then some (cell, "read of a cell whose last write does not happen-before it") else x.raceAt }
      | .storeRel _ :: _ =>
        let rel := match x.rSite with | .read => o.readStore | .skip => o.skipStore | _ => true
        { x with rPub := x.rPub ++ [if rel then (x.rClock, x.rKnowsW) else (0, 0)] }
      | _ => x
    { x with s := step s c }

def runX (o : Orders) (x : StX) (sched : List Choice) : StX := sched.foldl (stepX o) x

/-- What goes wrong in a finished run, if anything: a data race, or a delivered byte stream that is
not the committed stream at the position it was read from. -/
def verdict (x : StX) : Option String :=
  if x.raceX then
    match x.raceAt with
    | some (cell, what) => some s!"data race on buffer cell {cell}: {what}"
    | none => some "data race"
  else if x.s.deliveries.any (fun (p, bs) => bs != (x.s.committedBytes.drop p).take bs.length) then
    some "a read or peek delivered bytes that are not the committed bytes at its position"
  else none

/-- Deterministic pseudo-random schedule of `len` choices from a seed (LCG). -/
def schedule (seed len : Nat) : List Choice :=
  (List.range len).foldl (fun (acc : List Choice × Nat) _ =>
    let z := (acc.2 * 6364136223846793005 + 1442695040888963407) % 18446744073709551616
    let tid := if (z / 4294967296) % 2 = 0 then Tid.writer else Tid.reader
    let fresh := (z / 17179869184) % 3
    (acc.1 ++ [⟨tid, fresh⟩], z)) ([], seed + 1) |>.1

/-- Search: run `tries` seeded schedules of `len` steps; return the first (seed, step count, verdict)
that goes wrong.  The returned prefix length is the first step at which the verdict appears. -/
def search (o : Orders) (n : Nat) (wcalls : List WCall) (rcalls : List RCall) (len tries : Nat) :
    Option (Nat × Nat × String) :=
  (List.range tries).findSome? (fun seed =>
    let sched := schedule seed len
    let x := runX o (initX n wcalls rcalls) sched
    match verdict x with
    | none => none
    | some v =>
      -- shortest failing prefix
      let k := (List.range (len + 1)).find? (fun k => (verdict (runX o (initX n wcalls rcalls) (sched.take k))).isSome)
      some (seed, k.getD len, v))

/-- Scenario families the search runs: (name, ring size, writer calls, reader calls). -/
def scenarios : List (String × Nat × List WCall × List RCall) :=
  [("write-vs-peek+skip", 2, (List.range 8).map (fun i => WCall.write [i + 1]),
      (List.range 8).flatMap (fun _ => [RCall.peek 1, RCall.skip 1])),
   ("write-vs-read", 2, (List.range 8).map (fun i => WCall.write [i + 1]), (List.range 8).map (fun _ => RCall.read 1)),
   ("transaction-vs-read", 4, (List.range 4).flatMap (fun i => [WCall.begin_, .amend [2 * i + 1], .amend [2 * i + 2], .commit]),
      (List.range 8).map (fun _ => RCall.read 1)),
   ("write2-vs-peek2+skip+read", 4, (List.range 8).map (fun i => WCall.write [2 * i + 1, 2 * i + 2]),
      (List.range 8).flatMap (fun _ => [RCall.peek 2, RCall.skip 1, RCall.read 1]))]

/-- First scenario and schedule on which the machine with orders `o` goes wrong. -/
def explore (o : Orders) (len tries : Nat) : Option (String × Nat × Nat × Nat × String) :=
  scenarios.findSome? (fun (name, n, wc, rc) =>
    match search o n wc rc len tries with
    | some (seed, k, v) => some (name, n, seed, k, v)
    | none => none)

end Zix.RingRAX
