import ZixModel.Model.Errno
/-! Model of src/posix/sem_posix.c (as repaired): the deadline arithmetic of
`zix_sem_timed_wait`, and the EINTR retry loops over an oracle of kernel results. -/
namespace Zix.Sem
open Zix.Errno

def NS : Int := 1000000000

structure Timespec where
  sec  : Int
  nsec : Int
deriving Repr, DecidableEq

/-- `while (ts.tv_nsec >= NS_PER_SECOND) { ts.tv_nsec -= NS_PER_SECOND; ts.tv_sec++; }` -/
def normalize : Nat → Timespec → Timespec
  | 0, ts => ts
  | fuel + 1, ts => if ts.nsec ≥ NS then normalize fuel ⟨ts.sec + 1, ts.nsec - NS⟩ else ts

/-- The absolute deadline passed to `sem_timedwait`.  `seconds`, `nanoseconds` are `uint32_t`.
Six iterations always suffice (now.nsec < 10^9, nanoseconds < 2^32 < 5·10^9). -/
def deadline (now : Timespec) (seconds nanoseconds : Nat) : Timespec :=
  normalize 6 ⟨now.sec + seconds, now.nsec + nanoseconds⟩

/-- Result of one kernel call: 0, or -1 with this errno. -/
inductive SysRes where
  | ok
  | err (e : Int)
deriving Repr, DecidableEq

def EINTR : Int := 4

/-- `while ((r = call()) && errno == EINTR) {}` then `zix_errno_status_if(r)`.
Returns the status and the number of kernel calls made; `none` if the oracle is exhausted
(the call is still blocked / being interrupted). -/
def retry : List SysRes → Nat → Option (Int × Nat)
  | [], _ => none
  | .ok :: _, n => some (0, n + 1)
  | .err e :: rest, n => if e = EINTR then retry rest (n + 1) else some (errnoStatus e, n + 1)

/-- `zix_errno_status_if(r)` for one call that is not retried: `zix_sem_init`, `zix_sem_destroy`,
`zix_sem_post` (a single `sem_init(&sem, 0, initial)` / `sem_destroy` / `sem_post`). -/
def once : SysRes → Int
  | .ok => 0
  | .err e => errnoStatus e

/-- The arguments `zix_sem_init(sem, initial)` hands to `sem_init`: not shared between processes, the given count. -/
def semInitArgs (initial : Nat) : Nat × Nat := (0, initial)

def semWait (oracle : List SysRes) : Option (Int × Nat) := retry oracle 0
def semTryWait (oracle : List SysRes) : Option (Int × Nat) := retry oracle 0

/-- `zix_sem_timed_wait`: `clock_gettime` first (its failure is reported at once), then the retry
loop on `sem_timedwait` with the computed deadline. -/
def semTimedWait (clock : SysRes) (now : Timespec) (seconds nanoseconds : Nat) (oracle : List SysRes) :
    Option (Int × Nat × Option Timespec) :=
  match clock with
  | .err e => some (errnoStatus e, 0, none)
  | .ok =>
    match retry oracle 0 with
    | some (st, n) => some (st, n, some (deadline now seconds nanoseconds))
    | none => none

/-! Abstract counting semaphore shared by any number of posting and waiting threads. -/
structure Counter where
  init      : Nat
  count     : Nat   -- kernel value
  begun     : Nat   -- posts begun
  committed : Nat   -- posts that reached the kernel
  succeeded : Nat   -- waits that returned SUCCESS
deriving Repr

inductive Ev where
  | postBegin | postCommit | waitOk
deriving Repr

def Counter.enabled (c : Counter) : Ev → Bool
  | .postBegin => true
  | .postCommit => c.committed < c.begun
  | .waitOk => 0 < c.count

def Counter.step (c : Counter) (e : Ev) : Counter :=
  if c.enabled e then
    match e with
    | .postBegin => { c with begun := c.begun + 1 }
    | .postCommit => { c with committed := c.committed + 1, count := c.count + 1 }
    | .waitOk => { c with count := c.count - 1, succeeded := c.succeeded + 1 }
  else c

def Counter.start (n : Nat) : Counter := ⟨n, n, 0, 0, 0⟩

end Zix.Sem
