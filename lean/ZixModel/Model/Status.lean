import ZixModel.Generated.Status
/-! Model of `zix_strerror` (src/status.c): a `switch` over the generated case table
with the generated default. Messages are byte lists. -/
namespace Zix.Status
open Zix.Generated

/-- `zix_strerror`: the first matching `case`, else the default return. -/
def strerror (v : Int) : List Nat :=
  (strerrorCases.lookup v).getD strerrorDefault

/-- One-sentence English message: non-empty, upper-case first byte, no trailing period,
no ". " inside (a second sentence), only printable ASCII. -/
def wellFormed (m : List Nat) : Bool :=
  match m with
  | [] => false
  | c :: _ =>
    (65 ≤ c && c ≤ 90) && (m.getLast? != some 46) &&
    m.all (fun b => 32 ≤ b && b < 127) &&
    !(m.zip m.tail).any (fun p => p.1 == 46 && p.2 == 32)

def enumValues : List Int := statusEnum.map (·.1)

end Zix.Status
