/-! Model of `zix_string_view_equals` / `zix_string_view_copy` (src/string_view.c).
Memory is one byte list; a view is (offset, length) into it, so that aliasing and
overlap are expressible. -/
namespace Zix.StrView

structure View where
  off : Nat
  len : Nat
deriving Repr, DecidableEq

def View.bytes (mem : List Nat) (v : View) : List Nat := (mem.drop v.off).take v.len

/-- The byte loop of `zix_string_view_equals`: `for i in [i, n): if a[i] != b[i] return false`. -/
def cmpLoop (mem : List Nat) (a b : Nat) : (i fuel : Nat) → Bool
  | _, 0 => true
  | i, fuel + 1 =>
    if (mem.drop (a + i)).head? != (mem.drop (b + i)).head? then false
    else cmpLoop mem a b (i + 1) fuel

/-- `zix_string_view_equals`: length test, pointer-identity fast path, byte loop. -/
def viewEquals (mem : List Nat) (l r : View) : Bool :=
  if l.len != r.len then false
  else if l.off != r.off then cmpLoop mem l.off r.off 0 l.len
  else true

/-- `zix_string_view_copy` when the allocation succeeds: `length + 1` bytes, NUL-terminated. -/
def viewCopy (mem : List Nat) (v : View) : List Nat := v.bytes mem ++ [0]

end Zix.StrView
