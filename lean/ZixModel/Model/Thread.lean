import ZixModel.Model.Errno
/-! Model of src/posix/thread_posix.c (as repaired): the pthread calls `zix_thread_create` makes,
with their arguments, and the status mapping; and an abstract pthread layer in which
`create (some attr)` starts one thread on a stack of at least `attr.stacksize`. -/
namespace Zix.Thread
open Zix.Errno

inductive PCall where
  | attrInit
  | attrSetStackSize (n : Nat)
  | create (attrStack : Option Nat)     -- `none`: NULL attribute (default stack size)
  | attrDestroy
deriving Repr, DecidableEq

/-- `zix_thread_create(thread, stack_size, function, arg)`: the calls made, and the returned status
given what `pthread_create` returned (0 or an error number). -/
def pageUnit : Nat := 4096
def W : Nat := 2 ^ 64

/-- The size passed on: the request rounded up to whole pages in `size_t` arithmetic, or the request
itself when rounding up wraps around. -/
def attrSize (stackSize : Nat) : Nat :=
  let rounded := ((stackSize + pageUnit - 1) % W) / pageUnit * pageUnit
  if rounded ≥ stackSize then rounded else stackSize

def threadCreate (stackSize : Nat) (createRet : Int) : List PCall × Int :=
  ([.attrInit, .attrSetStackSize (attrSize stackSize), .create (some (attrSize stackSize)), .attrDestroy], errnoStatus createRet)

/-- `zix_thread_join`: ERROR if `pthread_join` fails, else SUCCESS. -/
def threadJoin (joinRet : Int) : Int := if joinRet ≠ 0 then 1 else 0

/-! Abstract pthread layer. -/
structure Th where
  stack   : Nat      -- size of the stack the thread runs on
  ran     : Nat      -- how many times the start function has been called
  arg     : Nat
  done    : Bool
deriving Repr

/-- What the platform does for a `create` call that returns 0: one new thread running the function
once, on a stack of the attribute's size ROUNDED DOWN to whole pages (glibc does this to a size that
is not a multiple of the page size; the default size for a NULL attribute). -/
def platformCreate (defaultStack : Nat) (attrStack : Option Nat) (arg : Nat) : Th :=
  { stack := (attrStack.getD defaultStack) / pageUnit * pageUnit, ran := 1, arg := arg, done := false }

end Zix.Thread
