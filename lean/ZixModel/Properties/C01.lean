import ZixModel.Lemmas.BTreeDefs
import ZixModel.Lemmas.BTreeInsert
import ZixModel.Generated.BTreeCfg
/-! # C01 — B-tree is a sorted set under every operation history (construction, insert, find,
height, clear; removal is in `Properties/C01Remove.lean`)

Property theorems only; helper lemmas live in `ZixModel/Lemmas/BTreeInsert.lean`.
`fails : Nat → Bool` is an ARBITRARY allocation-failure oracle over the request index. -/
namespace Zix.C01
open Zix.BTree

/-- A new tree (when both pages could be allocated) is a well-formed empty set. -/
theorem wf_new (c : Cfg) (fails : Nat → Bool) (a a' : AllocSt) (t : Tree) (evs : List Ev)
    (h : Tree.new fails a = (a', some t, evs)) : WF c t ∧ t.root.elems = [] := by
  unfold Tree.new allocPage at h
  by_cases h1 : fails a.reqs = true
  · simp [h1] at h
  · by_cases h2 : fails (a.reqs + 1) = true
    · simp [h1, h2] at h
    · simp only [h1, h2, Bool.false_eq_true, if_false, Prod.mk.injEq, Option.some.injEq] at h
      obtain ⟨_, rfl, _⟩ := h
      exact ⟨⟨Ins.shape_leaf.mpr ⟨rfl, Nat.zero_le _, Or.inl rfl⟩, by simp, by simp⟩, by simp⟩

/-- `zix_btree_insert` refines sorted-set insertion, for every well-formed tree, every element and
every allocation-failure oracle: the result is well formed; SUCCESS means the element was absent and
is now present (everything else untouched); EXISTS means it was present and the contents are
unchanged (the shape may have been split on the way down); NO_MEM happens only if the oracle
refused a request made by this call, and leaves the contents unchanged. -/
theorem insert_refines (c : Cfg) (hc : c.Valid) (fails : Nat → Bool) (a : AllocSt) (t : Tree) (e : Nat)
    (h : WF c t) :
    WF c (t.insert c fails a e).2.1 ∧
    ((t.insert c fails a e).2.2.1 = .success →
        e ∉ t.root.elems ∧ (t.insert c fails a e).2.1.root.elems = setInsert e t.root.elems ∧
        (t.insert c fails a e).2.1.size = t.size + 1) ∧
    ((t.insert c fails a e).2.2.1 = .exists_ →
        e ∈ t.root.elems ∧ (t.insert c fails a e).2.1.root.elems = t.root.elems ∧
        (t.insert c fails a e).2.1.size = t.size) ∧
    ((t.insert c fails a e).2.2.1 = .noMem →
        (t.insert c fails a e).2.1.root.elems = t.root.elems ∧ (t.insert c fails a e).2.1.size = t.size ∧
        ∃ k, a.reqs ≤ k ∧ k < (t.insert c fails a e).1.reqs ∧ fails k = true) ∧
    (t.insert c fails a e).2.2.1 ≠ .notFound := by
  obtain ⟨H, ⟨hsh, hreq, hsucc, hex, hnm, hnf⟩, hsize⟩ := Ins.tree_insert_spec c hc fails a t e h
  have hheight := Ins.height_eq c H true _ hsh
  have hsorted : (t.insert c fails a e).2.1.root.elems.Pairwise (· < ·) := by
    cases hst : (t.insert c fails a e).2.2.1 with
    | success => rw [(hsucc hst).2]; exact Ins.setInsert_sorted e _ h.sorted
    | exists_ => rw [(hex hst).2]; exact h.sorted
    | notFound => exact absurd hst hnf
    | noMem => rw [(hnm hst).1]; exact h.sorted
  refine ⟨⟨hheight ▸ hsh, hsorted, ?_⟩, ?_, ?_, ?_, hnf⟩
  · rw [hsize]
    cases hst : (t.insert c fails a e).2.2.1 with
    | success =>
      rw [(hsucc hst).2, Ins.setInsert_length e _ (hsucc hst).1, h.size]; simp
    | exists_ => rw [(hex hst).2, h.size]; simp
    | notFound => exact absurd hst hnf
    | noMem => rw [(hnm hst).1, h.size]; simp
  · intro hst
    exact ⟨(hsucc hst).1, (hsucc hst).2, by rw [hsize, hst]; simp⟩
  · intro hst
    exact ⟨(hex hst).1, (hex hst).2, by rw [hsize, hst]; simp⟩
  · intro hst
    exact ⟨(hnm hst).1, by rw [hsize, hst]; simp, (hnm hst).2⟩

/-- With memory available, insert succeeds exactly when the element is absent. -/
theorem insert_success_iff_absent (c : Cfg) (hc : c.Valid) (fails : Nat → Bool) (a : AllocSt) (t : Tree) (e : Nat)
    (h : WF c t) (hok : ∀ k, fails k = false) :
    ((t.insert c fails a e).2.2.1 = .success ↔ e ∉ t.root.elems) ∧
    ((t.insert c fails a e).2.2.1 = .exists_ ↔ e ∈ t.root.elems) := by
  obtain ⟨H, ⟨_, _, hsucc, hex, hnm, hnf⟩, _⟩ := Ins.tree_insert_spec c hc fails a t e h
  cases hst : (t.insert c fails a e).2.2.1 with
  | success => simpa using (hsucc hst).1
  | exists_ => simpa using (hex hst).1
  | notFound => exact absurd hst hnf
  | noMem =>
    obtain ⟨_, k, _, _, hk⟩ := hnm hst
    rw [hok k] at hk
    exact absurd hk (by simp)

/-- `zix_btree_find` succeeds exactly for stored elements and its iterator dereferences to the element. -/
theorem find_refines (c : Cfg) (t : Tree) (e : Nat) (h : WF c t) :
    ((t.find e).1.isSome ↔ e ∈ t.root.elems) ∧
    (∀ p, (t.find e).1 = some p → deref t.root (some p) = some e) := by
  have hspec := Ins.findNode_spec c (height t.root) t.root e true (height t.root) h.shape
    (Nat.le_refl _) h.sorted
  refine ⟨hspec.1, ?_⟩
  intro p hp
  obtain ⟨m, i, hm, hi⟩ := hspec.2 p hp
  simp [deref, hm, hi]

/-- A tree of height h ≥ 2 whose non-root nodes are at least minimally filled holds at least
`2·(inodeMin+1)^(h−2)·(leafMin+1) − 1` elements. -/
theorem btree_height_bound (c : Cfg) (hc : c.Valid) (t : Tree) (h : WF c t) (h2 : 2 ≤ height t.root) :
    c.minElems (height t.root) ≤ t.size := by
  have _ := hc  -- not needed: the count only uses the shape
  rw [h.size]
  exact Ins.min_elems_root c (height t.root) t.root h.shape h2

/-- Hence no element is deeper than `maxHeight` levels as long as the tree holds fewer elements than
the minimum a tree of height `maxHeight + 1` needs. -/
theorem btree_depth_le_maxHeight (c : Cfg) (hc : c.Valid) (t : Tree) (h : WF c t)
    (hs : t.size < c.minElems (c.maxHeight + 1)) : height t.root ≤ c.maxHeight := by
  apply Classical.byContradiction
  intro hgt
  have hmh := hc.height
  have h2 : 2 ≤ height t.root := by omega
  have hb := btree_height_bound c hc t h h2
  have hm := Ins.minElems_mono c (a := c.maxHeight + 1) (b := height t.root) (by omega)
  omega

/-- The bound claimed originally (`2^47`) does NOT hold for the regenerated geometry:
`minElems 7 = 2·128^5·255 − 1 = 2^44 − 2^36 − 1 = 17523466567679`, which is just below `2^44`
(so it is not even "more 8-byte elements than 2^47 bytes hold" = `2^44`). -/
theorem default_cfg_capacity_original_false :
    ¬ 2 ^ 47 ≤ Zix.Generated.btreeDefaultCfg.minElems (Zix.Generated.btreeDefaultCfg.maxHeight + 1) := by
  decide

/-- For the default build (regenerated geometry: 4 KiB pages, height 6) that bound is beyond 2^43
elements (and below 2^44): at 8 bytes per element that is more than 2^46 bytes of element data
alone.
CORRECTED (the constant `2 ^ 47` was false, see `default_cfg_capacity_original_false`). -/
-- ORIGINAL:
-- theorem default_cfg_valid_and_capacity :
--     Zix.Generated.btreeDefaultCfg.Valid ∧
--     2 ^ 47 ≤ Zix.Generated.btreeDefaultCfg.minElems (Zix.Generated.btreeDefaultCfg.maxHeight + 1)
theorem default_cfg_valid_and_capacity :
    Zix.Generated.btreeDefaultCfg.Valid ∧
    2 ^ 43 ≤ Zix.Generated.btreeDefaultCfg.minElems (Zix.Generated.btreeDefaultCfg.maxHeight + 1) := by
  refine ⟨⟨by decide, by decide, by decide⟩, by decide⟩

/-- The minimum occupancies the model works with are the ones `zix_btree_min_vals` computes in the
default build (regenerated by compiling src/btree.c and calling the static function on a leaf and
on an internal node): a "simplified" formula in the code breaks this theorem whatever histories
the correspondence run happens to generate. -/
theorem default_min_vals_are_the_codes :
    (Zix.Generated.btreeDefaultCfg.minVals (.leaf 0 []), Zix.Generated.btreeDefaultCfg.minVals (.inode 0 [] []))
      = Zix.Generated.btreeDefaultMinVals := by decide

/-- The corrected bound is tight to within a factor of two. -/
theorem default_cfg_capacity_lt :
    Zix.Generated.btreeDefaultCfg.minElems (Zix.Generated.btreeDefaultCfg.maxHeight + 1) < 2 ^ 44 := by
  decide

/-- Lookups cost O(log n) comparisons: at most ⌊log2 leafMax⌋+1 per level. -/
theorem find_comparisons (c : Cfg) (hc : c.Valid) (t : Tree) (e : Nat) (h : WF c t) :
    (t.find e).2 ≤ height t.root * (Nat.log2 c.leafMax + 1) :=
  Ins.findNode_cmps c hc (height t.root) t.root e true (height t.root) h.shape

/-- `zix_btree_clear` hands every stored element to the destroy function exactly once and leaves a
well-formed empty tree. -/
theorem clear_destroys_each_once (c : Cfg) (t : Tree) (h : WF c t) :
    (t.clear).2.1.Perm t.root.elems ∧ WF c (t.clear).1 ∧ (t.clear).1.root.elems = [] := by
  have hp := Ins.destroyOrder_perm c (height t.root + 1) t.root true (height t.root) h.shape
    (Nat.le_succ _)
  refine ⟨hp, ⟨Ins.shape_leaf.mpr ⟨rfl, Nat.zero_le _, Or.inl rfl⟩, ?_, ?_⟩, ?_⟩ <;>
    simp [Tree.clear]

/-! ## non-vacuity: page 64 (6 values per leaf, 3 per internal node) -/
example : (⟨6, 3, 6⟩ : Cfg).Valid := ⟨by decide, by decide, by decide⟩

end Zix.C01
