import ZixModel.Model.BTree
/-! # C01 — B-tree is a sorted set under every operation history -/
namespace Zix.C01
open Zix.BTree

/-- `ainsert` places the element at the index and keeps everything else in order. -/
theorem ainsert_length (l : List Nat) (i x : Nat) (h : i ≤ l.length) : (ainsert l i x).length = l.length + 1 := by
  unfold ainsert; simp; omega

end Zix.C01
