import ZixModel.Properties.C01
import ZixModel.Properties.C01Remove
/-! # C01 — every operation history: the B-tree is a sorted set

Lifts the per-operation theorems (`insert_refines`, `remove_refines`, `clear_destroys_each_once`,
`wf_new`) to every finite history of insert / remove / clear calls from a new tree, under an
arbitrary allocation-failure oracle. -/
namespace Zix.C01
open Zix.BTree

inductive Op where
  | ins (e : Nat)
  | rm (e : Nat)
  | clear
deriving Repr

/-- One call on the implementation model: new allocator state, new tree, status. -/
def stepImpl (c : Cfg) (fails : Nat → Bool) (s : AllocSt × Tree) : Op → (AllocSt × Tree) × Status
  | .ins e => let r := s.2.insert c fails s.1 e; ((r.1, r.2.1), r.2.2.1)
  | .rm e => let r := s.2.remove c e; ((s.1, r.1), r.2.1)
  | .clear => ((s.1, (s.2.clear).1), .success)

/-- The abstract sorted set: a strictly ascending list. -/
def stepSpec (l : List Nat) : Op → List Nat × Status
  | .ins e => if e ∈ l then (l, .exists_) else (setInsert e l, .success)
  | .rm e => if e ∈ l then (l.erase e, .success) else (l, .notFound)
  | .clear => ([], .success)

def runImpl (c : Cfg) (fails : Nat → Bool) : (AllocSt × Tree) → List Op → (AllocSt × Tree) × List Status
  | s, [] => (s, [])
  | s, op :: ops =>
    let (s', st) := stepImpl c fails s op
    let (s'', sts) := runImpl c fails s' ops
    (s'', st :: sts)

def runSpec : List Nat → List Op → List Nat × List Status
  | l, [] => (l, [])
  | l, op :: ops =>
    let (l', st) := stepSpec l op
    let (l'', sts) := runSpec l' ops
    (l'', st :: sts)

/-- The representation invariant holds after every history, whatever the allocator refuses. -/
theorem btree_wf_invariant (c : Cfg) (hc : c.Valid) (fails : Nat → Bool) (ops : List Op) :
    ∀ (s : AllocSt × Tree), WF c s.2 → WF c (runImpl c fails s ops).1.2 := by
  induction ops with
  | nil => intro s h; exact h
  | cons op ops ih =>
    intro s h
    simp only [runImpl]
    apply ih
    cases op with
    | ins e => exact (insert_refines c hc fails s.1 s.2 e h).1
    | rm e => exact (remove_refines c hc s.2 e h).1
    | clear => exact (clear_destroys_each_once c s.2 h).2.1

/-- With memory available, every call of every history returns the status the sorted set returns,
and the tree's in-order contents are the set's elements (strictly ascending), with the size equal
to its cardinality. -/
theorem btree_refines_sorted_set (c : Cfg) (hc : c.Valid) (fails : Nat → Bool) (hok : ∀ k, fails k = false)
    (ops : List Op) :
    ∀ (s : AllocSt × Tree), WF c s.2 →
      (runImpl c fails s ops).2 = (runSpec s.2.root.elems ops).2 ∧
      (runImpl c fails s ops).1.2.root.elems = (runSpec s.2.root.elems ops).1 ∧
      (runImpl c fails s ops).1.2.size = (runSpec s.2.root.elems ops).1.length := by
  induction ops with
  | nil => intro s h; exact ⟨rfl, rfl, h.size⟩
  | cons op ops ih =>
    intro s h
    have hstep : WF c (stepImpl c fails s op).1.2 ∧ (stepImpl c fails s op).2 = (stepSpec s.2.root.elems op).2 ∧
        (stepImpl c fails s op).1.2.root.elems = (stepSpec s.2.root.elems op).1 := by
      cases op with
      | ins e =>
        have hr := insert_refines c hc fails s.1 s.2 e h
        have hi := insert_success_iff_absent c hc fails s.1 s.2 e h hok
        simp only [stepImpl, stepSpec]
        by_cases hm : e ∈ s.2.root.elems
        · have hst := hi.2.mpr hm
          simp only [hm, if_true]
          exact ⟨hr.1, hst, (hr.2.2.1 hst).2.1⟩
        · have hst := hi.1.mpr hm
          simp only [hm, if_false]
          exact ⟨hr.1, hst, (hr.2.1 hst).2.1⟩
      | rm e =>
        have hr := remove_refines c hc s.2 e h
        simp only [stepImpl, stepSpec]
        by_cases hm : e ∈ s.2.root.elems
        · simp only [hm, if_true]
          exact ⟨hr.1, (hr.2.1 hm).1, (hr.2.1 hm).2.2.1⟩
        · simp only [hm, if_false]
          exact ⟨hr.1, (hr.2.2 hm).1, (hr.2.2 hm).2.2.2.1⟩
      | clear =>
        have hr := clear_destroys_each_once c s.2 h
        simp only [stepImpl, stepSpec]
        exact ⟨hr.2.1, trivial, hr.2.2⟩
    have hrec := ih (stepImpl c fails s op).1 hstep.1
    simp only [runImpl, runSpec]
    rw [hstep.2.2] at hrec
    refine ⟨?_, hrec.2.1, hrec.2.2⟩
    rw [hstep.2.1, hrec.1]

/-- Contents stay strictly ascending in every reachable state (so begin..end iteration is in
strictly ascending order: see `increment_walks_inorder` in C02). -/
theorem btree_sorted_always (c : Cfg) (hc : c.Valid) (fails : Nat → Bool) (ops : List Op)
    (s : AllocSt × Tree) (h : WF c s.2) :
    (runImpl c fails s ops).1.2.root.elems.Pairwise (· < ·) :=
  (btree_wf_invariant c hc fails ops s h).sorted

/-- No element is deeper than `maxHeight` levels in any reachable state holding fewer elements than
the minimum a tree of height `maxHeight + 1` needs. -/
theorem btree_depth_le_maxHeight_always (c : Cfg) (hc : c.Valid) (fails : Nat → Bool) (ops : List Op)
    (s : AllocSt × Tree) (h : WF c s.2)
    (hs : (runImpl c fails s ops).1.2.size < c.minElems (c.maxHeight + 1)) :
    height (runImpl c fails s ops).1.2.root ≤ c.maxHeight :=
  btree_depth_le_maxHeight c hc _ (btree_wf_invariant c hc fails ops s h) hs

end Zix.C01
