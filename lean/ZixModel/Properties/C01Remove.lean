import ZixModel.Lemmas.BTreeDefs
import ZixModel.Lemmas.BTreeRemove
/-! # C01 (removal part) — `zix_btree_remove` refines sorted-set removal

Property theorems only; helper lemmas live in `ZixModel/Lemmas/BTreeRemove.lean`. -/
namespace Zix.C01
open Zix.BTree

/-- For every well-formed tree and every element: the result is well formed; a stored element is
removed (SUCCESS, handed back, everything else untouched, size − 1); an absent element yields
NOT_FOUND, no out value, the end iterator, and unchanged contents (the shape may have been
restructured on the way down). -/
theorem remove_refines (c : Cfg) (hc : c.Valid) (t : Tree) (e : Nat) (h : WF c t) :
    WF c (t.remove c e).1 ∧
    (e ∈ t.root.elems →
        (t.remove c e).2.1 = .success ∧ (t.remove c e).2.2.1 = some e ∧
        (t.remove c e).1.root.elems = t.root.elems.erase e ∧ (t.remove c e).1.size + 1 = t.size) ∧
    (e ∉ t.root.elems →
        (t.remove c e).2.1 = .notFound ∧ (t.remove c e).2.2.1 = none ∧ (t.remove c e).2.2.2.1 = none ∧
        (t.remove c e).1.root.elems = t.root.elems ∧ (t.remove c e).1.size = t.size) := by
  obtain ⟨r, hr, hshape, helems, hout⟩ := Rem.remove_main hc t e h
  rw [hr]
  by_cases he : e ∈ t.root.elems
  · rw [if_pos he] at hout
    have hlen := List.length_erase_of_mem he
    have hpos : 0 < t.root.elems.length := List.length_pos_of_mem he
    have hsz := h.size
    unfold Rem.finish
    rw [hout]
    refine ⟨⟨hshape, ?_, ?_⟩, fun _ => ⟨rfl, rfl, helems, ?_⟩, fun hn => (hn he).elim⟩
    · show r.node.elems.Pairwise (· < ·)
      rw [helems]; exact List.Pairwise.erase _ h.sorted
    · show t.size - 1 = r.node.elems.length
      rw [helems, hlen, hsz]
    · show t.size - 1 + 1 = t.size
      omega
  · rw [if_neg he] at hout
    have hsame : r.node.elems = t.root.elems := by rw [helems, List.erase_of_not_mem he]
    unfold Rem.finish
    rw [hout]
    refine ⟨⟨hshape, ?_, ?_⟩, fun hn => (he hn).elim, fun _ => ⟨rfl, rfl, rfl, hsame, rfl⟩⟩
    · show r.node.elems.Pairwise (· < ·)
      rw [hsame]; exact h.sorted
    · show t.size = r.node.elems.length
      rw [hsame]; exact h.size

/-- The `next` iterator of a successful remove is at the removed element's in-order successor
(end if it was the largest) — for leaf-resident and internal-node-resident victims alike. -/
theorem remove_next_is_successor (c : Cfg) (hc : c.Valid) (t : Tree) (e : Nat) (h : WF c t)
    (he : e ∈ t.root.elems) :
    deref (t.remove c e).1.root (t.remove c e).2.2.2.1 = (t.root.elems.filter (fun v => e < v)).head? := by
  obtain ⟨r, hr, hout, hnext⟩ := Rem.remove_main_next hc t e h he
  rw [hr, ← Rem.firstGt_eq]
  unfold Rem.finish
  rw [hout]
  show deref r.node (if t.size - 1 = 0 then none else if r.incr = true then increment r.node r.path else some r.path) = _
  by_cases hz : t.size - 1 = 0
  · rw [if_pos hz]
    have hlen : t.root.elems.length = 1 := by
      have := h.size; have := List.length_pos_of_mem he; omega
    cases hl : t.root.elems with
    | nil => rw [hl] at hlen; simp at hlen
    | cons a l =>
      rw [hl] at hlen he
      have : l = [] := by cases l <;> simp_all
      subst this
      have : e = a := by simpa using he
      subst this
      simp [deref, Rem.firstGt]
  · rw [if_neg hz]
    have S := Rem.nextSpec_sound hnext
    cases hq : (if r.incr = true then increment r.node r.path else some r.path) with
    | none =>
      rw [hq] at S
      simp only [Rem.Sound] at S
      rw [S]; rfl
    | some q =>
      rw [hq] at S
      simp only [Rem.Sound] at S
      rw [Rem.deref_some, S.2.1]

/-- Removal never allocates; every page it frees was a node of the tree and is freed once. -/
theorem remove_events_are_frees (c : Cfg) (t : Tree) (e : Nat) :
    ∀ ev ∈ (t.remove c e).2.2.2.2.1, ∃ id, ev = .free id :=
  Rem.remove_evs c t e

end Zix.C01
