import ZixModel.Model.BTree
/-! # C02 — B-tree positional queries -/
namespace Zix.C02
open Zix.BTree

/-- All end iterators are equal, and an end iterator differs from every valid one. -/
theorem end_iterators_equal (p : List Nat) : iterEquals none none = true ∧ iterEquals none (some p) = false := by
  constructor <;> rfl

/-- Two iterators compare equal exactly when they are the same position (same index path). -/
theorem iter_equals_iff (a b : Iter) : iterEquals a b = true ↔ a = b := by
  unfold iterEquals; simp

end Zix.C02
