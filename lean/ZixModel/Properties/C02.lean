import ZixModel.Lemmas.BTreeDefs
import ZixModel.Lemmas.BTreeIter
/-! # C02 — B-tree positional queries: lower_bound, begin, increment, equals

Property theorems only; helper lemmas live in `ZixModel/Lemmas/BTreeIter.lean`.
(`find` is in Properties/C01, `remove`'s `next` in Properties/C01Remove.) -/
namespace Zix.C02
open Zix.BTree

/-- A valid iterator: its path leads to a node and an index of one of that node's values. -/
def ValidIter (root : Node) (p : List Nat) : Prop := ∃ n i, nodeAt root p = some (n, i) ∧ i < n.nVals

/-- A search comparator compatible with the tree order: its sign is monotone along the sorted
elements (so the elements with `cmp < 0` come first, then those with `cmp = 0`, then `cmp > 0`). -/
def Compatible (cmp : Nat → Int) (l : List Nat) : Prop :=
  ∀ a b, a ∈ l → b ∈ l → a < b → (cmp a ≤ 0 ∨ 0 < cmp b) ∧ (cmp a < 0 ∨ 0 ≤ cmp b)

/-- All end iterators are equal, and an end iterator differs from every valid one. -/
theorem end_iterators_equal (p : List Nat) : iterEquals none none = true ∧ iterEquals none (some p) = false := by
  constructor <;> rfl

/-- Two iterators compare equal exactly when they are the same index path. -/
theorem iter_equals_iff (a b : Iter) : iterEquals a b = true ↔ a = b := by
  unfold iterEquals; simp

/-- In a well-formed tree two valid iterators are at the same position (same path) exactly when they
dereference to the same element. -/
theorem valid_iter_eq_iff_same_element (c : Cfg) (t : Tree) (h : WF c t) (p q : List Nat)
    (hp : ValidIter t.root p) (hq : ValidIter t.root q) :
    iterEquals (some p) (some q) = true ↔ deref t.root (some p) = deref t.root (some q) := by
  rw [iter_equals_iff]
  constructor
  · intro he; rw [he]
  · intro he
    obtain ⟨v, hd, _⟩ := It.vi_deref_mem c _ true t.root p h.shape hp
    rw [It.path_inj c _ true t.root p q v h.shape h.sorted hp hq hd (he ▸ hd)]

/-- `zix_btree_begin` is at the smallest element (end for an empty tree) and is valid.

CORRECTED: hypothesis `hc : c.Valid` added.  Without it `WF` allows a geometry with `leafMin = 0`
(`leafMax ≤ 2`) and hence empty non-root leaves, for which the statement is false: see the counterexample
`It.begin_needs_valid` (`c = ⟨2, 2, 8⟩`, root `inode [5, 7] [leaf [], leaf [], leaf []]`). -/
-- ORIGINAL:
-- theorem begin_spec (c : Cfg) (t : Tree) (h : WF c t) :
--     deref t.root t.begin = t.root.elems.head? ∧ (∀ p, t.begin = some p → ValidIter t.root p)
theorem begin_spec (c : Cfg) (hc : c.Valid) (t : Tree) (h : WF c t) :
    deref t.root t.begin = t.root.elems.head? ∧ (∀ p, t.begin = some p → ValidIter t.root p) := by
  unfold Tree.begin
  by_cases hz : t.size = 0
  · have : t.root.elems = [] := List.eq_nil_of_length_eq_zero (by rw [← h.size]; exact hz)
    simp [hz, this, deref]
  · have hne : t.root.elems ≠ [] := by
      intro he; apply hz; rw [h.size, he]; rfl
    obtain ⟨h1, h2⟩ := It.leftmost_spec c (It.valid_leafMin hc) _ true t.root (height t.root) h.shape hne (Nat.le_refl _)
    simp only [hz, if_false]
    refine ⟨h2, ?_⟩
    intro p hp
    cases hp
    exact h1

/-- Incrementing a valid iterator moves to the next element in order, and to end after the last;
the result is again valid (or end).

CORRECTED: hypothesis `hc : c.Valid` added.  Without it `WF` allows a geometry with `leafMin = 0`
(`leafMax ≤ 2`) and hence empty non-root leaves, for which the statement is false: see the counterexample
`It.increment_needs_valid` (`c = ⟨2, 2, 8⟩`, root `inode [5, 7] [leaf [], leaf [], leaf []]`, `p = [0]`). -/
-- ORIGINAL:
-- theorem increment_walks_inorder (c : Cfg) (t : Tree) (h : WF c t) (p : List Nat) (hp : ValidIter t.root p)
--     (pre post : List Nat) (v : Nat) (hv : deref t.root (some p) = some v) (hs : t.root.elems = pre ++ v :: post) :
--     deref t.root (increment t.root p) = post.head? ∧
--     (∀ q, increment t.root p = some q → ValidIter t.root q)
theorem increment_walks_inorder (c : Cfg) (hc : c.Valid) (t : Tree) (h : WF c t) (p : List Nat)
    (hp : ValidIter t.root p)
    (pre post : List Nat) (v : Nat) (hv : deref t.root (some p) = some v) (hs : t.root.elems = pre ++ v :: post) :
    deref t.root (increment t.root p) = post.head? ∧
    (∀ q, increment t.root p = some q → ValidIter t.root q) := by
  obtain ⟨bf, af, e1, e2, _, e4⟩ := It.inc_spec c (It.valid_leafMin hc) _ true t.root p v h.shape hp hv
  have hnd : (pre ++ v :: post).Nodup := by
    rw [← hs]; exact h.sorted.imp (fun hab => Nat.ne_of_lt hab)
  obtain ⟨_, hpost⟩ := It.split_unique pre bf post af v hnd (by rw [← hs, e1])
  rw [hpost]
  exact ⟨e2, e4⟩

/-- `zix_btree_lower_bound` is at the first element that is not less than the key under the search
comparator (for a wildcard comparator: the first of the matching elements), or end if there is none;
the iterator is valid. -/
theorem lower_bound_spec (c : Cfg) (t : Tree) (h : WF c t) (cmp : Nat → Int) (hm : Compatible cmp t.root.elems) :
    deref t.root (t.lowerBound cmp).1 = t.root.elems.find? (fun v => decide (0 ≤ cmp v)) ∧
    (∀ p, (t.lowerBound cmp).1 = some p → ValidIter t.root p) := by
  have hmono : It.Mono cmp t.root.elems := by
    refine List.Pairwise.imp_of_mem ?_ h.sorted
    intro a b ha hb hab
    have := hm a b ha hb hab
    omega
  rw [It.lowerBound_fst, It.lbFinish_eq c cmp _ true t.root h.shape hmono]
  exact It.lbSpec_correct c cmp _ true t.root h.shape hmono

/-- lower_bound costs O(log n) comparisons. -/
theorem lower_bound_comparisons (c : Cfg) (hc : c.Valid) (t : Tree) (h : WF c t) (cmp : Nat → Int) :
    (t.lowerBound cmp).2 ≤ height t.root * (Nat.log2 c.leafMax + 1) := by
  rw [It.lowerBound_snd]
  exact It.lbn_cmps c hc cmp _ true t.root h.shape

end Zix.C02
