import ZixModel.Model.Hash
/-! # C03 — hash table -/
namespace Zix.C03
open Zix.Hash Zix.Generated

/-- Side conditions on the regenerated constants: a tombstone is distinguishable from an empty
slot, the minimum size is a power of two, and the load threshold leaves free slots. -/
theorem const_side_conditions :
    hashTombstone ≠ 0 ∧ hashMinEntries = 4 ∧ 0 < hashLoadDiv1 ∧ 0 < hashLoadDiv2 ∧ 0 < hashShrinkDiv ∧
    (∀ n, 4 ≤ n → n / hashLoadDiv1 + n / hashLoadDiv2 < n) := by
  refine ⟨by decide, by decide, by decide, by decide, by decide, ?_⟩
  intro n hn
  have h1 : hashLoadDiv1 = 2 := by decide
  have h2 : hashLoadDiv2 = 8 := by decide
  rw [h1, h2]; omega

end Zix.C03
