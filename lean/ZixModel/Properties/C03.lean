import ZixModel.Model.Hash
import ZixModel.Lemmas.Hash
/-! # C03 — hash table is a faithful, always-terminating map for any hash function

Property theorems only; helper lemmas live in `ZixModel/Lemmas/Hash.lean`.
`keyOf : rec → key` is the user's key accessor and `codeOf : key → code` the user's hash
function: BOTH ARE ARBITRARY FUNCTIONS (constant, colliding, anything). -/
namespace Zix.C03
open Zix.Hash Zix.Generated

/-- Side conditions on the regenerated constants: a tombstone is distinguishable from an empty
slot, the minimum size is a power of two, and the load threshold leaves free slots. -/
theorem const_side_conditions :
    hashTombstone ≠ 0 ∧ hashMinEntries = 4 ∧ 0 < hashLoadDiv1 ∧ 0 < hashLoadDiv2 ∧ 0 < hashShrinkDiv ∧
    (∀ n, 4 ≤ n → n / hashLoadDiv1 + n / hashLoadDiv2 < n) := by
  refine ⟨by decide, by decide, by decide, by decide, by decide, ?_⟩
  intro n hn
  have h1 : hashLoadDiv1 = 2 := by decide
  have h2 : hashLoadDiv2 = 8 := by decide
  rw [h1, h2]; omega

/-! ## termination of every probe, in every table (no invariant needed) -/

/-- `find_entry` with fuel = table size never runs out: every slot is visited at most once before
an empty slot, a match, or the full-cycle guard stops the probe. -/
theorem hash_probe_terminates (keyOf : Nat → Nat) (slots : List Slot) (key code start : Nat)
    (hs : start < slots.length) (evs : List Ev) :
    (findEntry keyOf slots key code start slots.length start evs).isSome := by
  obtain ⟨res, evs', h, _⟩ := findEntry_spec keyOf slots key code start hs slots.length 0 evs
    (by omega) (by omega)
  rw [Nat.add_zero, Nat.mod_eq_of_lt hs] at h
  rw [h]; rfl

theorem hash_plan_terminates (keyOf : Nat → Nat) (slots : List Slot) (key code start : Nat)
    (hs : start < slots.length) (evs : List Ev) :
    (planInsert keyOf slots key code start slots.length start none evs).isSome := by
  obtain ⟨res, evs', h, _⟩ := planInsert_spec keyOf slots key code start hs slots.length 0 none evs
    (by omega) (by omega)
  rw [Nat.add_zero, Nat.mod_eq_of_lt hs] at h
  rw [h]; rfl

/-! ## the representation invariant -/

/-- The live records of a table, in slot order. -/
def liveRecs (t : Table) : List Nat := iterate t

/-- Slot `i` holds record `r` under code `c`. -/
def HoldsAt (t : Table) (i c r : Nat) : Prop := t.slots[i]? = some (.live c r)

/-- No empty slot on the cyclic probe path from `start` up to (excluding) `i`. -/
def PathNonEmpty (t : Table) (start i : Nat) : Prop :=
  ∀ d, d < (i + t.n - start) % t.n → t.slots[(start + d) % t.n]? ≠ some .empty

/- CORRECTION (the only one in this file).  The invariant as originally written,

  -- ORIGINAL:
  -- structure Inv (keyOf codeOf : Nat → Nat) (t : Table) : Prop where
  --   size4     : 4 ≤ t.n
  --   countEq   : t.count = (liveRecs t).length
  --   load      : t.count < t.n
  --   codes     : ∀ i c r, HoldsAt t i c r → c = codeOf (keyOf r)
  --   distinct  : ∀ i j c d r s, HoldsAt t i c r → HoldsAt t j d s → keyOf r = keyOf s → i = j
  --   reachable : ∀ i c r, HoldsAt t i c r → PathNonEmpty t (fold c t.n) i

is not inductive: it does not say that the size is a power of two, so it allows a table of 5 slots
holding one record; removing that record shrinks the table to `5 / 2 = 2` slots and `size4` is
lost (`remove_present` as stated is false for the original `Inv`).  The machine-checked
counterexample is `Counterexample.orig_inv_not_preserved` at the end of this file.  The minimal
repair is the extra field `pow2` (the C code only ever has power-of-two sizes: it starts at
`hashMinEntries = 4` and doubles/halves).  `inv_new`, `insert_new` and `remove_present` are proved
for the strengthened invariant; all other statements are unchanged. -/
structure Inv (keyOf codeOf : Nat → Nat) (t : Table) : Prop where
  size4     : 4 ≤ t.n
  pow2      : ∃ k, t.n = 2 ^ k                    -- ADDED (see the note above)
  countEq   : t.count = (liveRecs t).length
  load      : t.count < t.n                       -- at least one non-live slot
  codes     : ∀ i c r, HoldsAt t i c r → c = codeOf (keyOf r)
  distinct  : ∀ i j c d r s, HoldsAt t i c r → HoldsAt t j d s → keyOf r = keyOf s → i = j
  reachable : ∀ i c r, HoldsAt t i c r → PathNonEmpty t (fold c t.n) i

/-! ### bridge to the slot-level invariant `SInv` of `ZixModel/Lemmas/Hash.lean` -/

theorem liveRecs_eq (t : Table) : liveRecs t = liveList t.slots := iterate_eq t

theorem holdsAt_iff {t : Table} {i c r : Nat} : HoldsAt t i c r ↔ t.slots.getD i .empty = .live c r :=
  getD_live_iff

theorem mem_liveRecs {t : Table} {r : Nat} : r ∈ liveRecs t ↔ ∃ i c, HoldsAt t i c r := by
  rw [liveRecs_eq, mem_liveList]
  exact exists_congr fun i => exists_congr fun c => holdsAt_iff.symm

theorem pathNonEmpty_iff {t : Table} {start i : Nat} (hs : start < t.n) :
    PathNonEmpty t start i ↔
      ∀ d, d < (i + t.n - start) % t.n → t.slots.getD ((start + d) % t.n) .empty ≠ .empty := by
  unfold PathNonEmpty
  refine forall_congr' fun d => forall_congr' fun _ => ?_
  rw [getElem?_of_getD (l := t.slots) (i := (start + d) % t.n) (idx_lt hs)]
  simp

theorem Inv.sinv {keyOf codeOf : Nat → Nat} {t : Table} (h : Inv keyOf codeOf t) :
    SInv keyOf codeOf t.slots := by
  have hn : 0 < t.n := by have := h.size4; omega
  refine ⟨fun i c r hi => h.codes i c r (holdsAt_iff.2 hi),
    fun i j c d r s hi hj => h.distinct i j c d r s (holdsAt_iff.2 hi) (holdsAt_iff.2 hj), ?_⟩
  intro i c r hi
  exact (pathNonEmpty_iff (fold_lt hn)).1 (h.reachable i c r (holdsAt_iff.2 hi))

theorem Inv.of_sinv {keyOf codeOf : Nat → Nat} {t : Table} (h4 : 4 ≤ t.n) (hp : ∃ k, t.n = 2 ^ k)
    (hc : t.count = (liveList t.slots).length) (hl : t.count < t.n) (h : SInv keyOf codeOf t.slots) :
    Inv keyOf codeOf t := by
  refine ⟨h4, hp, by rw [liveRecs_eq]; exact hc, hl,
    fun i c r hi => h.codes i c r (holdsAt_iff.1 hi),
    fun i j c d r s hi hj => h.distinct i j c d r s (holdsAt_iff.1 hi) (holdsAt_iff.1 hj), ?_⟩
  intro i c r hi
  exact (pathNonEmpty_iff (fold_lt (by omega))).2 (h.reach i c r (holdsAt_iff.1 hi))

theorem inv_new (keyOf codeOf : Nat → Nat) : Inv keyOf codeOf new := by
  have hn : new.n = 4 := by decide
  refine Inv.of_sinv (by omega) ⟨2, by decide⟩ ?_ (by rw [hn]; decide) (SInv.replicate _ _ _)
  show 0 = (liveList (List.replicate hashMinEntries Slot.empty)).length
  rw [liveList_replicate_empty]; rfl

/-! ## find is exact -/

/-- `zix_hash_find` returns the slot of the live record with that key if there is one … -/
theorem find_some_iff (keyOf codeOf : Nat → Nat) (t : Table) (h : Inv keyOf codeOf t) (key i : Nat) :
    (find keyOf t key (codeOf key)).1 = some i ↔ ∃ r, HoldsAt t i (codeOf key) r ∧ keyOf r = key := by
  have hn : 0 < t.n := by have := h.size4; omega
  have hs : fold (codeOf key) t.n < t.slots.length := fold_lt hn
  rw [find_fst]
  constructor
  · rintro ⟨evs', hfe, hl⟩
    obtain ⟨res, evs2, hfe2, hres⟩ := findEntry_spec keyOf t.slots key (codeOf key) _ hs t.n 0
      [Ev.hash key] hn (Nat.le_refl _)
    rw [Nat.add_zero, Nat.mod_eq_of_lt hs] at hfe2
    rw [hfe] at hfe2
    cases hfe2
    obtain ⟨r, hr, hk⟩ := hres.match_of_live hl
    exact ⟨r, holdsAt_iff.2 hr, hk⟩
  · rintro ⟨r, hr, hk⟩
    obtain ⟨evs', hfe⟩ := h.sinv.findEntry_found (holdsAt_iff.1 hr) hk [Ev.hash key]
    exact ⟨evs', hfe, _, _, holdsAt_iff.1 hr⟩

/-- … and the end iterator exactly when no live record has that key. -/
theorem find_none_iff (keyOf codeOf : Nat → Nat) (t : Table) (h : Inv keyOf codeOf t) (key : Nat) :
    (find keyOf t key (codeOf key)).1 = none ↔ ∀ r ∈ liveRecs t, keyOf r ≠ key := by
  constructor
  · intro hnone r hr hk
    obtain ⟨i, c, hi⟩ := mem_liveRecs.1 hr
    have hc : c = codeOf key := by rw [h.codes i c r hi, hk]
    subst hc
    have := (find_some_iff keyOf codeOf t h key i).2 ⟨r, hi, hk⟩
    rw [hnone] at this; cases this
  · intro habs
    cases hf : (find keyOf t key (codeOf key)).1 with
    | none => rfl
    | some i =>
      obtain ⟨r, hr, hk⟩ := (find_some_iff keyOf codeOf t h key i).1 hf
      exact absurd hk (habs r (mem_liveRecs.2 ⟨i, _, hr⟩))

/-! ## insert -/

/-- A duplicate key is refused with EXISTS and nothing changes. -/
theorem insert_exists (keyOf codeOf : Nat → Nat) (t : Table) (h : Inv keyOf codeOf t) (rec : Nat) (ok : Bool)
    (hdup : ∃ r ∈ liveRecs t, keyOf r = keyOf rec) :
    (insert keyOf t rec (codeOf (keyOf rec)) ok).1 = t ∧
    (insert keyOf t rec (codeOf (keyOf rec)) ok).2.1 = .exists_ := by
  obtain ⟨r, hr, hk⟩ := hdup
  obtain ⟨i, c, hi⟩ := mem_liveRecs.1 hr
  have hc : c = codeOf (keyOf rec) := by rw [h.codes i c r hi, hk]
  subst hc
  obtain ⟨evs', hpl⟩ := h.sinv.planInsert_found (holdsAt_iff.1 hi) hk [Ev.key rec, Ev.hash (keyOf rec)]
  have hpl' : planInsert keyOf t.slots (keyOf rec) (codeOf (keyOf rec)) (fold (codeOf (keyOf rec)) t.n) t.n
      (fold (codeOf (keyOf rec)) t.n) none [Ev.key rec, Ev.hash (keyOf rec)] = some (i, evs') := hpl
  simp only [Zix.Hash.insert, hpl', insertAt, holdsAt_iff.1 hi, and_self]

/-- A new key is inserted (SUCCESS), or — only if a larger table was needed and could not be
allocated — refused with NO_MEM leaving the table exactly as it was.  The invariant is kept and the
set of live records is the old one plus the new record. -/
theorem insert_new (keyOf codeOf : Nat → Nat) (t : Table) (h : Inv keyOf codeOf t) (rec : Nat) (ok : Bool)
    (hnew : ∀ r ∈ liveRecs t, keyOf r ≠ keyOf rec) :
    let res := insert keyOf t rec (codeOf (keyOf rec)) ok
    (res.2.1 = .success ∧ Inv keyOf codeOf res.1 ∧
      (∀ r, r ∈ liveRecs res.1 ↔ r ∈ liveRecs t ∨ r = rec) ∧ res.1.count = t.count + 1) ∨
    (ok = false ∧ res.2.1 = .noMem ∧ res.1 = t) := by
  intro res
  have hn : 0 < t.slots.length := by have := h.size4; unfold Table.n at this; omega
  have hsinv := h.sinv
  have hcnt : t.count = (liveList t.slots).length := by rw [← liveRecs_eq]; exact h.countEq
  have hload : (liveList t.slots).length < t.slots.length := by rw [← hcnt]; exact h.load
  have hnew' : ∀ j c' r', t.slots.getD j .empty = .live c' r' → keyOf r' ≠ keyOf rec :=
    fun j c' r' hj => hnew r' (mem_liveRecs.2 ⟨j, c', holdsAt_iff.2 hj⟩)
  have hnomatch : ∀ j, ¬ Match keyOf (keyOf rec) (codeOf (keyOf rec)) (t.slots.getD j .empty) := by
    rintro j ⟨r, hj, hk⟩
    exact hnew' j _ r hj hk
  obtain ⟨i, evs', hpl, hi, hnl, hpath⟩ := planInsert_new keyOf t.slots (keyOf rec) (codeOf (keyOf rec))
    hn hnomatch hload [Ev.key rec, Ev.hash (keyOf rec)]
  have hpl' : planInsert keyOf t.slots (keyOf rec) (codeOf (keyOf rec)) (fold (codeOf (keyOf rec)) t.n) t.n
      (fold (codeOf (keyOf rec)) t.n) none [Ev.key rec, Ev.hash (keyOf rec)] = some (i, evs') := hpl
  have hres : res = insertAt keyOf t i (codeOf (keyOf rec)) rec ok evs' := by
    simp only [res, Zix.Hash.insert, hpl']
  clear_value res
  subst hres
  rw [insertAt_not_live _ _ _ _ _ _ _ hnl]
  -- the table with the new record stored, before any growth
  have hs1 : SInv keyOf codeOf (t.slots.set i (.live (codeOf (keyOf rec)) rec)) :=
    hsinv.set_live rfl hnew' hpath
  have hc1 : (liveList (t.slots.set i (.live (codeOf (keyOf rec)) rec))).length = t.count + 1 := by
    rw [liveList_length_set_live hi hnl, hcnt]
  have hm1 : ∀ r, SlotHas (t.slots.set i (.live (codeOf (keyOf rec)) rec)) r ↔ r ∈ liveRecs t ∨ r = rec := by
    intro r; rw [slotHas_set_live hi hnl, liveRecs_eq, mem_liveList]
  have hl1 : hashLoadDiv1 = 2 := by decide
  have hl2 : hashLoadDiv2 = 8 := by decide
  have h4 := h.size4
  have hld := h.load
  obtain ⟨k, hk⟩ := h.pow2
  by_cases hg : t.count + 1 ≥ t.n / hashLoadDiv1 + t.n / hashLoadDiv2
  · rw [if_pos hg]
    cases ok with
    | false => right; exact ⟨rfl, rfl, rfl⟩
    | true =>
      left
      rw [if_pos rfl]
      obtain ⟨r1, r2, r3, r4⟩ := rehash_spec keyOf codeOf _ (t.n * 2) evs' hs1 (by rw [hc1]; omega)
      refine ⟨rfl, ?_, ?_, rfl⟩
      · refine Inv.of_sinv ?_ ⟨k + 1, ?_⟩ ?_ ?_ r2
        · show 4 ≤ List.length _; rw [r1]; omega
        · show List.length _ = _; rw [r1, hk, Nat.pow_succ]
        · show t.count + 1 = _; rw [r3, hc1]
        · show t.count + 1 < List.length _; rw [r1]; omega
      · intro r
        rw [liveRecs_eq, mem_liveList]
        show SlotHas (rehashInto keyOf _ _ evs').1 r ↔ _
        rw [r4, hm1]
  · rw [if_neg hg]
    left
    refine ⟨rfl, ?_, ?_, rfl⟩
    · refine Inv.of_sinv ?_ ⟨k, ?_⟩ ?_ ?_ hs1
      · show 4 ≤ List.length _; rw [List.length_set]; exact h4
      · show List.length _ = _; rw [List.length_set]; exact hk
      · exact hc1.symm
      · show t.count + 1 < List.length _
        rw [List.length_set]
        rw [hl1, hl2] at hg
        unfold Table.n at hg h4; omega
    · intro r
      rw [liveRecs_eq, mem_liveList]
      exact hm1 r

/-! ## remove -/

theorem remove_absent (keyOf codeOf : Nat → Nat) (t : Table) (h : Inv keyOf codeOf t) (key : Nat) (ok : Bool)
    (habs : ∀ r ∈ liveRecs t, keyOf r ≠ key) :
    (remove keyOf t key (codeOf key) ok).1 = t ∧ (remove keyOf t key (codeOf key) ok).2.1 = .notFound ∧
    (remove keyOf t key (codeOf key) ok).2.2.1 = none := by
  have hnone := (find_none_iff keyOf codeOf t h key).2 habs
  unfold remove
  generalize find keyOf t key (codeOf key) = p at hnone
  obtain ⟨o, evs⟩ := p
  simp only at hnone
  subst hnone
  exact ⟨rfl, rfl, rfl⟩

/-- `zix_hash_erase` at ANY slot `i` that holds a record (not necessarily one that `find` just
returned): hands back exactly that record, keeps the invariant, and leaves all other records in
place (whether or not the table could be shrunk).  Shared core of `remove_present` and
`eraseAt_record`. -/
theorem erase_live (keyOf codeOf : Nat → Nat) (t : Table) (h : Inv keyOf codeOf t) (i c r0 : Nat) (ok : Bool)
    (hi : HoldsAt t i c r0) :
    (erase keyOf t i ok).2.2.1 = some r0 ∧ Inv keyOf codeOf (erase keyOf t i ok).1 ∧
    (∀ r, r ∈ liveRecs (erase keyOf t i ok).1 ↔ r ∈ liveRecs t ∧ r ≠ r0) ∧
    (erase keyOf t i ok).1.count + 1 = t.count ∧
    ((erase keyOf t i ok).2.1 = .success ∨ (ok = false ∧ (erase keyOf t i ok).2.1 = .noMem)) := by
  have hsinv := h.sinv
  have hcnt : t.count = (liveList t.slots).length := by rw [← liveRecs_eq]; exact h.countEq
  have hi' := holdsAt_iff.1 hi
  have hrec : recordAt t i = some r0 := by unfold recordAt; rw [hi']
  have hs1 : SInv keyOf codeOf (t.slots.set i .tomb) := hsinv.set_tomb i
  have hc1 : (liveList (t.slots.set i .tomb)).length + 1 = t.count := by
    rw [liveList_length_set_tomb hi', hcnt]
  have hm1 : ∀ r, SlotHas (t.slots.set i .tomb) r ↔ r ∈ liveRecs t ∧ r ≠ r0 := by
    intro r; rw [slotHas_set_tomb hsinv hi', liveRecs_eq, mem_liveList]
  have hsd : hashShrinkDiv = 4 := by decide
  have hme : hashMinEntries = 4 := by decide
  have h4 := h.size4
  have hld := h.load
  have hp := h.pow2
  rw [erase_eq]
  -- the tombstoned table without shrinking
  have hinv1 : Inv keyOf codeOf { slots := t.slots.set i .tomb, count := t.count - 1 } := by
    obtain ⟨k, hk⟩ := hp
    refine Inv.of_sinv ?_ ⟨k, ?_⟩ ?_ ?_ hs1
    · show 4 ≤ List.length _; rw [List.length_set]; exact h4
    · show List.length _ = _; rw [List.length_set]; exact hk
    · show t.count - 1 = (liveList (t.slots.set i .tomb)).length; omega
    · show t.count - 1 < List.length _; rw [List.length_set]; unfold Table.n at hld; omega
  have hmem1 : ∀ r, r ∈ liveRecs { slots := t.slots.set i .tomb, count := t.count - 1 } ↔
      r ∈ liveRecs t ∧ r ≠ r0 := by
    intro r; rw [liveRecs_eq, mem_liveList]; exact hm1 r
  by_cases hg : t.count - 1 < t.n / hashShrinkDiv ∧ t.n > hashMinEntries
  · rw [if_pos hg]
    cases ok with
    | false =>
      rw [if_neg (by simp)]
      exact ⟨hrec, hinv1, hmem1, by show t.count - 1 + 1 = t.count; omega, Or.inr ⟨rfl, rfl⟩⟩
    | true =>
      rw [if_pos rfl]
      rw [hsd, hme] at hg
      obtain ⟨p1, k, p2⟩ := pow2_half hp hg.2
      obtain ⟨r1, r2, r3, r4⟩ := rehash_spec keyOf codeOf _ (t.n / 2) [] hs1 (by omega)
      refine ⟨hrec, ?_, ?_, by show t.count - 1 + 1 = t.count; omega, Or.inl rfl⟩
      · refine Inv.of_sinv ?_ ⟨k, ?_⟩ ?_ ?_ r2
        · show 4 ≤ List.length _; rw [r1]; exact p1
        · show List.length _ = _; rw [r1]; exact p2
        · show t.count - 1 = _; rw [r3]; omega
        · show t.count - 1 < List.length _; rw [r1]; omega
      · intro r
        rw [liveRecs_eq, mem_liveList]
        show SlotHas (rehashInto keyOf _ _ []).1 r ↔ _
        rw [r4, hm1]
  · rw [if_neg hg]
    exact ⟨hrec, hinv1, hmem1, by show t.count - 1 + 1 = t.count; omega, Or.inl rfl⟩

/-- Removing a present key hands back exactly that record, keeps the invariant, and leaves all
other records in place (whether or not the table could be shrunk). -/
theorem remove_present (keyOf codeOf : Nat → Nat) (t : Table) (h : Inv keyOf codeOf t) (key r0 : Nat) (ok : Bool)
    (hr : r0 ∈ liveRecs t) (hk : keyOf r0 = key) :
    let res := remove keyOf t key (codeOf key) ok
    res.2.2.1 = some r0 ∧ Inv keyOf codeOf res.1 ∧
    (∀ r, r ∈ liveRecs res.1 ↔ r ∈ liveRecs t ∧ r ≠ r0) ∧ res.1.count + 1 = t.count ∧
    (res.2.1 = .success ∨ (ok = false ∧ res.2.1 = .noMem)) := by
  intro res
  obtain ⟨i, c, hi⟩ := mem_liveRecs.1 hr
  have hc : c = codeOf key := by rw [h.codes i c r0 hi, hk]
  subst hc
  have hfind := (find_some_iff keyOf codeOf t h key i).2 ⟨r0, hi, hk⟩
  obtain ⟨e1, e2, e3⟩ := remove_of_find_some keyOf t key (codeOf key) i ok hfind
  show (remove keyOf t key (codeOf key) ok).2.2.1 = some r0 ∧
    Inv keyOf codeOf (remove keyOf t key (codeOf key) ok).1 ∧
    (∀ r, r ∈ liveRecs (remove keyOf t key (codeOf key) ok).1 ↔ r ∈ liveRecs t ∧ r ≠ r0) ∧
    (remove keyOf t key (codeOf key) ok).1.count + 1 = t.count ∧
    ((remove keyOf t key (codeOf key) ok).2.1 = .success ∨
      (ok = false ∧ (remove keyOf t key (codeOf key) ok).2.1 = .noMem))
  rw [e1, e2, e3]
  exact erase_live keyOf codeOf t h i _ r0 ok hi

/-! ## erase at an arbitrary iterator value -/

/-- `zix_hash_erase(i)` at a position that holds no record — the end iterator, a tombstone, an
empty slot, or any out-of-range value — is refused with BAD_ARG: the table is untouched, `removed`
is NULL and no user callback runs.  No invariant is needed. -/
theorem eraseAt_not_record (keyOf : Nat → Nat) (t : Table) (i : Nat) (ok : Bool)
    (hnone : recordAt t i = none) :
    eraseAt keyOf t i ok = (t, .badArg, none, []) := by
  unfold eraseAt; rw [hnone]

/-- No position at or beyond the end iterator holds a record (in any table). -/
theorem recordAt_ge (t : Table) (i : Nat) (hi : t.n ≤ i) : recordAt t i = none := by
  unfold recordAt
  rw [List.getD_eq_getElem?_getD, List.getElem?_eq_none hi]
  rfl

/-- Erasing at the end iterator (`zix_hash_end`, index `t.n`) is refused with BAD_ARG and nothing
changes — in every table, no hypothesis needed. -/
theorem eraseAt_end (keyOf : Nat → Nat) (t : Table) (ok : Bool) :
    eraseAt keyOf t t.n ok = (t, .badArg, none, []) :=
  eraseAt_not_record keyOf t t.n ok (recordAt_ge t t.n (Nat.le_refl _))

/-- A position holds a record exactly when its slot is live. -/
theorem recordAt_some_iff {t : Table} {i r : Nat} : recordAt t i = some r ↔ ∃ c, HoldsAt t i c r := by
  unfold recordAt
  constructor
  · intro hrec
    cases hs : t.slots.getD i .empty with
    | empty => rw [hs] at hrec; cases hrec
    | tomb => rw [hs] at hrec; cases hrec
    | live c r' =>
      rw [hs] at hrec
      cases hrec
      exact ⟨c, holdsAt_iff.2 hs⟩
  · rintro ⟨c, hc⟩
    rw [holdsAt_iff.1 hc]

/-- Erasing at ANY position that holds a record hands back exactly that record, keeps the
invariant, and leaves all other records in place (whether or not the table could be shrunk): the
conclusion of `remove_present`, without going through `find`. -/
theorem eraseAt_record (keyOf codeOf : Nat → Nat) (t : Table) (h : Inv keyOf codeOf t) (i r0 : Nat) (ok : Bool)
    (hrec : recordAt t i = some r0) :
    let res := eraseAt keyOf t i ok
    res.2.2.1 = some r0 ∧ Inv keyOf codeOf res.1 ∧
    (∀ r, r ∈ liveRecs res.1 ↔ r ∈ liveRecs t ∧ r ≠ r0) ∧ res.1.count + 1 = t.count ∧
    (res.2.1 = .success ∨ (ok = false ∧ res.2.1 = .noMem)) := by
  intro res
  obtain ⟨c, hi⟩ := recordAt_some_iff.1 hrec
  have e : res = erase keyOf t i ok := by
    show eraseAt keyOf t i ok = _
    unfold eraseAt; rw [hrec]
  rw [e]
  exact erase_live keyOf codeOf t h i c r0 ok hi

/-! ## size and iteration -/

/-- `zix_hash_size` is the number of live records and begin..end visits each exactly once. -/
theorem size_and_iteration (keyOf codeOf : Nat → Nat) (t : Table) (h : Inv keyOf codeOf t)
    (hinj : ∀ i j c d r, HoldsAt t i c r → HoldsAt t j d r → i = j) :
    t.count = (iterate t).length ∧ (iterate t).Nodup := by
  refine ⟨h.countEq, ?_⟩
  rw [iterate_eq]
  exact nodup_liveList fun i j c d r hi hj => hinj i j c d r (holdsAt_iff.2 hi) (holdsAt_iff.2 hj)

/-! ## callbacks only see user data in the documented roles -/

/-- Every callback event of `find` is `hash key`, `key r` for a stored record `r`, or
`eq (keyOf r) key` for a stored record `r` (stored key first, probe key second). -/
theorem find_callbacks (keyOf : Nat → Nat) (t : Table) (key code : Nat) :
    ∀ e ∈ (find keyOf t key code).2,
      e = .hash key ∨ (∃ r ∈ liveRecs t, e = .key r) ∨ (∃ r ∈ liveRecs t, e = .eq (keyOf r) key) := by
  apply find_events
  · exact Or.inl rfl
  · intro i c r hi
    have hr : r ∈ liveRecs t := mem_liveRecs.2 ⟨i, c, holdsAt_iff.2 hi⟩
    exact ⟨Or.inr (Or.inl ⟨r, hr, rfl⟩), Or.inr (Or.inr ⟨r, hr, rfl⟩)⟩

theorem insert_callbacks (keyOf : Nat → Nat) (t : Table) (rec code : Nat) (ok : Bool) :
    ∀ e ∈ (insert keyOf t rec code ok).2.2,
      e = .hash (keyOf rec) ∨ (∃ r, (r ∈ liveRecs t ∨ r = rec) ∧ e = .key r) ∨
      (∃ r s, (r ∈ liveRecs t ∨ r = rec) ∧ (s ∈ liveRecs t ∨ s = rec) ∧ e = .eq (keyOf r) (keyOf s)) := by
  apply insert_events keyOf t rec code ok
    (fun e => e = .hash (keyOf rec) ∨ (∃ r, (r ∈ liveRecs t ∨ r = rec) ∧ e = .key r) ∨
      (∃ r s, (r ∈ liveRecs t ∨ r = rec) ∧ (s ∈ liveRecs t ∨ s = rec) ∧ e = .eq (keyOf r) (keyOf s)))
    (fun r => r ∈ liveRecs t ∨ r = rec)
  · exact Or.inl rfl
  · intro r hr; exact Or.inr (Or.inl ⟨r, hr, rfl⟩)
  · intro r s hr hs; exact Or.inr (Or.inr ⟨r, s, hr, hs, rfl⟩)
  · intro r hr; left; rw [liveRecs_eq]; exact mem_liveList.2 hr
  · exact Or.inr rfl

/-! ## non-vacuity: a constant hash function; a table whose every non-live slot is a tombstone -/
example : (find (fun r => r) ⟨[.live 7 1, .tomb, .live 7 2, .tomb], 2⟩ 9 7).1 = none := by decide
example : (insert (fun r => r) (insert (fun r => r) new 1 7 true).1 2 7 true).2.1 = .success := by decide
/-! erase at a live slot, at a tombstone, at an empty slot, at the end iterator and beyond it -/
example : (eraseAt (fun r => r) ⟨[.live 7 1, .tomb, .live 7 2, .empty], 2⟩ 2 true).2 = (.success, some 2, []) := by decide
example : (eraseAt (fun r => r) ⟨[.live 7 1, .tomb, .live 7 2, .empty], 2⟩ 1 true).2 = (.badArg, none, []) := by decide
example : (eraseAt (fun r => r) ⟨[.live 7 1, .tomb, .live 7 2, .empty], 2⟩ 3 true).2 = (.badArg, none, []) := by decide
example : (eraseAt (fun r => r) ⟨[.live 7 1, .tomb, .live 7 2, .empty], 2⟩ 4 true).2 = (.badArg, none, []) := by decide
example : (eraseAt (fun r => r) ⟨[.live 7 1, .tomb, .live 7 2, .empty], 2⟩ 9 true).2 = (.badArg, none, []) := by decide

/-! ## counterexample to the inductiveness of the ORIGINAL invariant (without `pow2`) -/
namespace Counterexample

/-- The invariant exactly as originally stated (no `pow2` field). -/
structure InvOrig (keyOf codeOf : Nat → Nat) (t : Table) : Prop where
  size4     : 4 ≤ t.n
  countEq   : t.count = (liveRecs t).length
  load      : t.count < t.n
  codes     : ∀ i c r, HoldsAt t i c r → c = codeOf (keyOf r)
  distinct  : ∀ i j c d r s, HoldsAt t i c r → HoldsAt t j d s → keyOf r = keyOf s → i = j
  reachable : ∀ i c r, HoldsAt t i c r → PathNonEmpty t (fold c t.n) i

/-- five slots, record 1 (key 1, code 0) in its home slot -/
def t5 : Table := ⟨[.live 0 1, .empty, .empty, .empty, .empty], 1⟩

theorem t5_holds {i c r : Nat} (h : HoldsAt t5 i c r) : i = 0 ∧ c = 0 ∧ r = 1 := by
  unfold HoldsAt t5 at h
  match i, h with
  | 0, h => simp at h; omega
  | 1, h => simp at h
  | 2, h => simp at h
  | 3, h => simp at h
  | 4, h => simp at h
  | i + 5, h => simp at h

theorem t5_inv : InvOrig (fun r => r) (fun _ => 0) t5 := by
  refine ⟨by decide, by decide, by decide, ?_, ?_, ?_⟩
  · intro i c r h; exact (t5_holds h).2.1
  · intro i j c d r s hi hj _; rw [(t5_holds hi).1, (t5_holds hj).1]
  · intro i c r h
    obtain ⟨rfl, rfl, rfl⟩ := t5_holds h
    intro d hd
    have h0 : (0 + t5.n - fold 0 t5.n) % t5.n = 0 := by decide
    rw [h0] at hd
    exact absurd hd (Nat.not_lt_zero d)

/-- `remove_present` fails for the original invariant: the table shrinks to 2 slots. -/
theorem orig_inv_not_preserved :
    InvOrig (fun r => r) (fun _ => 0) t5 ∧ 1 ∈ liveRecs t5 ∧
    (remove (fun r => r) t5 1 0 true).1.n = 2 ∧
    ¬ InvOrig (fun r => r) (fun _ => 0) (remove (fun r => r) t5 1 0 true).1 := by
  refine ⟨t5_inv, by decide, by decide, ?_⟩
  intro h
  exact absurd h.size4 (by decide)

end Counterexample

end Zix.C03
