import ZixModel.Properties.C03
/-! # C03 at the level of whole histories: the hash table refines an abstract map

`Properties/C03.lean` proves one-step facts under the invariant `Inv`.  Here they are lifted over
every sequence of insert / find / remove / erase-at-an-iterator calls starting from `zix_hash_new`, for every key accessor
`keyOf` and every hash function `codeOf` (constant, colliding, anything), and every pattern of
allocation failures: each output is one the abstract map (a duplicate-free list of live records
keyed by `keyOf`) allows, the set of live records is the abstract one, `zix_hash_size` is its size,
and iteration visits each live record exactly once. -/
namespace Zix.C03
open Zix.Hash

inductive Op where
  | insert (rec : Nat) (allocOk : Bool)
  | find (key : Nat)
  | remove (key : Nat) (allocOk : Bool)
  | eraseAt (i : Nat) (allocOk : Bool)   -- `zix_hash_erase` at ANY iterator value (slot index; `n` = end)
deriving Repr

inductive Out where
  | status (s : Status)
  | found (rec : Nat)
  | absent
  | removed (s : Status) (rec : Nat)
deriving Repr, DecidableEq

/-- The implementation model driven by an operation. -/
def step (keyOf codeOf : Nat → Nat) (t : Table) : Op → Table × Out
  | .insert rec ok =>
    let r := insert keyOf t rec (codeOf (keyOf rec)) ok
    (r.1, .status r.2.1)
  | .find key =>
    match (find keyOf t key (codeOf key)).1 with
    | some i =>
      match recordAt t i with
      | some r => (t, .found r)
      | none => (t, .absent)
    | none => (t, .absent)
  | .remove key ok =>
    let r := remove keyOf t key (codeOf key) ok
    match r.2.2.1 with
    | some rec => (r.1, .removed r.2.1 rec)
    | none => (r.1, .status r.2.1)
  | .eraseAt i ok =>
    let r := eraseAt keyOf t i ok
    match r.2.2.1 with
    | some rec => (r.1, .removed r.2.1 rec)
    | none => (r.1, .status r.2.1)

/-- The abstract state after a step, determined by the operation and its output. -/
def specNext (live : List Nat) : Op → Out → List Nat
  | .insert rec _, .status .success => rec :: live
  | .remove _ _, .removed _ r => live.filter (· ≠ r)
  | .eraseAt _ _, .removed _ r => live.filter (· ≠ r)
  | _, _ => live

/-- What the abstract map allows: `live` is the list of live records before the call. -/
def Allowed (keyOf : Nat → Nat) (live : List Nat) : Op → Out → Prop
  | .insert rec ok, out =>
    ((∃ r ∈ live, keyOf r = keyOf rec) ∧ out = .status .exists_) ∨
    ((∀ r ∈ live, keyOf r ≠ keyOf rec) ∧ (out = .status .success ∨ (ok = false ∧ out = .status .noMem)))
  | .find key, out =>
    (∃ r ∈ live, keyOf r = key ∧ out = .found r) ∨ ((∀ r ∈ live, keyOf r ≠ key) ∧ out = .absent)
  | .remove key ok, out =>
    (∃ r ∈ live, keyOf r = key ∧ (out = .removed .success r ∨ (ok = false ∧ out = .removed .noMem r))) ∨
    ((∀ r ∈ live, keyOf r ≠ key) ∧ out = .status .notFound)
  | .eraseAt _ ok, out =>
    -- the abstract map cannot know which slot an iterator value denotes: either the call is refused
    -- (BAD_ARG, nothing changes) or some live record is removed and that record is reported
    out = .status .badArg ∨
    ∃ r ∈ live, (out = .removed .success r ∨ (ok = false ∧ out = .removed .noMem r))

/-- The table represents the abstract list: iteration is a permutation of it (each live record
exactly once) and the size field is its length. -/
def Abs (t : Table) (live : List Nat) : Prop :=
  (iterate t).Perm live ∧ t.count = live.length

/-- Keys of the abstract list are pairwise distinct. -/
def KeysDistinct (keyOf : Nat → Nat) (live : List Nat) : Prop :=
  (live.map keyOf).Nodup

/-- Every step from the given state on is allowed and keeps the representation. -/
def StepsAllowed (keyOf codeOf : Nat → Nat) : Table → List Nat → List Op → Prop
  | _, _, [] => True
  | t, live, op :: rest =>
    let r := step keyOf codeOf t op
    let live' := specNext live op r.2
    Allowed keyOf live op r.2 ∧ Abs r.1 live' ∧ KeysDistinct keyOf live' ∧ Inv keyOf codeOf r.1 ∧
    StepsAllowed keyOf codeOf r.1 live' rest

/-! ### helper lemmas -/

theorem iterate_nodup {keyOf codeOf : Nat → Nat} {t : Table} (h : Inv keyOf codeOf t) :
    (iterate t).Nodup :=
  (size_and_iteration keyOf codeOf t h
    (fun i j c d r hi hj => h.distinct i j c d r r hi hj rfl)).2

theorem abs_of_perm {keyOf codeOf : Nat → Nat} {t : Table} {live : List Nat}
    (h : Inv keyOf codeOf t) (hp : (iterate t).Perm live) : Abs t live :=
  ⟨hp, h.countEq.trans hp.length_eq⟩

theorem abs_new : Abs new [] := ⟨List.Perm.refl _, rfl⟩

/-- `step_refines` with the result of the step named explicitly. -/
theorem step_refines_aux (keyOf codeOf : Nat → Nat) (t : Table) (live : List Nat)
    (h : Inv keyOf codeOf t) (ha : Abs t live) (hk : KeysDistinct keyOf live) (op : Op) :
    ∃ t' out, step keyOf codeOf t op = (t', out) ∧
      Allowed keyOf live op out ∧ Abs t' (specNext live op out) ∧
      KeysDistinct keyOf (specNext live op out) ∧ Inv keyOf codeOf t' := by
  have hmem : ∀ x, x ∈ liveRecs t ↔ x ∈ live := fun x => ha.1.mem_iff
  have hnd : live.Nodup := ha.1.nodup (iterate_nodup h)
  cases op with
  | insert rec ok =>
    by_cases hdup : ∃ x ∈ live, keyOf x = keyOf rec
    · have hdup' : ∃ x ∈ liveRecs t, keyOf x = keyOf rec := by
        obtain ⟨x, hx, hkx⟩ := hdup
        exact ⟨x, (hmem x).2 hx, hkx⟩
      obtain ⟨e1, e2⟩ := insert_exists keyOf codeOf t h rec ok hdup'
      refine ⟨t, .status .exists_, ?_, Or.inl ⟨hdup, rfl⟩, ha, hk, h⟩
      show ((insert keyOf t rec (codeOf (keyOf rec)) ok).1,
        Out.status (insert keyOf t rec (codeOf (keyOf rec)) ok).2.1) = _
      rw [e1, e2]
    · have hnew : ∀ x ∈ live, keyOf x ≠ keyOf rec := fun x hx hkx => hdup ⟨x, hx, hkx⟩
      have hnew' : ∀ x ∈ liveRecs t, keyOf x ≠ keyOf rec := fun x hx => hnew x ((hmem x).1 hx)
      have hin : ((insert keyOf t rec (codeOf (keyOf rec)) ok).2.1 = .success ∧
            Inv keyOf codeOf (insert keyOf t rec (codeOf (keyOf rec)) ok).1 ∧
            (∀ r, r ∈ liveRecs (insert keyOf t rec (codeOf (keyOf rec)) ok).1 ↔ r ∈ liveRecs t ∨ r = rec) ∧
            (insert keyOf t rec (codeOf (keyOf rec)) ok).1.count = t.count + 1) ∨
          (ok = false ∧ (insert keyOf t rec (codeOf (keyOf rec)) ok).2.1 = .noMem ∧
            (insert keyOf t rec (codeOf (keyOf rec)) ok).1 = t) :=
        insert_new keyOf codeOf t h rec ok hnew'
      rcases hin with ⟨s, hi, hm, _⟩ | ⟨hok, s, e⟩
      · refine ⟨(insert keyOf t rec (codeOf (keyOf rec)) ok).1, .status .success, ?_,
          Or.inr ⟨hnew, Or.inl rfl⟩, ?_, ?_, hi⟩
        · show ((insert keyOf t rec (codeOf (keyOf rec)) ok).1,
            Out.status (insert keyOf t rec (codeOf (keyOf rec)) ok).2.1) = _
          rw [s]
        · show Abs _ (rec :: live)
          have hnd' : (rec :: live).Nodup :=
            List.nodup_cons.2 ⟨fun hx => hnew rec hx rfl, hnd⟩
          refine abs_of_perm hi ((List.perm_ext_iff_of_nodup (iterate_nodup hi) hnd').2 ?_)
          intro a
          rw [List.mem_cons, ← hmem a]
          exact (hm a).trans Or.comm
        · show (List.map keyOf (rec :: live)).Nodup
          rw [List.map_cons]
          refine List.nodup_cons.2 ⟨?_, hk⟩
          intro hx
          obtain ⟨x, hx, hkx⟩ := List.mem_map.1 hx
          exact hnew x hx hkx
      · refine ⟨t, .status .noMem, ?_, Or.inr ⟨hnew, Or.inr ⟨hok, rfl⟩⟩, ha, hk, h⟩
        show ((insert keyOf t rec (codeOf (keyOf rec)) ok).1,
          Out.status (insert keyOf t rec (codeOf (keyOf rec)) ok).2.1) = _
        rw [s, e]
  | find key =>
    cases hf : (find keyOf t key (codeOf key)).1 with
    | none =>
      have habs := (find_none_iff keyOf codeOf t h key).1 hf
      refine ⟨t, .absent, ?_, Or.inr ⟨fun x hx => habs x ((hmem x).2 hx), rfl⟩, ha, hk, h⟩
      simp only [step, hf]
    | some i =>
      obtain ⟨r, hr, hkr⟩ := (find_some_iff keyOf codeOf t h key i).1 hf
      have hrec : recordAt t i = some r := by
        unfold recordAt; rw [holdsAt_iff.1 hr]
      have hrl : r ∈ live := (hmem r).1 (mem_liveRecs.2 ⟨i, _, hr⟩)
      refine ⟨t, .found r, ?_, Or.inl ⟨r, hrl, hkr, rfl⟩, ha, hk, h⟩
      simp only [step, hf, hrec]
  | remove key ok =>
    by_cases hpres : ∃ x ∈ live, keyOf x = key
    · obtain ⟨r0, hr0, hk0⟩ := hpres
      have hrem : (remove keyOf t key (codeOf key) ok).2.2.1 = some r0 ∧
          Inv keyOf codeOf (remove keyOf t key (codeOf key) ok).1 ∧
          (∀ r, r ∈ liveRecs (remove keyOf t key (codeOf key) ok).1 ↔ r ∈ liveRecs t ∧ r ≠ r0) ∧
          (remove keyOf t key (codeOf key) ok).1.count + 1 = t.count ∧
          ((remove keyOf t key (codeOf key) ok).2.1 = .success ∨
            (ok = false ∧ (remove keyOf t key (codeOf key) ok).2.1 = .noMem)) :=
        remove_present keyOf codeOf t h key r0 ok ((hmem r0).2 hr0) hk0
      obtain ⟨e, hi, hm, _, hs⟩ := hrem
      refine ⟨(remove keyOf t key (codeOf key) ok).1,
        .removed (remove keyOf t key (codeOf key) ok).2.1 r0, ?_, ?_, ?_, ?_, hi⟩
      · simp only [step, e]
      · refine Or.inl ⟨r0, hr0, hk0, ?_⟩
        rcases hs with s | ⟨o, s⟩
        · rw [s]; exact Or.inl rfl
        · rw [s]; exact Or.inr ⟨o, rfl⟩
      · show Abs _ (live.filter (· ≠ r0))
        have hnd' : (live.filter (· ≠ r0)).Nodup := hnd.sublist List.filter_sublist
        refine abs_of_perm hi ((List.perm_ext_iff_of_nodup (iterate_nodup hi) hnd').2 ?_)
        intro a
        rw [List.mem_filter, decide_eq_true_eq, ← hmem a]
        exact hm a
      · show (List.map keyOf (live.filter (· ≠ r0))).Nodup
        exact List.Nodup.sublist (List.filter_sublist.map keyOf) hk
    · have habs : ∀ x ∈ live, keyOf x ≠ key := fun x hx hkx => hpres ⟨x, hx, hkx⟩
      obtain ⟨e1, e2, e3⟩ := remove_absent keyOf codeOf t h key ok
        (fun x hx => habs x ((hmem x).1 hx))
      refine ⟨t, .status .notFound, ?_, Or.inr ⟨habs, rfl⟩, ha, hk, h⟩
      simp only [step, e3, e1, e2]
  | eraseAt i ok =>
    cases hrec : recordAt t i with
    | none =>
      have e := eraseAt_not_record keyOf t i ok hrec
      refine ⟨t, .status .badArg, ?_, Or.inl rfl, ha, hk, h⟩
      simp only [step, e]
    | some r0 =>
      have her : (eraseAt keyOf t i ok).2.2.1 = some r0 ∧
          Inv keyOf codeOf (eraseAt keyOf t i ok).1 ∧
          (∀ r, r ∈ liveRecs (eraseAt keyOf t i ok).1 ↔ r ∈ liveRecs t ∧ r ≠ r0) ∧
          (eraseAt keyOf t i ok).1.count + 1 = t.count ∧
          ((eraseAt keyOf t i ok).2.1 = .success ∨
            (ok = false ∧ (eraseAt keyOf t i ok).2.1 = .noMem)) :=
        eraseAt_record keyOf codeOf t h i r0 ok hrec
      obtain ⟨e, hi, hm, _, hs⟩ := her
      obtain ⟨c, hhold⟩ := recordAt_some_iff.1 hrec
      have hr0 : r0 ∈ live := (hmem r0).1 (mem_liveRecs.2 ⟨i, c, hhold⟩)
      refine ⟨(eraseAt keyOf t i ok).1,
        .removed (eraseAt keyOf t i ok).2.1 r0, ?_, ?_, ?_, ?_, hi⟩
      · simp only [step, e]
      · refine Or.inr ⟨r0, hr0, ?_⟩
        rcases hs with s | ⟨o, s⟩
        · rw [s]; exact Or.inl rfl
        · rw [s]; exact Or.inr ⟨o, rfl⟩
      · show Abs _ (live.filter (· ≠ r0))
        have hnd' : (live.filter (· ≠ r0)).Nodup := hnd.sublist List.filter_sublist
        refine abs_of_perm hi ((List.perm_ext_iff_of_nodup (iterate_nodup hi) hnd').2 ?_)
        intro a
        rw [List.mem_filter, decide_eq_true_eq, ← hmem a]
        exact hm a
      · show (List.map keyOf (live.filter (· ≠ r0))).Nodup
        exact List.Nodup.sublist (List.filter_sublist.map keyOf) hk

theorem step_refines (keyOf codeOf : Nat → Nat) (t : Table) (live : List Nat)
    (h : Inv keyOf codeOf t) (ha : Abs t live) (hk : KeysDistinct keyOf live) (op : Op) :
    let r := step keyOf codeOf t op
    let live' := specNext live op r.2
    Allowed keyOf live op r.2 ∧ Abs r.1 live' ∧ KeysDistinct keyOf live' ∧ Inv keyOf codeOf r.1 := by
  obtain ⟨t', out, e, h1, h2, h3, h4⟩ := step_refines_aux keyOf codeOf t live h ha hk op
  show Allowed keyOf live op (step keyOf codeOf t op).2 ∧
    Abs (step keyOf codeOf t op).1 (specNext live op (step keyOf codeOf t op).2) ∧
    KeysDistinct keyOf (specNext live op (step keyOf codeOf t op).2) ∧
    Inv keyOf codeOf (step keyOf codeOf t op).1
  rw [e]
  exact ⟨h1, h2, h3, h4⟩

theorem stepsAllowed_of_inv (keyOf codeOf : Nat → Nat) :
    ∀ (ops : List Op) (t : Table) (live : List Nat),
      Inv keyOf codeOf t → Abs t live → KeysDistinct keyOf live →
      StepsAllowed keyOf codeOf t live ops
  | [], _, _, _, _, _ => trivial
  | op :: rest, t, live, h, ha, hk => by
    obtain ⟨h1, h2, h3, h4⟩ := step_refines keyOf codeOf t live h ha hk op
    exact ⟨h1, h2, h3, h4, stepsAllowed_of_inv keyOf codeOf rest _ _ h4 h2 h3⟩

/-- **Refinement.**  For every key accessor, every hash function, and every history from
`zix_hash_new`, every call returns what the abstract map allows. -/
theorem hash_refines_map (keyOf codeOf : Nat → Nat) (ops : List Op) :
    StepsAllowed keyOf codeOf new [] ops :=
  stepsAllowed_of_inv keyOf codeOf ops new [] (inv_new keyOf codeOf) abs_new List.nodup_nil

def run (keyOf codeOf : Nat → Nat) (t : Table) (ops : List Op) : Table :=
  ops.foldl (fun t op => (step keyOf codeOf t op).1) t

theorem run_inv (keyOf codeOf : Nat → Nat) :
    ∀ (ops : List Op) (t : Table) (live : List Nat),
      Inv keyOf codeOf t → Abs t live → KeysDistinct keyOf live →
      Inv keyOf codeOf (run keyOf codeOf t ops)
  | [], _, _, h, _, _ => h
  | op :: rest, t, live, h, ha, hk => by
    obtain ⟨_, h2, h3, h4⟩ := step_refines keyOf codeOf t live h ha hk op
    show Inv keyOf codeOf (run keyOf codeOf (step keyOf codeOf t op).1 rest)
    exact run_inv keyOf codeOf rest _ _ h4 h2 h3

theorem reachable_inv' (keyOf codeOf : Nat → Nat) (ops : List Op) :
    Inv keyOf codeOf (run keyOf codeOf new ops) :=
  run_inv keyOf codeOf ops new [] (inv_new keyOf codeOf) abs_new List.nodup_nil

/-- Every reachable table satisfies the invariant; its size field is the number of records iteration
visits and iteration visits no record twice. -/
theorem reachable_inv (keyOf codeOf : Nat → Nat) (ops : List Op) :
    Inv keyOf codeOf (run keyOf codeOf new ops) ∧
    (run keyOf codeOf new ops).count = (iterate (run keyOf codeOf new ops)).length ∧
    (iterate (run keyOf codeOf new ops)).Nodup :=
  have h := reachable_inv' keyOf codeOf ops
  ⟨h, h.countEq, iterate_nodup h⟩

/-- In every reachable table: a find returns a live record with exactly that key if there is one and
nothing otherwise (the pointwise form of "faithful map"). -/
theorem reachable_find (keyOf codeOf : Nat → Nat) (ops : List Op) (key : Nat) :
    let t := run keyOf codeOf new ops
    (∀ r, (step keyOf codeOf t (.find key)).2 = .found r → r ∈ iterate t ∧ keyOf r = key) ∧
    ((step keyOf codeOf t (.find key)).2 = .absent ↔ ∀ r ∈ iterate t, keyOf r ≠ key) := by
  have h := reachable_inv' keyOf codeOf ops
  generalize run keyOf codeOf new ops = t at h
  show (∀ r, (step keyOf codeOf t (.find key)).2 = .found r → r ∈ iterate t ∧ keyOf r = key) ∧
    ((step keyOf codeOf t (.find key)).2 = .absent ↔ ∀ r ∈ iterate t, keyOf r ≠ key)
  cases hf : (find keyOf t key (codeOf key)).1 with
  | none =>
    have habs : ∀ r ∈ iterate t, keyOf r ≠ key := (find_none_iff keyOf codeOf t h key).1 hf
    have e : step keyOf codeOf t (.find key) = (t, .absent) := by simp only [step, hf]
    rw [e]
    exact ⟨fun r hr => Out.noConfusion hr, ⟨fun _ => habs, fun _ => rfl⟩⟩
  | some i =>
    obtain ⟨r, hr, hkr⟩ := (find_some_iff keyOf codeOf t h key i).1 hf
    have hrec : recordAt t i = some r := by
      unfold recordAt; rw [holdsAt_iff.1 hr]
    have hrl : r ∈ iterate t := mem_liveRecs.2 ⟨i, _, hr⟩
    have e : step keyOf codeOf t (.find key) = (t, .found r) := by simp only [step, hf, hrec]
    rw [e]
    refine ⟨fun r' hr' => ?_,
      ⟨fun hab => Out.noConfusion hab, fun hall => absurd hkr (hall r hrl)⟩⟩
    have hrr : r = r' := Out.found.inj hr'
    subst hrr
    exact ⟨hrl, hkr⟩

/-! non-vacuity: a constant hash function, growth, removal with shrink refused -/
example : ((run (fun r => r % 100) (fun _ => 7) new
    [.insert 1 true, .insert 2 true, .insert 101 true, .insert 3 true, .remove 2 false, .insert 4 true]).count) = 3 := by decide

/-- The outputs of a history, in call order (for the examples below). -/
def outs (keyOf codeOf : Nat → Nat) (t : Table) : List Op → List Out
  | [] => []
  | op :: rest => (step keyOf codeOf t op).2 :: outs keyOf codeOf (step keyOf codeOf t op).1 rest

/-! non-vacuity for erase at an iterator.  Every code is 7; after the two inserts the table has 8
slots with record 1 in slot 0 and record 2 in slot 7.  Erasing at slot 7 removes record 2 (the
shrink is refused: NO_MEM, but the record is still removed and reported); erasing at the end
iterator (index 8), at the tombstone just made (slot 7), at an empty slot (3) and far out of range
is refused with BAD_ARG and changes nothing; erasing at slot 0 then removes record 1 and shrinks. -/
example : outs (fun r => r) (fun _ => 7) new
    [.insert 1 true, .insert 2 true, .eraseAt 7 false, .eraseAt 8 true, .eraseAt 7 true, .eraseAt 3 true,
      .eraseAt 99 true, .find 1, .find 2, .eraseAt 0 true, .eraseAt 0 true] =
    [.status .success, .status .success, .removed .noMem 2, .status .badArg, .status .badArg, .status .badArg,
      .status .badArg, .found 1, .absent, .removed .success 1, .status .badArg] := by decide
example : (run (fun r => r) (fun _ => 7) new
    [.insert 1 true, .insert 2 true, .eraseAt 7 false, .eraseAt 8 true, .eraseAt 7 true, .eraseAt 3 true]).slots =
    [.live 7 1, .empty, .empty, .empty, .empty, .empty, .empty, .tomb] := by decide
example : (run (fun r => r) (fun _ => 7) new
    [.insert 1 true, .insert 2 true, .eraseAt 7 false, .eraseAt 8 true, .eraseAt 7 true, .eraseAt 3 true]).count = 1 := by
  decide
/-- the end iterator of the reached table: both components of the step -/
example : (step (fun r => r) (fun _ => 7) ⟨[.live 7 1, .tomb, .live 7 2, .empty], 2⟩ (.eraseAt 4 true)).2 =
      .status .badArg ∧
    (step (fun r => r) (fun _ => 7) ⟨[.live 7 1, .tomb, .live 7 2, .empty], 2⟩ (.eraseAt 4 true)).1.slots =
      [.live 7 1, .tomb, .live 7 2, .empty] ∧
    (step (fun r => r) (fun _ => 7) ⟨[.live 7 1, .tomb, .live 7 2, .empty], 2⟩ (.eraseAt 2 true)).2 =
      .removed .success 2 := by decide
/-- the abstract map allows both outcomes (and only a live record may be reported removed) -/
example : Allowed (fun r => r) [2, 1] (.eraseAt 4 true) (.status .badArg) ∧
    Allowed (fun r => r) [2, 1] (.eraseAt 0 true) (.removed .success 2) ∧
    ¬ Allowed (fun r => r) [2, 1] (.eraseAt 0 true) (.removed .success 5) ∧
    ¬ Allowed (fun r => r) [2, 1] (.eraseAt 0 true) (.removed .noMem 2) := by
  refine ⟨Or.inl rfl, Or.inr ⟨2, by simp, Or.inl rfl⟩, ?_, ?_⟩ <;> simp [Allowed]

end Zix.C03
