import ZixModel.Model.RingRA
import ZixModel.Lemmas.RingRA
import ZixModel.Model.RingRAX
/-! # C04 — the ring is a correct single-producer/single-consumer channel on every schedule

Property theorems only; helper lemmas live in `ZixModel/Lemmas/RingRA.lean`.
All theorems quantify over every ring size `n > 0`, every sequence of writer-side calls used as
the API intends (`wfCalls`), every sequence of reader-side calls, and EVERY schedule: every
interleaving of the two threads at every shared-memory access and every value (fresh or stale)
an acquire load may return. -/
namespace Zix.C04
open Zix.RingRA

/-- The memory orders compiled into ring.c (`Generated/RingOrders.lean`, regenerated on every run from
the instrumented object code) are the ones the machine of `Model/RingRA.lean` assumes: every load of
the peer's head is at least acquire and every store of the own head at least release.  When this
stops checking, the C04 check searches `Model/RingRAX.lean` with the observed orders for a racy schedule. -/
theorem ring_orders_as_proved : Zix.RingRAX.Orders.observed = Zix.RingRAX.Orders.proved := by decide

/-- No execution contains a data race: every plain buffer access is ordered (through a
release/acquire pair) with the conflicting access of the other thread. -/
theorem spsc_race_free (n : Nat) (hn : 0 < n) (wcalls : List WCall) (rcalls : List RCall)
    (hw : wfCalls false wcalls = true) (sched : List Choice) :
    (run (init n wcalls rcalls) sched).race = false :=
  (Inv.reachable hn rcalls hw sched).noRace

/-- Every successful read or peek delivers exactly the committed bytes at the reader's position:
nothing torn, reordered, duplicated, or visible before its commit. -/
theorem spsc_deliveries_are_committed (n : Nat) (hn : 0 < n) (wcalls : List WCall) (rcalls : List RCall)
    (hw : wfCalls false wcalls = true) (sched : List Choice) :
    let s := run (init n wcalls rcalls) sched
    ∀ d ∈ s.deliveries, d.1 + d.2.length ≤ s.committedBytes.length ∧ d.2 = (s.committedBytes.drop d.1).take d.2.length :=
  (Inv.reachable hn rcalls hw sched).dels

/-- With only `read` calls on the reader side (no skip), the concatenated output is a prefix of the
concatenated committed writes. -/
theorem spsc_prefix (n : Nat) (hn : 0 < n) (wcalls : List WCall) (rcalls : List RCall)
    (hw : wfCalls false wcalls = true) (hr : ∀ c ∈ rcalls, ∃ k, c = .read k ∨ c = .peek k) (sched : List Choice) :
    (run (init n wcalls rcalls) sched).output <+: (run (init n wcalls rcalls) sched).committedBytes := by
  have hr' : ∀ c ∈ rcalls, c.isSkip = false := by
    intro c hc
    obtain ⟨k, rfl | rfl⟩ := hr c hc <;> rfl
  rw [output_eq_take hn hw hr' sched]
  exact List.take_prefix _ _

/-- Nothing is lost: the reader never consumes past what is committed, the committed count is the
number of committed bytes, and every committed byte not yet consumed sits in its cell. -/
theorem spsc_contents (n : Nat) (hn : 0 < n) (wcalls : List WCall) (rcalls : List RCall)
    (hw : wfCalls false wcalls = true) (sched : List Choice) :
    let s := run (init n wcalls rcalls) sched
    s.r.consumed ≤ s.w.committed ∧ s.w.committed = s.committedBytes.length ∧ s.w.committed - s.r.consumed ≤ n - 1 ∧
    ∀ p, s.r.consumed ≤ p → p < s.w.committed → s.cells.getD (p % n) (0, 0) = (p, s.committedBytes.getD p 0) := by
  intro s
  have h : Inv s := Inv.reachable hn rcalls hw sched
  have hn' : s.n = n := run_n _ _
  have hocc := h.occ
  rw [hn'] at hocc
  refine ⟨h.consLe, h.cbLen.symm, by omega, ?_⟩
  intro p h1 h2
  have hc := h.cellsOk p h1 (by omega)
  rw [hn'] at hc
  rw [hc, getD_append_lt (by rw [h.cbLen]; exact h2)]

/-- Once both sides are idle the ring holds exactly the committed bytes not yet consumed
(`spsc_contents` specialised), and the output of a reader that only reads is everything consumed. -/
theorem spsc_quiescent_contents (n : Nat) (hn : 0 < n) (wcalls : List WCall) (rcalls : List RCall)
    (hw : wfCalls false wcalls = true) (hr : ∀ c ∈ rcalls, ∃ k, c = .read k) (sched : List Choice)
    (hidle : (run (init n wcalls rcalls) sched).idle = true) :
    let s := run (init n wcalls rcalls) sched
    s.output = s.committedBytes.take s.r.consumed := by
  intro s
  have hr' : ∀ c ∈ rcalls, c.isSkip = false := by
    intro c hc
    obtain ⟨k, rfl⟩ := hr c hc
    rfl
  have ha : s.r.acts = [] := by
    simp only [St.idle, Bool.and_eq_true, List.isEmpty_iff] at hidle
    exact hidle.1.1.2
  have hout : s.output = s.committedBytes.take (outEnd s.r) := output_eq_take hn hw hr' sched
  rw [hout, outEnd, ha]
  rfl

/-- Neither side ever waits for the other: a thread's step never depends on the peer having made
progress — scheduling only one thread runs all of its calls to completion in a number of steps
bounded by its own work (2 steps per call plus one per byte, plus the release store). -/
def wWork : List WCall → Nat
  | [] => 0
  | .write d :: rest => d.length + 3 + wWork rest
  | .begin_ :: rest => 2 + wWork rest
  | .amend d :: rest => d.length + 2 + wWork rest
  | .commit :: rest => 2 + wWork rest

def rWork : List RCall → Nat
  | [] => 0
  | .read k :: rest => k + 4 + rWork rest
  | .peek k :: rest => k + 3 + rWork rest
  | .skip _ :: rest => 3 + rWork rest

-- ORIGINAL (false as written: the bound ignores the call in flight, `pendingCall`):
-- theorem spsc_wait_free (n : Nat) (wcalls : List WCall) (rcalls : List RCall) (sched : List Choice)
--     (fresh : Nat → Nat) :
--     let s := run (init n wcalls rcalls) sched
--     (let sw := run s ((List.range (wWork s.w.calls + s.w.acts.length + 2)).map (fun i => ⟨.writer, fresh i⟩))
--      sw.w.calls = [] ∧ sw.w.acts = [] ∧ sw.w.pendingCall = none) ∧
--     (let sr := run s ((List.range (rWork s.r.calls + s.r.acts.length + 2)).map (fun i => ⟨.reader, fresh i⟩))
--      sr.r.calls = [] ∧ sr.r.acts = [] ∧ sr.r.pendingCall = none)
-- Counterexample (checked below): after three writer steps of `[begin_, amend [1,2,3]]` the state has
-- `calls = []`, `acts = []`, `pendingCall = some (amend [1,2,3])`; the original bound is 0 + 0 + 2 steps,
-- but the amend still needs 1 (expand) + 3 (bytes) steps.  Likewise a `write d`/`read k` whose acquire
-- load is in flight has been removed from `calls` but not yet expanded into `acts`.
-- Correction: charge the call in flight too — `wWork (s.w.pendingCall.toList ++ s.w.calls)` and
-- `rWork (s.r.pendingCall.toList ++ s.r.calls)`; `wWork`/`rWork` themselves are unchanged.  When no call
-- is in flight (`pendingCall = none`, in particular for `sched = []`) this is the original bound.
theorem spsc_wait_free (n : Nat) (wcalls : List WCall) (rcalls : List RCall) (sched : List Choice)
    (fresh : Nat → Nat) :
    let s := run (init n wcalls rcalls) sched
    -- from ANY reachable state, the writer alone finishes all its remaining work …
    (let sw := run s ((List.range (wWork (s.w.pendingCall.toList ++ s.w.calls) + s.w.acts.length + 2)).map
        (fun i => ⟨.writer, fresh i⟩))
     sw.w.calls = [] ∧ sw.w.acts = [] ∧ sw.w.pendingCall = none) ∧
    -- … and so does the reader alone
    (let sr := run s ((List.range (rWork (s.r.pendingCall.toList ++ s.r.calls) + s.r.acts.length + 2)).map
        (fun i => ⟨.reader, fresh i⟩))
     sr.r.calls = [] ∧ sr.r.acts = [] ∧ sr.r.pendingCall = none) :=
  ⟨writer_wait_free wWork rfl (fun c rest => by cases c <;> rfl) n wcalls rcalls sched fresh _
      (Nat.le_add_right _ 2),
   reader_wait_free rWork rfl (fun c rest => by cases c <;> rfl) n wcalls rcalls sched fresh _
      (Nat.le_add_right _ 2)⟩

/-- The ORIGINAL bound of `spsc_wait_free` fails in a reachable state with a call in flight. -/
example :
    let s := run (init 8 [.begin_, .amend [1, 2, 3]] []) [⟨.writer, 0⟩, ⟨.writer, 0⟩, ⟨.writer, 0⟩]
    let sw := run s ((List.range (wWork s.w.calls + s.w.acts.length + 2)).map (fun _ => (⟨.writer, 0⟩ : Choice)))
    s.w.calls.length = 0 ∧ s.w.acts.length = 0 ∧ s.w.pendingCall.isSome = true ∧ sw.w.acts.length = 2 := by
  decide +kernel

/-! ## non-vacuity: stale loads, a transaction, both threads interleaved -/
example :
    let s := run (init 8 [.write [1, 2, 3], .begin_, .amend [4], .commit] [.read 2, .read 2])
      ((List.range 30).map (fun i => (⟨if i % 5 = 4 then .reader else .writer, i % 2⟩ : Choice)) ++
       (List.range 20).map (fun _ => (⟨.reader, 9⟩ : Choice)))
    s.race = false ∧ s.output = [1, 2, 3, 4] ∧ s.idle = true := by decide +kernel

end Zix.C04
