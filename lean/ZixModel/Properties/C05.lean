import ZixModel.Model.Ring
import ZixModel.Lemmas.Ring
/-! # C05 — ring is an all-or-nothing bounded byte FIFO with atomic transactions

Property theorems only; helper lemmas live in `ZixModel/Lemmas/Ring.lean`. -/
namespace Zix.C05
open Zix.Ring

/-- Representation invariant of a ring made by `new`: power-of-two size ≤ 2^31, heads in range,
buffer of `size` bytes. -/
structure WF (g : Ring) : Prop where
  pow   : ∃ k, k ≤ 31 ∧ g.size = 2 ^ k
  rlt   : g.r < g.size
  wlt   : g.w < g.size
  blen  : g.buf.length = g.size

/-- The bytes stored in the ring, oldest first (the abstraction function to the FIFO spec). -/
def content (g : Ring) : List Nat :=
  (List.range (readSpace g)).map (fun i => g.buf.getD ((g.r + i) % g.size) 0)

/-! ## construction -/

/-- `zix_ring_new` refuses exactly the sizes whose rounding does not fit 32 bits — zero and
everything above 2^31 — and no others (before the repair such a ring had a zero-byte buffer and a
capacity of 2^32 - 1). -/
theorem ring_new_refuses_iff (s : Nat) (h : s < 2 ^ 32) :
    new? s = none ↔ (s = 0 ∨ 2 ^ 31 < s) := by
  unfold new?
  constructor
  · intro hn
    by_cases h0 : s = 0
    · exact Or.inl h0
    · by_cases hb : 2 ^ 31 < s
      · exact Or.inr hb
      · obtain ⟨k, _, hk, _, _⟩ := nextPow2_spec s (by omega) (by omega)
        have hpos : 0 < 2 ^ k := Nat.pow_pos (by decide)
        split at hn
        · omega
        · cases hn
  · rintro (h0 | hb)
    · subst h0; simp [nextPow2_zero]
    · simp [nextPow2_big s hb h]

/-- A ring that is created is the one `new` describes (so every theorem below applies to it). -/
theorem ring_new_some (s : Nat) (h1 : 1 ≤ s) (h2 : s ≤ 2 ^ 31) : new? s = some (new s) := by
  obtain ⟨k, _, hk, _, _⟩ := nextPow2_spec s h1 h2
  have hpos : 0 < 2 ^ k := Nat.pow_pos (by decide)
  unfold new?
  rw [if_neg (by omega)]

/-- For 1 ≤ s ≤ 2^31 the bit smear returns the least power of two ≥ s. -/
theorem next_pow2_spec (s : Nat) (h1 : 1 ≤ s) (h2 : s ≤ 2 ^ 31) :
    ∃ k, k ≤ 31 ∧ nextPow2 s = 2 ^ k ∧ s ≤ 2 ^ k ∧ (k = 0 ∨ 2 ^ (k - 1) < s) := by
  exact nextPow2_spec s h1 h2

theorem new_wf (s : Nat) (h1 : 1 ≤ s) (h2 : s ≤ 2 ^ 31) : WF (new s) ∧ content (new s) = [] := by
  obtain ⟨hw, hc, _⟩ := new_ok s h1 h2
  exact ⟨⟨hw.pow, hw.rlt, hw.wlt, hw.blen⟩, hc⟩

/-- capacity = (least power of two ≥ s) − 1 -/
theorem new_capacity (s : Nat) (h1 : 1 ≤ s) (h2 : s ≤ 2 ^ 31) :
    capacity (new s) = nextPow2 s - 1 := by
  exact (new_ok s h1 h2).2.2

/-! ## spaces -/

theorem read_space_eq_length (g : Ring) : (content g).length = readSpace g := by
  exact window_length ..

/-- read_space + write_space = capacity, always. -/
theorem ring_space_sum (g : Ring) (h : WF g) : readSpace g + writeSpace g = capacity g := by
  exact space_sum ⟨h.pow, h.rlt, h.wlt, h.blen⟩

/-! ## write / read / peek / skip / reset refine the FIFO -/

/-- `write` succeeds exactly when the request fits the free space, then appends exactly the bytes;
otherwise it returns 0 and changes nothing. -/
theorem write_refines (g : Ring) (h : WF g) (d : List Nat) :
    (d.length ≤ writeSpace g →
      (write g d).2 = d.length ∧ WF (write g d).1 ∧ content (write g d).1 = content g ++ d) ∧
    (writeSpace g < d.length → write g d = (g, 0)) := by
  have hr : RWF g := ⟨h.pow, h.rlt, h.wlt, h.blen⟩
  refine ⟨fun hd => ?_, fun hd => write_fail g d hd⟩
  obtain ⟨h1, hw, hc⟩ := write_ok hr d hd
  exact ⟨h1, ⟨hw.pow, hw.rlt, hw.wlt, hw.blen⟩, hc⟩

/-- `read` succeeds exactly when the request fits the stored data and then delivers the oldest
`n` bytes and removes them; otherwise nothing happens. -/
theorem read_refines (g : Ring) (h : WF g) (n : Nat) (hn : n < W32) :
    (n ≤ readSpace g →
      (read g n).2 = some ((content g).take n) ∧ WF (read g n).1 ∧
      content (read g n).1 = (content g).drop n) ∧
    (readSpace g < n → read g n = (g, none)) := by
  have _ := hn  -- `hn` is not needed: a successful request is below `size ≤ 2^31` anyway
  have hr : RWF g := ⟨h.pow, h.rlt, h.wlt, h.blen⟩
  have he := read_eq hr n
  refine ⟨fun hle => ?_, fun hlt => ?_⟩
  · rw [if_neg (by omega)] at he
    obtain ⟨hw, hc, _⟩ := consume_ok hr hle
    rw [he]
    exact ⟨rfl, ⟨hw.pow, hw.rlt, hw.wlt, hw.blen⟩, hc⟩
  · rw [if_pos hlt] at he
    exact he

/-- `peek` delivers the same bytes as `read` would and consumes nothing (it returns no new state). -/
theorem peek_refines (g : Ring) (h : WF g) (n : Nat) :
    (n ≤ readSpace g → peek g n = some ((content g).take n)) ∧
    (readSpace g < n → peek g n = none) := by
  have hr : RWF g := ⟨h.pow, h.rlt, h.wlt, h.blen⟩
  have he := peek_eq hr n
  refine ⟨fun hle => ?_, fun hlt => ?_⟩
  · rw [if_neg (by omega)] at he
    exact he
  · rw [if_pos hlt] at he
    exact he

theorem skip_refines (g : Ring) (h : WF g) (n : Nat) (hn : n < W32) :
    (n ≤ readSpace g →
      (skip g n).2 = true ∧ WF (skip g n).1 ∧ content (skip g n).1 = (content g).drop n) ∧
    (readSpace g < n → skip g n = (g, false)) := by
  have _ := hn  -- `hn` is not needed: a successful request is below `size ≤ 2^31` anyway
  have hr : RWF g := ⟨h.pow, h.rlt, h.wlt, h.blen⟩
  have he := skip_eq hr n
  refine ⟨fun hle => ?_, fun hlt => ?_⟩
  · rw [if_neg (by omega)] at he
    obtain ⟨hw, hc, _⟩ := consume_ok hr hle
    rw [he]
    exact ⟨rfl, ⟨hw.pow, hw.rlt, hw.wlt, hw.blen⟩, hc⟩
  · rw [if_pos hlt] at he
    exact he

theorem reset_refines (g : Ring) (h : WF g) : WF (reset g) ∧ content (reset g) = [] := by
  obtain ⟨hw, hc⟩ := reset_ok (g := g) ⟨h.pow, h.rlt, h.wlt, h.blen⟩
  exact ⟨⟨hw.pow, hw.rlt, hw.wlt, hw.blen⟩, hc⟩

/-! ## transactions

`TxOk g tx pending` says: `tx` was begun on this ring, `pending` are the bytes amended so far
(stored in the buffer after the write head, invisible), and the reader may have consumed
`consumed` bytes since `begin` (so the transaction's copy of the read head is stale by that much). -/
structure TxOk (g : Ring) (tx : Tx) (pending : List Nat) : Prop where
  rlt : tx.r < g.size
  wlt : tx.w < g.size
  /-- stale read head, then the live data, then the pending bytes, all fit in the ring -/
  fits : ((g.r + W32 - tx.r) % W32) % g.size + readSpace g + pending.length ≤ g.size - 1
  pend : tx.w = (g.w + pending.length) % g.size
  bytes : ∀ i, i < pending.length → g.buf.getD ((g.w + i) % g.size) 0 = pending.getD i 0

theorem begin_ok (g : Ring) (h : WF g) : TxOk g (beginWrite g) [] := by
  have ht := rtx_begin (g := g) ⟨h.pow, h.rlt, h.wlt, h.blen⟩
  exact ⟨ht.rlt, ht.wlt, ht.fits, ht.pend, ht.bytes⟩

/-- Amending is invisible to readers, accumulates the bytes contiguously, and fails with NO_MEM
exactly when the transaction would exceed the free space it saw at `begin`. -/
theorem tx_amend (g : Ring) (h : WF g) (tx : Tx) (p d : List Nat) (ht : TxOk g tx p) :
    (d.length ≤ writeSpaceAt g tx.r tx.w →
      ∃ g' tx', amend g tx d = some (g', tx') ∧ WF g' ∧ content g' = content g ∧
        g'.r = g.r ∧ g'.w = g.w ∧ TxOk g' tx' (p ++ d)) ∧
    (writeSpaceAt g tx.r tx.w < d.length → amend g tx d = none) := by
  have hr : RWF g := ⟨h.pow, h.rlt, h.wlt, h.blen⟩
  have htr : RTx g tx p := ⟨ht.rlt, ht.wlt, ht.fits, ht.pend, ht.bytes⟩
  refine ⟨fun hd => ?_, fun hd => amend_none g tx d hd⟩
  obtain ⟨g', tx', e, hw, hc, e1, e2, ht'⟩ := rtx_amend hr htr hd
  exact ⟨g', tx', e, ⟨hw.pow, hw.rlt, hw.wlt, hw.blen⟩, hc, e1, e2,
    ⟨ht'.rlt, ht'.wlt, ht'.fits, ht'.pend, ht'.bytes⟩⟩

/-- The free space a transaction sees is what was free at `begin` minus what it has amended. -/
theorem tx_write_space (g : Ring) (h : WF g) (tx : Tx) (p : List Nat) (ht : TxOk g tx p) :
    writeSpaceAt g tx.r tx.w + p.length + readSpace g + ((g.r + W32 - tx.r) % W32) % g.size = g.size - 1 := by
  exact rtx_space ⟨h.pow, h.rlt, h.wlt, h.blen⟩ ⟨ht.rlt, ht.wlt, ht.fits, ht.pend, ht.bytes⟩

/-- Commit publishes all amended bytes at once, contiguously, as one write. -/
theorem tx_commit_is_one_write (g : Ring) (h : WF g) (tx : Tx) (p : List Nat) (ht : TxOk g tx p) :
    WF (commit g tx) ∧ content (commit g tx) = content g ++ p := by
  obtain ⟨hw, hc⟩ := rtx_commit (g := g) (tx := tx) (p := p) ⟨h.pow, h.rlt, h.wlt, h.blen⟩
    ⟨ht.rlt, ht.wlt, ht.fits, ht.pend, ht.bytes⟩
  exact ⟨⟨hw.pow, hw.rlt, hw.wlt, hw.blen⟩, hc⟩

/-- Reading while a transaction is open keeps it consistent (the reader only makes its read head stale). -/
theorem tx_survives_read (g : Ring) (h : WF g) (tx : Tx) (p : List Nat) (ht : TxOk g tx p)
    (n : Nat) (hn : n < W32) : TxOk (read g n).1 tx p := by
  have _ := hn  -- `hn` is not needed: a successful request is below `size ≤ 2^31` anyway
  have hr : RWF g := ⟨h.pow, h.rlt, h.wlt, h.blen⟩
  have htr : RTx g tx p := ⟨ht.rlt, ht.wlt, ht.fits, ht.pend, ht.bytes⟩
  have he := read_eq hr n
  by_cases hlt : readSpace g < n
  · rw [if_pos hlt] at he
    rw [he]
    exact ht
  · rw [if_neg hlt] at he
    have ht' := (consume_ok hr (show n ≤ readSpace g by omega)).2.2 tx p htr
    rw [he]
    exact ⟨ht'.rlt, ht'.wlt, ht'.fits, ht'.pend, ht'.bytes⟩

/-! ## non-vacuity -/
example : WF (new 5) := (new_wf 5 (by decide) (by decide)).1
example : (write (new 5) [1, 2, 3]).2 = 3 := by decide
example : (read (write (new 5) [1, 2, 3]).1 2).2 = some [1, 2] := by decide

end Zix.C05
