import ZixModel.Model.Ring
/-! # C05 — ring is an all-or-nothing bounded byte FIFO with atomic transactions -/
namespace Zix.C05
open Zix.Ring

/-- `reset` empties the ring. -/
theorem reset_empties (g : Ring) (h : 0 < g.size) : readSpace (reset g) = 0 := by
  unfold readSpace readSpaceAt reset W32
  simp only
  have : (0 + 2 ^ 32 - 0) % 2 ^ 32 = 0 := by decide
  rw [this]; exact Nat.zero_mod _

end Zix.C05
