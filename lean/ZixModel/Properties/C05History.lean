import ZixModel.Properties.C05
import ZixModel.Lemmas.C05HistoryAux
/-! # C05 at the level of whole histories: the ring refines a bounded byte FIFO with transactions

`Properties/C05.lean` proves one-call facts under the invariants `WF` / `TxOk`.  Here they are lifted
over EVERY sequence of calls made from one thread, starting at `zix_ring_new(s)`: the ring, seen
through `content`, IS the abstract bounded queue; every return value agrees; `read_space +
write_space` is the capacity in every reachable state; bytes amended in a transaction are invisible
until commit, appear contiguously as one write, and leave no trace when the transaction is dropped. -/
namespace Zix.C05
open Zix.Ring

inductive Op where
  | write (d : List Nat)
  | read (n : Nat)
  | peek (n : Nat)
  | skip (n : Nat)
  | reset
  | begin_
  | amend (d : List Nat)
  | commit
  | abandon            -- the transaction object is simply dropped
deriving Repr

inductive Out where
  | wrote (n : Nat)            -- return value of zix_ring_write
  | data (bytes : Option (List Nat))   -- read / peek: the bytes delivered, `none` = returned 0, nothing transferred
  | skipped (ok : Bool)
  | done                       -- reset, begin, commit, abandon
  | amended (ok : Bool)        -- SUCCESS / NO_MEM
  | misuse                     -- outside the API contract (write/reset/begin inside an open transaction, amend/commit without one): ignored
deriving Repr, DecidableEq

/-! ## the implementation model driven by operations -/

structure Impl where
  g  : Ring
  tx : Option Tx
deriving Repr

def Impl.step (s : Impl) : Op → Impl × Out
  | .write d =>
    match s.tx with
    | some _ => (s, .misuse)
    | none => let r := write s.g d; ({ s with g := r.1 }, .wrote r.2)
  | .read n => let r := read s.g n; ({ s with g := r.1 }, .data r.2)
  | .peek n => (s, .data (peek s.g n))
  | .skip n => let r := skip s.g n; ({ s with g := r.1 }, .skipped r.2)
  | .reset =>
    match s.tx with
    | some _ => (s, .misuse)
    | none => ({ s with g := reset s.g }, .done)
  | .begin_ =>
    match s.tx with
    | some _ => (s, .misuse)
    | none => ({ s with tx := some (beginWrite s.g) }, .done)
  | .amend d =>
    match s.tx with
    | none => (s, .misuse)
    | some tx =>
      match amend s.g tx d with
      | some (g', tx') => (⟨g', some tx'⟩, .amended true)
      | none => (s, .amended false)
  | .commit =>
    match s.tx with
    | none => (s, .misuse)
    | some tx => (⟨commit s.g tx, none⟩, .done)
  | .abandon => ({ s with tx := none }, .done)

def Impl.run (s : Impl) : List Op → Impl × List Out
  | [] => (s, [])
  | op :: rest => let r := s.step op; let r2 := Impl.run r.1 rest; (r2.1, r.2 :: r2.2)

/-! ## the abstract bounded FIFO -/

structure Spec where
  cap : Nat
  q : List Nat                         -- oldest first
  pending : Option (List Nat × Nat)    -- open transaction: bytes amended so far, free space seen at begin
deriving Repr

def Spec.step (s : Spec) : Op → Spec × Out
  | .write d =>
    match s.pending with
    | some _ => (s, .misuse)
    | none => if d.length ≤ s.cap - s.q.length then ({ s with q := s.q ++ d }, .wrote d.length) else (s, .wrote 0)
  | .read n => if n ≤ s.q.length then ({ s with q := s.q.drop n }, .data (some (s.q.take n))) else (s, .data none)
  | .peek n => if n ≤ s.q.length then (s, .data (some (s.q.take n))) else (s, .data none)
  | .skip n => if n ≤ s.q.length then ({ s with q := s.q.drop n }, .skipped true) else (s, .skipped false)
  | .reset =>
    match s.pending with
    | some _ => (s, .misuse)
    | none => ({ s with q := [] }, .done)
  | .begin_ =>
    match s.pending with
    | some _ => (s, .misuse)
    | none => ({ s with pending := some ([], s.cap - s.q.length) }, .done)
  | .amend d =>
    match s.pending with
    | none => (s, .misuse)
    | some (p, budget) =>
      if p.length + d.length ≤ budget then ({ s with pending := some (p ++ d, budget) }, .amended true)
      else (s, .amended false)
  | .commit =>
    match s.pending with
    | none => (s, .misuse)
    | some (p, _) => ({ s with q := s.q ++ p, pending := none }, .done)
  | .abandon => ({ s with pending := none }, .done)

def Spec.run (s : Spec) : List Op → Spec × List Out
  | [] => (s, [])
  | op :: rest => let r := s.step op; let r2 := Spec.run r.1 rest; (r2.1, r.2 :: r2.2)

def Impl.new (s : Nat) : Impl := ⟨Ring.new s, none⟩
def Spec.new (s : Nat) : Spec := ⟨nextPow2 s - 1, [], none⟩

/-! ## coupling invariant between `Impl` and `Spec`, and its preservation by every step -/

/-- the transaction part of the coupling: both closed, or both open with the same pending bytes and the
spec's budget equal to the free space the transaction still sees plus what it has amended -/
def TxRel (g : Ring) : Option Tx → Option (List Nat × Nat) → Prop
  | none, none => True
  | some tx, some (p, b) => TxOk g tx p ∧ b = writeSpaceAt g tx.r tx.w + p.length
  | _, _ => False

structure Coupled (s : Impl) (sp : Spec) : Prop where
  wf : WF s.g
  cont : content s.g = sp.q
  cap : sp.cap = s.g.size - 1
  tx : TxRel s.g s.tx sp.pending

/-! `Impl.step` on `amend`, as equations with an explicit result.  The kernel must never be asked to
compare two different-looking terms that contain a stuck `amend g tx d` (it would unfold `… + 2^32` unary),
so the reduction of the surrounding matches is done once for an abstract function `am` (`Impl.amendG`), and
`Impl.step` is connected to it by a syntactic `rfl`. -/

def Impl.amendG (am : Ring → Tx → List Nat → Option (Ring × Tx)) (s : Impl) (d : List Nat) : Impl × Out :=
    match s.tx with
    | none => (s, .misuse)
    | some tx =>
      match am s.g tx d with
      | some (g', tx') => (⟨g', some tx'⟩, .amended true)
      | none => (s, .amended false)

theorem Impl.step_amend_eq (s : Impl) (d : List Nat) :
    s.step (.amend d) = Impl.amendG amend s d := rfl

theorem Impl.amendG_some {am : Ring → Tx → List Nat → Option (Ring × Tx)} {s : Impl} {g' : Ring} {tx tx' : Tx} {d : List Nat}
    (hs : s.tx = some tx)
    (e : am s.g tx d = some (g', tx')) : Impl.amendG am s d = (⟨g', some tx'⟩, .amended true) := by
  unfold Impl.amendG
  split
  · rename_i heq
    rw [hs] at heq
    cases heq
  · rename_i tx2 heq
    rw [hs] at heq
    injection heq with heq
    subst heq
    rw [e]

theorem Impl.amendG_none {am : Ring → Tx → List Nat → Option (Ring × Tx)} {s : Impl} {tx : Tx} {d : List Nat}
    (hs : s.tx = some tx)
    (e : am s.g tx d = none) : Impl.amendG am s d = (s, .amended false) := by
  unfold Impl.amendG
  split
  · rename_i heq
    rw [hs] at heq
    cases heq
  · rename_i tx2 heq
    rw [hs] at heq
    injection heq with heq
    subst heq
    rw [e]

theorem Impl.step_amend_some {g g' : Ring} {tx tx' : Tx} {d : List Nat}
    (e : amend g tx d = some (g', tx')) :
    Impl.step ⟨g, some tx⟩ (.amend d) = (⟨g', some tx'⟩, .amended true) := by
  rw [Impl.step_amend_eq]
  exact Impl.amendG_some (s := ⟨g, some tx⟩) rfl e

theorem Impl.step_amend_none {g : Ring} {tx : Tx} {d : List Nat} (e : amend g tx d = none) :
    Impl.step ⟨g, some tx⟩ (.amend d) = (⟨g, some tx⟩, .amended false) := by
  rw [Impl.step_amend_eq]
  exact Impl.amendG_none (s := ⟨g, some tx⟩) rfl e

theorem TxRel.consume {g : Ring} (h : WF g) {n : Nat} (hn : n ≤ readSpace g)
    {t : Option Tx} {pd : Option (List Nat × Nat)} (ht : TxRel g t pd) :
    TxRel { g with r := (g.r + n) % g.size } t pd := by
  cases t with
  | none =>
    cases pd with
    | none => exact True.intro
    | some x => exact False.elim ht
  | some tx =>
    cases pd with
    | none => exact False.elim ht
    | some x =>
      obtain ⟨p, b⟩ := x
      obtain ⟨h1, h2⟩ := ht
      exact ⟨(consume_all h hn).2.2 tx p h1, h2⟩

theorem Coupled.step {s : Impl} {sp : Spec} (h : Coupled s sp) (op : Op) :
    (s.step op).2 = (sp.step op).2 ∧ Coupled (s.step op).1 (sp.step op).1 := by
  obtain ⟨g, t⟩ := s
  obtain ⟨cap, q, pd⟩ := sp
  obtain ⟨hwf, hc, hcap, htx⟩ := h
  simp only at hwf hc hcap htx
  subst hc
  subst hcap
  have hrs : readSpace g = (content g).length := (read_space_eq_length g).symm
  have hws := write_space_eq hwf
  cases op with
  | write d =>
    cases t with
    | some tx =>
      cases pd with
      | none => exact False.elim htx
      | some x => exact ⟨rfl, ⟨hwf, rfl, rfl, htx⟩⟩
    | none =>
      cases pd with
      | some x => exact False.elim htx
      | none =>
        simp only [Impl.step, Spec.step]
        rcases write_cases hwf d with ⟨hd, g', e, e2, e3, e4⟩ | ⟨hd, e⟩
        · rw [e, if_pos (by omega)]
          refine ⟨rfl, ⟨e2, e3, ?_, True.intro⟩⟩
          show g.size - 1 = g'.size - 1
          rw [e4]
        · rw [e, if_neg (by omega)]
          exact ⟨rfl, ⟨hwf, rfl, rfl, True.intro⟩⟩
  | read n =>
    simp only [Impl.step, Spec.step]
    rcases read_cases hwf n with ⟨hle, e⟩ | ⟨hlt, e⟩
    · rw [e, if_pos (by omega)]
      obtain ⟨c1, c2, _⟩ := consume_all hwf hle
      exact ⟨rfl, ⟨c1, c2, rfl, htx.consume hwf hle⟩⟩
    · rw [e, if_neg (by omega)]
      exact ⟨rfl, ⟨hwf, rfl, rfl, htx⟩⟩
  | peek n =>
    simp only [Impl.step, Spec.step]
    by_cases hle : n ≤ (content g).length
    · rw [if_pos hle, (peek_refines g hwf n).1 (by omega)]
      exact ⟨rfl, ⟨hwf, rfl, rfl, htx⟩⟩
    · rw [if_neg hle, (peek_refines g hwf n).2 (by omega)]
      exact ⟨rfl, ⟨hwf, rfl, rfl, htx⟩⟩
  | skip n =>
    simp only [Impl.step, Spec.step]
    rcases skip_cases hwf n with ⟨hle, e⟩ | ⟨hlt, e⟩
    · rw [e, if_pos (by omega)]
      obtain ⟨c1, c2, _⟩ := consume_all hwf hle
      exact ⟨rfl, ⟨c1, c2, rfl, htx.consume hwf hle⟩⟩
    · rw [e, if_neg (by omega)]
      exact ⟨rfl, ⟨hwf, rfl, rfl, htx⟩⟩
  | reset =>
    cases t with
    | some tx =>
      cases pd with
      | none => exact False.elim htx
      | some x => exact ⟨rfl, ⟨hwf, rfl, rfl, htx⟩⟩
    | none =>
      cases pd with
      | some x => exact False.elim htx
      | none =>
        obtain ⟨r1, r2⟩ := reset_refines g hwf
        exact ⟨rfl, ⟨r1, r2, rfl, True.intro⟩⟩
  | begin_ =>
    cases t with
    | some tx =>
      cases pd with
      | none => exact False.elim htx
      | some x => exact ⟨rfl, ⟨hwf, rfl, rfl, htx⟩⟩
    | none =>
      cases pd with
      | some x => exact False.elim htx
      | none =>
        refine ⟨rfl, ⟨hwf, rfl, rfl, ?_⟩⟩
        refine ⟨begin_ok g hwf, ?_⟩
        show g.size - 1 - (content g).length = writeSpace g + 0
        omega
  | amend d =>
    cases t with
    | none =>
      cases pd with
      | some x => exact False.elim htx
      | none => exact ⟨rfl, ⟨hwf, rfl, rfl, True.intro⟩⟩
    | some tx =>
      cases pd with
      | none => exact False.elim htx
      | some x =>
        obtain ⟨p, b⟩ := x
        obtain ⟨hok, hb⟩ := htx
        simp only [Spec.step]
        by_cases hd : d.length ≤ writeSpaceAt g tx.r tx.w
        · obtain ⟨g', tx', e, hwf', hc', hr', hw', hok'⟩ := (tx_amend g hwf tx p d hok).1 hd
          have hbud := amend_budget hwf hwf' hok hok' e
          have hsz := (amend_frame e).1
          rw [Impl.step_amend_some e, if_pos (by omega)]
          refine ⟨rfl, ⟨hwf', hc', ?_, ⟨hok', ?_⟩⟩⟩
          · show g.size - 1 = g'.size - 1
            rw [hsz]
          · show b = writeSpaceAt g' tx'.r tx'.w + (p ++ d).length
            omega
        · have e := (tx_amend g hwf tx p d hok).2 (by omega)
          rw [Impl.step_amend_none e, if_neg (by omega)]
          exact ⟨rfl, ⟨hwf, rfl, rfl, ⟨hok, hb⟩⟩⟩
  | commit =>
    cases t with
    | none =>
      cases pd with
      | some x => exact False.elim htx
      | none => exact ⟨rfl, ⟨hwf, rfl, rfl, True.intro⟩⟩
    | some tx =>
      cases pd with
      | none => exact False.elim htx
      | some x =>
        obtain ⟨p, b⟩ := x
        obtain ⟨hok, hb⟩ := htx
        obtain ⟨c1, c2⟩ := tx_commit_is_one_write g hwf tx p hok
        exact ⟨rfl, ⟨c1, c2, rfl, True.intro⟩⟩
  | abandon =>
    refine ⟨rfl, ⟨hwf, rfl, rfl, True.intro⟩⟩

theorem Impl.run_cons (s : Impl) (op : Op) (rest : List Op) :
    s.run (op :: rest) = (((s.step op).1.run rest).1, (s.step op).2 :: ((s.step op).1.run rest).2) := rfl

theorem Spec.run_cons (s : Spec) (op : Op) (rest : List Op) :
    s.run (op :: rest) = (((s.step op).1.run rest).1, (s.step op).2 :: ((s.step op).1.run rest).2) := rfl

theorem Coupled.run {s : Impl} {sp : Spec} (h : Coupled s sp) (ops : List Op) :
    (s.run ops).2 = (sp.run ops).2 ∧ Coupled (s.run ops).1 (sp.run ops).1 := by
  induction ops generalizing s sp with
  | nil => exact ⟨rfl, h⟩
  | cons op rest ih =>
    obtain ⟨h1, h2⟩ := h.step op
    obtain ⟨h3, h4⟩ := ih h2
    rw [Impl.run_cons, Spec.run_cons]
    exact ⟨by rw [h1, h3], h4⟩

theorem Coupled.new (s : Nat) (h1 : 1 ≤ s) (h2 : s ≤ 2 ^ 31) : Coupled (Impl.new s) (Spec.new s) := by
  obtain ⟨hw, hc⟩ := new_wf s h1 h2
  exact ⟨hw, hc, rfl, True.intro⟩

theorem Spec.step_cap (s : Spec) (op : Op) : (s.step op).1.cap = s.cap := by
  obtain ⟨cap, q, pd⟩ := s
  cases op with
  | write d =>
    cases pd with
    | some x => rfl
    | none => simp only [Spec.step]; split <;> rfl
  | read n => simp only [Spec.step]; split <;> rfl
  | peek n => simp only [Spec.step]; split <;> rfl
  | skip n => simp only [Spec.step]; split <;> rfl
  | reset => cases pd <;> rfl
  | begin_ => cases pd <;> rfl
  | amend d =>
    cases pd with
    | none => rfl
    | some x =>
      obtain ⟨p, b⟩ := x
      simp only [Spec.step]; split <;> rfl
  | commit =>
    cases pd with
    | none => rfl
    | some x => rfl
  | abandon => rfl

theorem Spec.run_cap (s : Spec) (ops : List Op) : (s.run ops).1.cap = s.cap := by
  induction ops generalizing s with
  | nil => rfl
  | cons op rest ih =>
    rw [Spec.run_cons]
    show ((s.step op).1.run rest).1.cap = s.cap
    rw [ih, Spec.step_cap]

/-! ## transactions on the specification -/

theorem Spec.run_amends_abandon (cap : Nat) (q : List Nat) (ds : List (List Nat)) (p : List Nat) (b : Nat) :
    ((Spec.mk cap q (some (p, b))).run (ds.map Op.amend ++ [Op.abandon])).1 = Spec.mk cap q none := by
  induction ds generalizing p with
  | nil => rfl
  | cons d ds ih =>
    rw [List.map_cons, List.cons_append, Spec.run_cons]
    show ((Spec.step ⟨cap, q, some (p, b)⟩ (Op.amend d)).1.run (ds.map Op.amend ++ [Op.abandon])).1 = _
    simp only [Spec.step]
    split
    · exact ih (p ++ d)
    · exact ih p

theorem Spec.run_amends_commit (cap : Nat) (q : List Nat) (ds : List (List Nat)) (p : List Nat) (b : Nat)
    (hfit : p.length + ds.flatten.length ≤ b) :
    ((Spec.mk cap q (some (p, b))).run (ds.map Op.amend ++ [Op.commit])).1 =
      Spec.mk cap (q ++ (p ++ ds.flatten)) none := by
  induction ds generalizing p with
  | nil =>
    show Spec.mk cap (q ++ p) none = _
    rw [List.flatten_nil, List.append_nil]
  | cons d ds ih =>
    rw [List.flatten_cons, List.length_append] at hfit
    rw [List.map_cons, List.cons_append, Spec.run_cons]
    show ((Spec.step ⟨cap, q, some (p, b)⟩ (Op.amend d)).1.run (ds.map Op.amend ++ [Op.commit])).1 = _
    simp only [Spec.step]
    rw [if_pos (by omega)]
    rw [ih (p ++ d) (by rw [List.length_append]; omega), List.flatten_cons, List.append_assoc]

/-- **Refinement.**  Every history of single-thread calls on `zix_ring_new(s)` returns exactly what the
bounded FIFO returns, and the stored bytes are the FIFO's. -/
theorem ring_refines_queue (s : Nat) (h1 : 1 ≤ s) (h2 : s ≤ 2 ^ 31) (ops : List Op) :
    ((Impl.new s).run ops).2 = ((Spec.new s).run ops).2 ∧
    content ((Impl.new s).run ops).1.g = ((Spec.new s).run ops).1.q ∧
    WF ((Impl.new s).run ops).1.g := by
  obtain ⟨ho, hc⟩ := (Coupled.new s h1 h2).run ops
  exact ⟨ho, hc.cont, hc.wf⟩

/-- In every reachable state `read_space + write_space` is the capacity `nextPow2 s - 1`, and the
stored data never exceeds it. -/
theorem reachable_space_sum (s : Nat) (h1 : 1 ≤ s) (h2 : s ≤ 2 ^ 31) (ops : List Op) :
    let g := ((Impl.new s).run ops).1.g
    readSpace g + writeSpace g = nextPow2 s - 1 ∧ (content g).length ≤ nextPow2 s - 1 := by
  intro g
  obtain ⟨_, hc⟩ := (Coupled.new s h1 h2).run ops
  have hcap : g.size - 1 = nextPow2 s - 1 := by
    rw [← hc.cap, Spec.run_cap]
    rfl
  have hsum := ring_space_sum g hc.wf
  rw [capacity_size hc.wf, hcap] at hsum
  have hlen := read_space_eq_length g
  exact ⟨hsum, by omega⟩

/-- An uncommitted transaction leaves no trace: dropping it instead of never opening it gives the same
outputs for every continuation.  (Stated on the specification, to which the implementation is
equivalent by `ring_refines_queue`.) -/
theorem spec_abandon_no_trace (s : Spec) (hs : s.pending = none) (ds : List (List Nat)) (rest : List Op) :
    ((s.run (Op.begin_ :: (ds.map Op.amend ++ [Op.abandon]))).1.run rest).2 = (s.run rest).2 ∧
    (s.run (Op.begin_ :: (ds.map Op.amend ++ [Op.abandon]))).1 = s := by
  obtain ⟨cap, q, pd⟩ := s
  simp only at hs
  subst hs
  have e : ((Spec.mk cap q none).run (Op.begin_ :: (ds.map Op.amend ++ [Op.abandon]))).1 = Spec.mk cap q none := by
    rw [Spec.run_cons]
    exact Spec.run_amends_abandon cap q ds [] (cap - q.length)
  rw [e]
  exact ⟨rfl, rfl⟩

/-- A committed transaction is one write of the concatenated amended bytes (when they all fit). -/
theorem spec_commit_is_one_write (s : Spec) (hs : s.pending = none) (ds : List (List Nat))
    (hfit : (ds.flatten).length ≤ s.cap - s.q.length) :
    (s.run (Op.begin_ :: (ds.map Op.amend ++ [Op.commit]))).1 = (s.step (Op.write ds.flatten)).1 := by
  obtain ⟨cap, q, pd⟩ := s
  simp only at hs hfit
  subst hs
  rw [Spec.run_cons]
  show ((Spec.mk cap q (some ([], cap - q.length))).run (ds.map Op.amend ++ [Op.commit])).1 = _
  rw [Spec.run_amends_commit cap q ds [] (cap - q.length) (by rw [List.length_nil]; omega), List.nil_append]
  simp only [Spec.step]
  rw [if_pos hfit]

/-! non-vacuity: size 5 rounds to 8 (capacity 7); wrap-around; a transaction that overflows; misuse -/
example : ((Impl.new 5).run [.write [1, 2, 3, 4, 5], .read 3, .write [6, 7, 8, 9, 10], .write [11], .peek 2, .begin_, .amend [12],
      .amend [13], .read 7, .commit, .read 1, .amend [1]]).2 =
    [.wrote 5, .data (some [1, 2, 3]), .wrote 5, .wrote 0, .data (some [4, 5]), .done, .amended false, .amended false,
      .data (some [4, 5, 6, 7, 8, 9, 10]), .done, .data none, .misuse] := by decide

end Zix.C05
