import ZixModel.Model.Avl
import ZixModel.Lemmas.Avl
/-! # C06 — ZixTree is a balanced sorted (multi)set with stable bidirectional iterators

Property theorems only; helper lemmas live in `ZixModel/Lemmas/Avl.lean`. -/
namespace Zix.C06
open Zix.Avl

/-- Every stored balance factor is the height difference right − left and lies in {−1, 0, 1}. -/
def Balanced : T → Prop
  | .nil => True
  | .node l _ _ b r =>
    Balanced l ∧ Balanced r ∧ b = (r.height : Int) - (l.height : Int) ∧ -1 ≤ b ∧ b ≤ 1

/-- In-order keys are ascending (non-strictly: duplicates may be present). -/
def Sorted (t : T) : Prop := (t.inorder.map (·.2)).Pairwise (· ≤ ·)
/-- In-order keys are strictly ascending (no duplicates). -/
def StrictSorted (t : T) : Prop := (t.inorder.map (·.2)).Pairwise (· < ·)

/-- Position-wise insertion into the in-order list: after every element with key ≤ e. -/
def listInsert (e : Int) (id : Nat) : List (Nat × Int) → List (Nat × Int)
  | [] => [(id, e)]
  | (i, k) :: rest => if e < k then (id, e) :: (i, k) :: rest else (i, k) :: listInsert e id rest

def fib : Nat → Nat
  | 0 => 0
  | 1 => 1
  | n + 2 => fib n + fib (n + 1)

/-! ## bridges to the copies of these definitions used in `ZixModel/Lemmas/Avl.lean` -/

theorem balanced_iff_bal (t : T) : Balanced t ↔ Bal t := by
  induction t with
  | nil => exact Iff.rfl
  | node l i k b r ihl ihr => simp only [Balanced, Bal, ihl, ihr]

theorem listInsert_eq_lins (e : Int) (id : Nat) (l : List (Nat × Int)) :
    listInsert e id l = lins e id l := by
  induction l with
  | nil => rfl
  | cons p l ih => obtain ⟨i, k⟩ := p; simp only [listInsert, lins, ih]

theorem fib_eq_fibo (n : Nat) : fib n = fibo n := by
  fun_induction fib n with
  | case1 => rfl
  | case2 => rfl
  | case3 n ih1 ih2 => simp only [fibo, ih1, ih2]

/-! ## insertion -/

/-- Inserting into a balanced sorted tree (duplicates allowed) keeps it balanced, reports height
growth correctly, and the in-order sequence is the old one with the new element placed after all
elements with key ≤ e — so equal keys stay in insertion order and every other node keeps its
identity and key (iterator stability). -/
theorem insert_dups (t : T) (hb : Balanced t) (hs : Sorted t) (e : Int) (id : Nat) :
    ∃ t' grew, insertAux true e id t = .done t' grew ∧ Balanced t' ∧ Sorted t' ∧
      t'.inorder = listInsert e id t.inorder ∧
      t'.height = t.height + (if grew then 1 else 0) := by
  rcases insertAux_spec true e id t ((balanced_iff_bal t).1 hb) hs with
    ⟨hd, _⟩ | ⟨_, t', grew, hres, hB, hI, hH, _⟩
  · exact absurd hd (by decide)
  · refine ⟨t', grew, hres, (balanced_iff_bal t').2 hB, ?_, ?_, hH⟩
    · unfold Sorted; rw [hI]; exact lins_sorted e id _ hs
    · rw [hI, listInsert_eq_lins]

/-- Without duplicates: an equal key is refused with EXISTS naming the existing element and the
tree is unchanged; otherwise as above. -/
theorem insert_nodups (t : T) (hb : Balanced t) (hs : StrictSorted t) (e : Int) (id : Nat) :
    (∃ i, insertAux false e id t = .exists_ i ∧ (i, e) ∈ t.inorder) ∨
    (e ∉ t.inorder.map (·.2) ∧ ∃ t' grew, insertAux false e id t = .done t' grew ∧ Balanced t' ∧
      StrictSorted t' ∧ t'.inorder = listInsert e id t.inorder ∧
      t'.height = t.height + (if grew then 1 else 0)) := by
  rcases insertAux_spec false e id t ((balanced_iff_bal t).1 hb) (strict_imp_sorted _ hs) with
    ⟨_, i, hx, hmem⟩ | ⟨hnot, t', grew, hres, hB, hI, hH, _⟩
  · exact Or.inl ⟨i, hx, hmem⟩
  · refine Or.inr ⟨hnot rfl, t', grew, hres, (balanced_iff_bal t').2 hB, ?_, ?_, hH⟩
    · unfold StrictSorted; rw [hI]; exact lins_strict e id _ hs (hnot rfl)
    · rw [hI, listInsert_eq_lins]

/-! ## removal -/

/-- Removing the node with a given id from a balanced tree keeps it balanced, reports the height
loss correctly, and the in-order sequence is the old one without exactly that element: every
other element keeps its identity, key and relative order. -/
theorem remove_spec (t : T) (hb : Balanced t) (id : Nat)
    (hid : (t.inorder.map (·.1)).Nodup) (hin : id ∈ t.inorder.map (·.1)) :
    ∃ t' shrunk, removeId id t = some (t', shrunk) ∧ Balanced t' ∧
      t'.inorder = t.inorder.filter (fun p => p.1 ≠ id) ∧
      t.height = t'.height + (if shrunk then 1 else 0) := by
  obtain ⟨t', s, hres, hB, hI, hH⟩ := removeId_spec id t ((balanced_iff_bal t).1 hb) hid hin
  exact ⟨t', s, hres, (balanced_iff_bal t').2 hB, hI, hH⟩

theorem remove_absent (t : T) (id : Nat) (hin : id ∉ t.inorder.map (·.1)) : removeId id t = none :=
  removeId_none id t hin

/-! ## balance ⇒ logarithmic height; find -/

/-- A balanced tree of height h has at least fib(h+2) − 1 nodes. -/
theorem avl_height_bound (t : T) (hb : Balanced t) : fib (t.height + 2) ≤ t.size + 1 := by
  rw [fib_eq_fibo]; exact fibo_height_bound t ((balanced_iff_bal t).1 hb)

theorem size_eq_inorder_length (t : T) : t.size = t.inorder.length :=
  size_eq_length t

/-- `find` makes at most `height` comparisons and succeeds exactly when the key is stored,
returning an element with that key. -/
theorem find_spec (t : T) (hs : Sorted t) (e : Int) :
    ((find e t 0).2 ≤ t.height) ∧
    (∀ i, (find e t 0).1 = some i → (i, e) ∈ t.inorder) ∧
    ((find e t 0).1 = none ↔ e ∉ t.inorder.map (·.2)) := by
  have := find_spec_aux e t hs 0
  simpa using this

/-! ## free destroys each element exactly once -/

theorem postorder_perm_inorder (t : T) : t.postorder.Perm t.inorder :=
  postorder_perm t

/-! ## reachable trees -/

/-- The invariant of a `Tree` value. -/
structure TreeInv (t : Tree) : Prop where
  bal    : Balanced t.root
  sorted : if t.dups then Sorted t.root else StrictSorted t.root
  size   : t.size = t.root.size
  fresh  : ∀ p ∈ t.root.inorder, p.1 < t.next
  nodup  : (t.root.inorder.map (·.1)).Nodup

theorem inv_new (d : Bool) : TreeInv (Tree.new d) := by
  refine ⟨trivial, ?_, rfl, ?_, ?_⟩
  · cases d <;> simp [Tree.new, Sorted, StrictSorted, T.inorder]
  · intro p hp; simp [Tree.new, T.inorder] at hp
  · simp [Tree.new, T.inorder]

theorem inv_insert (t : Tree) (h : TreeInv t) (e : Int) : TreeInv (t.insert e).1 := by
  obtain ⟨hbal, hsorted, hsize, hfresh, hnodup⟩ := h
  have hs : Sorted t.root := by
    cases hd : t.dups
    · rw [hd] at hsorted; exact strict_imp_sorted _ hsorted
    · rw [hd] at hsorted; exact hsorted
  rcases insertAux_spec t.dups e t.next t.root ((balanced_iff_bal _).1 hbal) hs with
    ⟨_, i, hx, _⟩ | ⟨hnot, r, grew, hres, hB, hI, _, _⟩
  · have : (t.insert e).1 = t := by simp only [Tree.insert, hx]
    rw [this]; exact ⟨hbal, hsorted, hsize, hfresh, hnodup⟩
  · have : (t.insert e).1 = { t with root := r, size := t.size + 1, next := t.next + 1 } := by
      simp only [Tree.insert, hres]
    rw [this]
    have hperm := lins_perm e t.next t.root.inorder
    refine ⟨(balanced_iff_bal r).2 hB, ?_, ?_, ?_, ?_⟩
    · show if t.dups then Sorted r else StrictSorted r
      cases hd : t.dups
      · rw [hd] at hsorted
        simp only [Bool.false_eq_true, ↓reduceIte]
        unfold StrictSorted; rw [hI]
        exact lins_strict e _ _ hsorted (hnot hd)
      · simp only [↓reduceIte]
        unfold Sorted; rw [hI]
        exact lins_sorted e _ _ hs
    · show t.size + 1 = r.size
      rw [size_eq_length r, hI, hperm.length_eq, hsize, size_eq_length t.root]
      rfl
    · show ∀ p ∈ r.inorder, p.1 < t.next + 1
      intro p hp
      rw [hI] at hp
      rcases mem_lins.1 hp with rfl | hp
      · exact Nat.lt_succ_self _
      · exact Nat.lt_succ_of_lt (hfresh p hp)
    · show (r.inorder.map (·.1)).Nodup
      rw [hI, (hperm.map (·.1)).nodup_iff]
      simp only [List.map_cons, List.nodup_cons]
      refine ⟨?_, hnodup⟩
      intro hm
      obtain ⟨q, hq, hq1⟩ := List.mem_map.1 hm
      have := hfresh q hq
      omega

theorem inv_remove (t : Tree) (h : TreeInv t) (id : Nat) (t' : Tree) (hr : t.remove id = some t') :
    TreeInv t' := by
  obtain ⟨hbal, hsorted, hsize, hfresh, hnodup⟩ := h
  have hin : id ∈ t.root.inorder.map (·.1) := by
    apply Classical.byContradiction
    intro hn
    simp [Tree.remove, removeId_none id t.root hn] at hr
  obtain ⟨r, s, hres, hB, hI, _⟩ := removeId_spec id t.root ((balanced_iff_bal _).1 hbal) hnodup hin
  have : t' = { t with root := r, size := t.size - 1 } := by
    simp only [Tree.remove, hres, Option.some.injEq] at hr
    exact hr.symm
  subst this
  have hsub : r.inorder.Sublist t.root.inorder := by rw [hI]; exact List.filter_sublist
  refine ⟨(balanced_iff_bal r).2 hB, ?_, ?_, ?_, ?_⟩
  · show if t.dups then Sorted r else StrictSorted r
    cases hd : t.dups
    · rw [hd] at hsorted
      exact List.Pairwise.sublist (hsub.map _) hsorted
    · rw [hd] at hsorted
      exact List.Pairwise.sublist (hsub.map _) hsorted
  · show t.size - 1 = r.size
    have := length_filter_ne id t.root.inorder hnodup hin
    rw [size_eq_length r, hI, hsize, size_eq_length t.root]
    omega
  · show ∀ p ∈ r.inorder, p.1 < t.next
    intro p hp
    exact hfresh p (hsub.subset hp)
  · show (r.inorder.map (·.1)).Nodup
    exact List.Nodup.sublist (hsub.map _) hnodup

/-! ## non-vacuity -/
example : Balanced (T.node (T.node .nil 1 1 0 .nil) 2 2 0 (T.node .nil 3 3 0 .nil)) := by
  simp [Balanced, T.height]
example : ((Tree.new true).insert 5).1.root = T.node .nil 1 5 0 .nil := by decide

end Zix.C06
