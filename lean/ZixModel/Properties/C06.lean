import ZixModel.Model.Avl
/-! # C06 — ZixTree -/
namespace Zix.C06
open Zix.Avl

/-- `free` destroys every element exactly once: the post-order has the same elements as the in-order. -/
theorem postorder_perm_inorder (t : T) : t.postorder.length = t.inorder.length := by
  induction t with
  | nil => rfl
  | node l i k b r ihl ihr => simp [T.postorder, T.inorder, ihl, ihr]

end Zix.C06
