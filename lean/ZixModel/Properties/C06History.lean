import ZixModel.Properties.C06
import ZixModel.Lemmas.C06HistoryAux
/-! # C06 at the level of whole histories: ZixTree refines an abstract sorted (multi)set

`Properties/C06.lean` proves one-step facts under the invariant.  Here they are lifted over every
operation sequence starting from `zix_tree_new`: the concrete tree, seen through its in-order
sequence, IS the abstract sorted list that a user of a sorted (multi)set expects, every output
agrees, and the number of comparisons of a find obeys the AVL bound in every reachable state. -/
namespace Zix.C06
open Zix.Avl

inductive Op where
  | ins (e : Int)        -- zix_tree_insert, allocation succeeds
  | insFail (e : Int)    -- zix_tree_insert, the allocator refuses the node
  | rm (id : Nat)        -- zix_tree_remove of the iterator to element `id`
  | find (e : Int)       -- zix_tree_find
deriving Repr

inductive Out where
  | inserted (id : Nat)  -- SUCCESS, iterator at the new element
  | exists_ (id : Nat)   -- EXISTS, iterator at the existing element
  | noMem
  | removed
  | badIter              -- `rm` of an id that is not in the tree (outside the API contract)
  | found (key : Int)
  | notFound
deriving Repr, DecidableEq

/-- The abstract sorted (multi)set: elements (id, key) in key order, equal keys in insertion order. -/
structure Spec where
  dups : Bool
  elems : List (Nat × Int)
  next : Nat
deriving Repr

def Spec.new (d : Bool) : Spec := ⟨d, [], 1⟩

/-- The element a duplicate-refusing insert of `e` collides with. -/
def Spec.clash (s : Spec) (e : Int) : Option (Nat × Int) :=
  if s.dups then none else s.elems.find? (fun p => p.2 == e)

def Spec.step (s : Spec) : Op → Spec × Out
  | .ins e =>
    match s.clash e with
    | some p => (s, .exists_ p.1)
    | none => ({ s with elems := listInsert e s.next s.elems, next := s.next + 1 }, .inserted s.next)
  | .insFail e =>
    match s.clash e with
    | some p => (s, .exists_ p.1)
    | none => (s, .noMem)
  | .rm id =>
    if id ∈ s.elems.map (·.1) then ({ s with elems := s.elems.filter (fun p => p.1 ≠ id) }, .removed)
    else (s, .badIter)
  | .find e => (s, if e ∈ s.elems.map (·.2) then .found e else .notFound)

/-- The implementation model driven by the same operations. -/
def treeStep (t : Tree) : Op → Tree × Out
  | .ins e =>
    match t.insert e with
    | (t', .success, id) => (t', .inserted id)
    | (t', _, id) => (t', .exists_ id)
  | .insFail e =>
    match t.insertMayFail e false with
    | (t', some (_, id)) => (t', .exists_ id)
    | (t', none) => (t', .noMem)
  | .rm id =>
    match t.remove id with
    | some t' => (t', .removed)
    | none => (t, .badIter)
  | .find e =>
    match (find e t.root 0).1 with
    | some i =>
      match t.root.inorder.lookup i with
      | some k => (t, .found k)
      | none => (t, .notFound)
    | none => (t, .notFound)

def runTree (t : Tree) : List Op → Tree × List Out
  | [] => (t, [])
  | op :: rest => let (t', o) := treeStep t op; let (t'', os) := runTree t' rest; (t'', o :: os)

def runSpec (s : Spec) : List Op → Spec × List Out
  | [] => (s, [])
  | op :: rest => let (s', o) := s.step op; let (s'', os) := runSpec s' rest; (s'', o :: os)

/-- Abstraction map: the in-order sequence. -/
def abs (t : Tree) : Spec := ⟨t.dups, t.root.inorder, t.next⟩

/-! ## helper lemmas for the refinement proof -/

theorem sorted_of_inv (t : Tree) (h : TreeInv t) : Sorted t.root := by
  have hs := h.sorted
  cases hd : t.dups
  · rw [hd] at hs; exact strict_imp_sorted _ hs
  · rw [hd] at hs; exact hs

/-- Under the invariant the implementation's insert search and the abstract `clash` agree. -/
theorem insertAux_cases (t : Tree) (h : TreeInv t) (e : Int) :
    (∃ i, insertAux t.dups e t.next t.root = .exists_ i ∧ (abs t).clash e = some (i, e)) ∨
    (∃ r g, insertAux t.dups e t.next t.root = .done r g ∧ (abs t).clash e = none ∧
      r.inorder = listInsert e t.next t.root.inorder) := by
  have hs := h.sorted
  cases hd : t.dups
  · rw [hd] at hs
    have hs' : StrictSorted t.root := hs
    rcases insert_nodups t.root h.bal hs' e t.next with ⟨i, hx, hmem⟩ | ⟨hnot, r, g, hres, _, _, hI, _⟩
    · refine Or.inl ⟨i, hx, ?_⟩
      simp only [Spec.clash, abs, hd, Bool.false_eq_true, if_false]
      exact Zix.C06Aux.find?_key_of_mem _ i e hs' hmem
    · refine Or.inr ⟨r, g, hres, ?_, hI⟩
      simp only [Spec.clash, abs, hd, Bool.false_eq_true, if_false]
      exact Zix.C06Aux.find?_key_none _ e hnot
  · rw [hd] at hs
    have hs' : Sorted t.root := hs
    obtain ⟨r, g, hres, _, _, hI, _⟩ := insert_dups t.root h.bal hs' e t.next
    refine Or.inr ⟨r, g, hres, ?_, hI⟩
    simp only [Spec.clash, abs, hd, if_true]

theorem step_refines_ins (t : Tree) (h : TreeInv t) (e : Int) :
    abs (treeStep t (.ins e)).1 = ((abs t).step (.ins e)).1 ∧
    (treeStep t (.ins e)).2 = ((abs t).step (.ins e)).2 ∧ TreeInv (treeStep t (.ins e)).1 := by
  have hinv := inv_insert t h e
  rcases insertAux_cases t h e with ⟨i, hx, hc⟩ | ⟨r, g, hres, hc, hI⟩
  · have hT : treeStep t (.ins e) = (t, .exists_ i) := by
      simp only [treeStep, Tree.insert, hx]
    have hS : (abs t).step (.ins e) = (abs t, .exists_ i) := by
      simp only [Spec.step, hc]
    rw [hT, hS]
    exact ⟨rfl, rfl, h⟩
  · have hT : treeStep t (.ins e) =
        ({ t with root := r, size := t.size + 1, next := t.next + 1 }, .inserted t.next) := by
      simp only [treeStep, Tree.insert, hres]
    have hS : (abs t).step (.ins e) =
        ({ abs t with elems := listInsert e t.next t.root.inorder, next := t.next + 1 },
          .inserted t.next) := by
      simp only [Spec.step, hc]
      rfl
    have hE : (t.insert e).1 = { t with root := r, size := t.size + 1, next := t.next + 1 } := by
      simp only [Tree.insert, hres]
    rw [hE] at hinv
    rw [hT, hS]
    refine ⟨?_, rfl, hinv⟩
    simp only [abs, hI]

theorem step_refines_insFail (t : Tree) (h : TreeInv t) (e : Int) :
    abs (treeStep t (.insFail e)).1 = ((abs t).step (.insFail e)).1 ∧
    (treeStep t (.insFail e)).2 = ((abs t).step (.insFail e)).2 ∧
    TreeInv (treeStep t (.insFail e)).1 := by
  rcases insertAux_cases t h e with ⟨i, hx, hc⟩ | ⟨r, g, hres, hc, _⟩
  · have hT : treeStep t (.insFail e) = (t, .exists_ i) := by
      simp only [treeStep, Tree.insertMayFail, hx]
    have hS : (abs t).step (.insFail e) = (abs t, .exists_ i) := by
      simp only [Spec.step, hc]
    rw [hT, hS]
    exact ⟨rfl, rfl, h⟩
  · have hT : treeStep t (.insFail e) = (t, .noMem) := by
      simp only [treeStep, Tree.insertMayFail, hres, Bool.false_eq_true, if_false]
    have hS : (abs t).step (.insFail e) = (abs t, .noMem) := by
      simp only [Spec.step, hc]
    rw [hT, hS]
    exact ⟨rfl, rfl, h⟩

theorem step_refines_rm (t : Tree) (h : TreeInv t) (id : Nat) :
    abs (treeStep t (.rm id)).1 = ((abs t).step (.rm id)).1 ∧
    (treeStep t (.rm id)).2 = ((abs t).step (.rm id)).2 ∧
    TreeInv (treeStep t (.rm id)).1 := by
  by_cases hin : id ∈ t.root.inorder.map (·.1)
  · obtain ⟨r, s, hres, _, hI, _⟩ := remove_spec t.root h.bal id h.nodup hin
    have hR : t.remove id = some { t with root := r, size := t.size - 1 } := by
      simp only [Tree.remove, hres]
    have hT : treeStep t (.rm id) = ({ t with root := r, size := t.size - 1 }, .removed) := by
      simp only [treeStep, hR]
    have hS : (abs t).step (.rm id) =
        ({ abs t with elems := t.root.inorder.filter (fun p => p.1 ≠ id) }, .removed) := by
      have hin' : id ∈ (abs t).elems.map (·.1) := hin
      simp only [Spec.step, hin', if_true]
      rfl
    rw [hT, hS]
    refine ⟨?_, rfl, inv_remove t h id _ hR⟩
    simp only [abs, hI]
  · have hR : t.remove id = none := by
      simp only [Tree.remove, remove_absent t.root id hin]
    have hT : treeStep t (.rm id) = (t, .badIter) := by
      simp only [treeStep, hR]
    have hS : (abs t).step (.rm id) = (abs t, .badIter) := by
      have hin' : ¬ id ∈ (abs t).elems.map (·.1) := hin
      simp only [Spec.step, hin', if_false]
    rw [hT, hS]
    exact ⟨rfl, rfl, h⟩

theorem step_refines_find (t : Tree) (h : TreeInv t) (e : Int) :
    abs (treeStep t (.find e)).1 = ((abs t).step (.find e)).1 ∧
    (treeStep t (.find e)).2 = ((abs t).step (.find e)).2 ∧
    TreeInv (treeStep t (.find e)).1 := by
  obtain ⟨_, hsome, hnone⟩ := find_spec t.root (sorted_of_inv t h) e
  cases hf : (find e t.root 0).1 with
  | none =>
    have hnot : ¬ e ∈ (abs t).elems.map (·.2) := hnone.1 hf
    have hT : treeStep t (.find e) = (t, .notFound) := by
      simp only [treeStep, hf]
    have hS : (abs t).step (.find e) = (abs t, .notFound) := by
      simp only [Spec.step, hnot, if_false]
    rw [hT, hS]
    exact ⟨rfl, rfl, h⟩
  | some i =>
    have hmem : (i, e) ∈ t.root.inorder := hsome i hf
    have hl := Zix.C06Aux.lookup_of_mem _ i e h.nodup hmem
    have hin : e ∈ (abs t).elems.map (·.2) := List.mem_map.2 ⟨(i, e), hmem, rfl⟩
    have hT : treeStep t (.find e) = (t, .found e) := by
      simp only [treeStep, hf, hl]
    have hS : (abs t).step (.find e) = (abs t, .found e) := by
      simp only [Spec.step, hin, if_true]
    rw [hT, hS]
    exact ⟨rfl, rfl, h⟩

/-- One step commutes with the abstraction and produces the same output. -/
theorem step_refines (t : Tree) (h : TreeInv t) (op : Op) :
    abs (treeStep t op).1 = ((abs t).step op).1 ∧ (treeStep t op).2 = ((abs t).step op).2 ∧
    TreeInv (treeStep t op).1 := by
  cases op with
  | ins e => exact step_refines_ins t h e
  | insFail e => exact step_refines_insFail t h e
  | rm id => exact step_refines_rm t h id
  | find e => exact step_refines_find t h e

/-- Refinement over a whole history, from any state satisfying the invariant. -/
theorem run_refines (ops : List Op) : ∀ (t : Tree), TreeInv t →
    abs (runTree t ops).1 = (runSpec (abs t) ops).1 ∧
    (runTree t ops).2 = (runSpec (abs t) ops).2 ∧
    TreeInv (runTree t ops).1 := by
  induction ops with
  | nil => intro t h; exact ⟨rfl, rfl, h⟩
  | cons op rest ih =>
    intro t h
    obtain ⟨h1, h2, h3⟩ := step_refines t h op
    obtain ⟨i1, i2, i3⟩ := ih (treeStep t op).1 h3
    have hT : runTree t (op :: rest) =
        ((runTree (treeStep t op).1 rest).1, (treeStep t op).2 :: (runTree (treeStep t op).1 rest).2) := rfl
    have hS : runSpec (abs t) (op :: rest) =
        ((runSpec ((abs t).step op).1 rest).1,
          ((abs t).step op).2 :: (runSpec ((abs t).step op).1 rest).2) := rfl
    rw [hT, hS]
    rw [h1] at i1 i2
    refine ⟨i1, ?_, i3⟩
    show _ :: _ = _ :: _
    rw [h2, i2]

theorem abs_new (d : Bool) : abs (Tree.new d) = Spec.new d := rfl

/-- **Refinement.** Any history from `zix_tree_new` yields exactly the outputs of the abstract sorted
(multi)set, ends in the state whose in-order sequence is the abstract element list, and keeps the
invariant (balanced, sorted, size field right, ids unique). -/
theorem tree_refines_spec (d : Bool) (ops : List Op) :
    abs (runTree (Tree.new d) ops).1 = (runSpec (Spec.new d) ops).1 ∧
    (runTree (Tree.new d) ops).2 = (runSpec (Spec.new d) ops).2 ∧
    TreeInv (runTree (Tree.new d) ops).1 := by
  have := run_refines ops (Tree.new d) (inv_new d)
  rw [abs_new] at this
  exact this

/-- The abstract element list is always sorted by key (so forward iteration = in-order is sorted and
backward iteration = its reverse), and its length is `zix_tree_size`. -/
theorem spec_sorted_and_size (d : Bool) (ops : List Op) :
    ((runSpec (Spec.new d) ops).1.elems.map (·.2)).Pairwise (· ≤ ·) ∧
    (runTree (Tree.new d) ops).1.size = (runSpec (Spec.new d) ops).1.elems.length := by
  obtain ⟨h1, _, h3⟩ := tree_refines_spec d ops
  rw [← h1]
  refine ⟨sorted_of_inv _ h3, ?_⟩
  show _ = (runTree (Tree.new d) ops).1.root.inorder.length
  rw [h3.size, size_eq_inorder_length]

/-- An element that was inserted and not removed keeps its identity and key whatever else happens:
elements of the abstract list only ever leave through `rm` of their own id. -/
theorem spec_elements_stable (s : Spec) (op : Op) (p : Nat × Int) (hp : p ∈ s.elems)
    (hne : ∀ id, op = .rm id → id ≠ p.1) : p ∈ (s.step op).1.elems := by
  cases op with
  | ins e =>
    cases hc : s.clash e with
    | some q => simp only [Spec.step, hc]; exact hp
    | none =>
      simp only [Spec.step, hc]
      rw [listInsert_eq_lins]
      exact mem_lins.2 (Or.inr hp)
  | insFail e =>
    cases hc : s.clash e with
    | some q => simp only [Spec.step, hc]; exact hp
    | none => simp only [Spec.step, hc]; exact hp
  | rm id =>
    by_cases hin : id ∈ s.elems.map (·.1)
    · simp only [Spec.step, hin, if_true]
      refine List.mem_filter.2 ⟨hp, ?_⟩
      have := hne id rfl
      simp only [ne_eq, decide_not, Bool.not_eq_eq_eq_not, Bool.not_true, decide_eq_false_iff_not]
      exact fun h => this h.symm
    · simp only [Spec.step, hin, if_false]; exact hp
  | find e => exact hp

/-- In every reachable tree a find makes `c` comparisons with `fib (c + 2) ≤ n + 1`, i.e.
`c ≤ log_φ (n + 2)` ≈ 1.44 log2 (n + 2). -/
theorem reachable_find_bound (d : Bool) (ops : List Op) (e : Int) :
    let t := (runTree (Tree.new d) ops).1
    fib ((find e t.root 0).2 + 2) ≤ t.size + 1 := by
  intro t
  have hinv : TreeInv t := (tree_refines_spec d ops).2.2
  have hc := (find_spec t.root (sorted_of_inv t hinv) e).1
  have hb := avl_height_bound t.root hinv.bal
  have hm : fib ((find e t.root 0).2 + 2) ≤ fib (t.root.height + 2) := by
    rw [fib_eq_fibo, fib_eq_fibo]
    exact fibo_mono (by omega)
  rw [hinv.size]
  exact Nat.le_trans hm hb

/-! non-vacuity -/
example : (runTree (Tree.new false) [.ins 5, .ins 3, .ins 5, .rm 1, .find 3, .find 5]).2 =
    [.inserted 1, .inserted 2, .exists_ 1, .removed, .found 3, .notFound] := by decide
example : (runSpec (Spec.new false) [.ins 5, .ins 3, .ins 5, .rm 1, .find 3, .find 5]).2 =
    [.inserted 1, .inserted 2, .exists_ 1, .removed, .found 3, .notFound] := by decide

end Zix.C06
