import ZixModel.Properties.C06History
/-! # C06: the parent-pointer iterators of ZixTree, as pointer code

`zix_tree_begin/rbegin/iter_next/iter_prev` walk `left`/`right`/`parent` pointers.  Here the tree
is rendered as the node table the C code sees (`table`: for every node its left child, right child
and parent — exactly what the correspondence harness dumps and compares after every call), the four
functions are transcribed as the loops of src/tree.c over that table, and proved to step through the
in-order sequence: `next` of the element at position k is the element at position k+1 (end after the
last), `prev` symmetrically, `begin`/`rbegin` are the first/last element.  Together with
`tree_refines_spec` (the in-order sequence is the abstract sorted list, and elements keep their
node identity) this is the iterator clause of C06 for every reachable tree. -/
namespace Zix.C06
open Zix.Avl

structure NodeRec where
  left : Option Nat
  right : Option Nat
  parent : Option Nat
deriving Repr, DecidableEq

def rootId : T → Option Nat
  | .nil => none
  | .node _ i _ _ _ => some i

/-- The pointer structure of the tree: node id ↦ (left, right, parent). -/
def table : T → Option Nat → List (Nat × NodeRec)
  | .nil, _ => []
  | .node l i _ _ r, p => (i, ⟨rootId l, rootId r, p⟩) :: (table l (some i) ++ table r (some i))

def leftOf (tb : List (Nat × NodeRec)) (i : Nat) : Option Nat := (tb.lookup i).bind (·.left)
def rightOf (tb : List (Nat × NodeRec)) (i : Nat) : Option Nat := (tb.lookup i).bind (·.right)
def parentOf (tb : List (Nat × NodeRec)) (i : Nat) : Option Nat := (tb.lookup i).bind (·.parent)

/-- `while (n->left) n = n->left;` -/
def descendLeft (tb : List (Nat × NodeRec)) : Nat → Nat → Nat
  | 0, i => i
  | fuel + 1, i => match leftOf tb i with | some l => descendLeft tb fuel l | none => i

/-- `while (n->right) n = n->right;` -/
def descendRight (tb : List (Nat × NodeRec)) : Nat → Nat → Nat
  | 0, i => i
  | fuel + 1, i => match rightOf tb i with | some r => descendRight tb fuel r | none => i

/-- `while (i->parent && i->parent->right == i) i = i->parent;  return i->parent;` -/
def climbFromRight (tb : List (Nat × NodeRec)) : Nat → Nat → Option Nat
  | 0, _ => none
  | fuel + 1, i =>
    match parentOf tb i with
    | some p => if rightOf tb p = some i then climbFromRight tb fuel p else some p
    | none => none

/-- `while (i->parent && i->parent->left == i) i = i->parent;  return i->parent;` -/
def climbFromLeft (tb : List (Nat × NodeRec)) : Nat → Nat → Option Nat
  | 0, _ => none
  | fuel + 1, i =>
    match parentOf tb i with
    | some p => if leftOf tb p = some i then climbFromLeft tb fuel p else some p
    | none => none

/-- `zix_tree_begin` / `zix_tree_rbegin`; `none` = the end iterator (NULL). -/
def iterBegin (t : T) : Option Nat := (rootId t).map (descendLeft (table t none) t.size)
def iterRBegin (t : T) : Option Nat := (rootId t).map (descendRight (table t none) t.size)

/-- `zix_tree_iter_next(i)` for a non-NULL iterator at node `i`. -/
def iterNext (t : T) (i : Nat) : Option Nat :=
  let tb := table t none
  match rightOf tb i with
  | some r => some (descendLeft tb t.size r)
  | none => climbFromRight tb (t.size + 1) i

/-- `zix_tree_iter_prev(i)` for a non-NULL iterator at node `i`. -/
def iterPrev (t : T) (i : Nat) : Option Nat :=
  let tb := table t none
  match leftOf tb i with
  | some l => some (descendRight tb t.size l)
  | none => climbFromLeft tb (t.size + 1) i

/-- ids of the in-order sequence -/
def inorderIds (t : T) : List Nat := t.inorder.map (·.1)

/-! ## helper lemmas -/

theorem inorderIds_nil : inorderIds .nil = [] := rfl

theorem inorderIds_node (l : T) (i : Nat) (k b : Int) (r : T) :
    inorderIds (.node l i k b r) = inorderIds l ++ i :: inorderIds r := by
  simp only [inorderIds, T.inorder, List.map_append, List.map_cons]

theorem length_inorderIds (t : T) : (inorderIds t).length = t.size := by
  simp only [inorderIds, List.length_map, size_eq_inorder_length]

theorem nodup_node {l : T} {i : Nat} {k b : Int} {r : T} (h : (inorderIds (.node l i k b r)).Nodup) :
    (inorderIds l).Nodup ∧ (inorderIds r).Nodup ∧ i ∉ inorderIds l ∧ i ∉ inorderIds r ∧
      ∀ x ∈ inorderIds l, x ∉ inorderIds r := by
  rw [inorderIds_node, List.nodup_append] at h
  obtain ⟨h1, h2, h3⟩ := h
  rw [List.nodup_cons] at h2
  refine ⟨h1, h2.2, ?_, h2.1, ?_⟩
  · intro hi; exact h3 i hi i (List.mem_cons_self) rfl
  · intro x hx hxr; exact h3 x hx x (List.mem_cons_of_mem _ hxr) rfl

theorem rootId_mem {t : T} {j : Nat} (h : rootId t = some j) : j ∈ inorderIds t := by
  cases t with
  | nil => simp only [rootId] at h; cases h
  | node l i k b r =>
    simp only [rootId, Option.some.injEq] at h
    subst h
    rw [inorderIds_node]
    exact List.mem_append_right _ List.mem_cons_self

theorem lookup_table_none (t : T) (p : Option Nat) (x : Nat) (hx : x ∉ inorderIds t) :
    (table t p).lookup x = none := by
  induction t generalizing p with
  | nil => rfl
  | node l i k b r ihl ihr =>
    rw [inorderIds_node] at hx
    have hxl : x ∉ inorderIds l := fun h => hx (List.mem_append_left _ h)
    have hxi : x ≠ i := fun h => hx (List.mem_append_right _ (h ▸ List.mem_cons_self))
    have hxr : x ∉ inorderIds r := fun h => hx (List.mem_append_right _ (List.mem_cons_of_mem _ h))
    have hbeq : (x == i) = false := by simpa using hxi
    simp only [table, List.lookup_cons, hbeq, List.lookup_append, ihl _ hxl, ihr _ hxr, Option.or_none]

theorem lookup_table_some (t : T) (p : Option Nat) (x : Nat) (hx : x ∈ inorderIds t) :
    ∃ rec, (table t p).lookup x = some rec := by
  induction t generalizing p with
  | nil => rw [inorderIds_nil] at hx; cases hx
  | node l i k b r ihl ihr =>
    rw [inorderIds_node] at hx
    by_cases hxi : x = i
    · subst hxi
      exact ⟨⟨rootId l, rootId r, p⟩, by simp only [table, List.lookup_cons, beq_self_eq_true]⟩
    · have hbeq : (x == i) = false := by simpa using hxi
      rcases List.mem_append.1 hx with h | h
      · obtain ⟨rec, hrec⟩ := ihl (some i) h
        exact ⟨rec, by simp only [table, List.lookup_cons, hbeq, List.lookup_append, hrec, Option.some_or]⟩
      · rcases List.mem_cons.1 h with h | h
        · exact absurd h hxi
        · obtain ⟨rec, hrec⟩ := ihr (some i) h
          cases hl : (table l (some i)).lookup x with
          | none => exact ⟨rec, by simp only [table, List.lookup_cons, hbeq, List.lookup_append, hl, hrec, Option.none_or]⟩
          | some rec' => exact ⟨rec', by simp only [table, List.lookup_cons, hbeq, List.lookup_append, hl, Option.some_or]⟩

/-- Subtree `s` sits in the table `tb` with parent pointer `p`. -/
def Emb (tb : List (Nat × NodeRec)) : T → Option Nat → Prop
  | .nil, _ => True
  | .node l i _ _ r, p => tb.lookup i = some ⟨rootId l, rootId r, p⟩ ∧ Emb tb l (some i) ∧ Emb tb r (some i)

theorem emb_congr (tb1 tb2 : List (Nat × NodeRec)) (s : T) (p : Option Nat)
    (h : ∀ x ∈ inorderIds s, tb2.lookup x = tb1.lookup x) (he : Emb tb1 s p) : Emb tb2 s p := by
  induction s generalizing p with
  | nil => trivial
  | node l i k b r ihl ihr =>
    obtain ⟨h1, h2, h3⟩ := he
    rw [inorderIds_node] at h
    refine ⟨?_, ihl _ ?_ h2, ihr _ ?_ h3⟩
    · rw [h i (List.mem_append_right _ List.mem_cons_self)]; exact h1
    · intro x hx; exact h x (List.mem_append_left _ hx)
    · intro x hx; exact h x (List.mem_append_right _ (List.mem_cons_of_mem _ hx))

theorem emb_table (t : T) (p : Option Nat) (hid : (inorderIds t).Nodup) : Emb (table t p) t p := by
  induction t generalizing p with
  | nil => trivial
  | node l i k b r ihl ihr =>
    obtain ⟨hnl, hnr, hil, hir, hlr⟩ := nodup_node hid
    refine ⟨?_, ?_, ?_⟩
    · simp only [table, List.lookup_cons, beq_self_eq_true]
    · refine emb_congr _ _ l _ ?_ (ihl (some i) hnl)
      intro x hx
      have hbeq : (x == i) = false := by
        have : x ≠ i := fun h => hil (h ▸ hx)
        simpa using this
      obtain ⟨rec, hrec⟩ := lookup_table_some l (some i) x hx
      simp only [table, List.lookup_cons, hbeq, List.lookup_append, hrec, Option.some_or]
    · refine emb_congr _ _ r _ ?_ (ihr (some i) hnr)
      intro x hx
      have hbeq : (x == i) = false := by
        have : x ≠ i := fun h => hir (h ▸ hx)
        simpa using this
      have hxl : x ∉ inorderIds l := fun h => hlr x h hx
      simp only [table, List.lookup_cons, hbeq, List.lookup_append, lookup_table_none l _ x hxl,
        Option.none_or]

theorem rootId_none {t : T} (h : rootId t = none) : inorderIds t = [] := by
  cases t with
  | nil => rfl
  | node l i k b r => simp only [rootId] at h; cases h

theorem emb_leftOf {tb : List (Nat × NodeRec)} {l : T} {i : Nat} {k b : Int} {r : T} {p : Option Nat}
    (he : Emb tb (.node l i k b r) p) : leftOf tb i = rootId l := by
  simp only [leftOf, he.1, Option.bind_some]

theorem emb_rightOf {tb : List (Nat × NodeRec)} {l : T} {i : Nat} {k b : Int} {r : T} {p : Option Nat}
    (he : Emb tb (.node l i k b r) p) : rightOf tb i = rootId r := by
  simp only [rightOf, he.1, Option.bind_some]

theorem emb_parentOf {tb : List (Nat × NodeRec)} {s : T} {p : Option Nat} {j : Nat}
    (he : Emb tb s p) (hj : rootId s = some j) : parentOf tb j = p := by
  cases s with
  | nil => simp only [rootId] at hj; cases hj
  | node l i k b r =>
    simp only [rootId, Option.some.injEq] at hj
    subst hj
    simp only [parentOf, he.1, Option.bind_some]

theorem descendLeft_first (tb : List (Nat × NodeRec)) (s : T) :
    ∀ (p : Option Nat) (fuel j : Nat), Emb tb s p → s.size ≤ fuel → rootId s = some j →
      some (descendLeft tb fuel j) = (inorderIds s).head? := by
  induction s with
  | nil => intro p fuel j _ _ hj; simp only [rootId] at hj; cases hj
  | node l i k b r ihl _ =>
    intro p fuel j he hf hj
    simp only [rootId, Option.some.injEq] at hj
    subst hj
    have hleft := emb_leftOf he
    rw [inorderIds_node, List.head?_append]
    cases hl : rootId l with
    | none =>
      rw [hl] at hleft
      rw [rootId_none hl]
      cases fuel with
      | zero => rfl
      | succ f => simp only [descendLeft, hleft, List.head?_nil, Option.none_or, List.head?_cons]
    | some jl =>
      rw [hl] at hleft
      cases fuel with
      | zero => simp only [T.size] at hf; omega
      | succ f =>
        have hf' : l.size ≤ f := by simp only [T.size] at hf; omega
        have := ihl (some i) f jl he.2.1 hf' hl
        simp only [descendLeft, hleft]
        rw [this]
        cases hh : (inorderIds l).head? with
        | none => rw [hh] at this; cases this
        | some a => rfl

theorem descendRight_last (tb : List (Nat × NodeRec)) (s : T) :
    ∀ (p : Option Nat) (fuel j : Nat), Emb tb s p → s.size ≤ fuel → rootId s = some j →
      some (descendRight tb fuel j) = (inorderIds s).getLast? := by
  induction s with
  | nil => intro p fuel j _ _ hj; simp only [rootId] at hj; cases hj
  | node l i k b r _ ihr =>
    intro p fuel j he hf hj
    simp only [rootId, Option.some.injEq] at hj
    subst hj
    have hright := emb_rightOf he
    rw [inorderIds_node, List.getLast?_append]
    cases hr : rootId r with
    | none =>
      rw [hr] at hright
      rw [rootId_none hr]
      cases fuel with
      | zero => rfl
      | succ f => simp only [descendRight, hright, List.getLast?_singleton, Option.some_or]
    | some jr =>
      rw [hr] at hright
      cases fuel with
      | zero => simp only [T.size] at hf; omega
      | succ f =>
        have hf' : r.size ≤ f := by simp only [T.size] at hf; omega
        have := ihr (some i) f jr he.2.2 hf' hr
        simp only [descendRight, hright]
        rw [this, List.getLast?_cons]
        cases hh : (inorderIds r).getLast? with
        | none => rw [hh] at this; cases this
        | some a => rfl

/-- `zix_tree_iter_next` over an arbitrary table with explicit fuels. -/
def nextAt (tb : List (Nat × NodeRec)) (fD fC : Nat) (i : Nat) : Option Nat :=
  match rightOf tb i with
  | some r => some (descendLeft tb fD r)
  | none => climbFromRight tb fC i

/-- `zix_tree_iter_prev` over an arbitrary table with explicit fuels. -/
def prevAt (tb : List (Nat × NodeRec)) (fD fC : Nat) (i : Nat) : Option Nat :=
  match leftOf tb i with
  | some l => some (descendRight tb fD l)
  | none => climbFromLeft tb fC i

theorem iterNext_eq (t : T) (i : Nat) : iterNext t i = nextAt (table t none) t.size (t.size + 1) i := rfl
theorem iterPrev_eq (t : T) (i : Nat) : iterPrev t i = prevAt (table t none) t.size (t.size + 1) i := rfl

/-- Generalised successor statement for a subtree `s` embedded in the table: the climb from the root
of `s` yields `up` (the nearest ancestor in whose left subtree `s` lies) given fuel at least `c`. -/
theorem next_aux (tb : List (Nat × NodeRec)) (s : T) :
    ∀ (p up : Option Nat) (c fD fC j k x : Nat), Emb tb s p → (inorderIds s).Nodup → rootId s = some j →
      (∀ fuel, c ≤ fuel → climbFromRight tb fuel j = up) → s.size ≤ fD → c + s.size ≤ fC →
      (inorderIds s)[k]? = some x →
      nextAt tb fD fC x = (inorderIds s ++ up.toList)[k + 1]? := by
  induction s with
  | nil => intro p up c fD fC j k x _ _ hj; simp only [rootId] at hj; cases hj
  | node l i kk b r ihl ihr =>
    intro p up c fD fC j k x he hid hj hup hfD hfC hk
    simp only [rootId, Option.some.injEq] at hj
    subst hj
    obtain ⟨hnl, hnr, hil, hir, hlr⟩ := nodup_node hid
    have hleft := emb_leftOf he
    have hright := emb_rightOf he
    simp only [T.size] at hfD hfC
    rw [inorderIds_node] at hk ⊢
    rw [List.append_assoc, List.cons_append]
    rw [List.getElem?_append] at hk
    split at hk
    · -- x in the left subtree
      rename_i hlt
      cases hl : rootId l with
      | none => rw [rootId_none hl] at hlt; simp only [List.length_nil] at hlt; omega
      | some jl =>
        have hjl : jl ∈ inorderIds l := rootId_mem hl
        have hclimb : ∀ fuel, 1 ≤ fuel → climbFromRight tb fuel jl = some i := by
          intro fuel hfu
          cases fuel with
          | zero => omega
          | succ f =>
            have hne : ¬ (rootId r = some jl) := fun h => hlr jl hjl (rootId_mem h)
            simp only [climbFromRight, emb_parentOf he.2.1 hl, hright, hne, if_false]
        have := ihl (some i) (some i) 1 fD fC jl k x he.2.1 hnl hl hclimb (by omega) (by omega) hk
        rw [this, Option.toList_some, List.getElem?_append, List.getElem?_append]
        by_cases h2 : k + 1 < (inorderIds l).length
        · simp only [h2, if_true]
        · have h0 : k + 1 - (inorderIds l).length = 0 := by omega
          simp only [h2, if_false, h0]
          rfl
    · rename_i hge
      rw [List.getElem?_cons] at hk
      split at hk
      · -- x is the root
        rename_i h0
        simp only [Option.some.injEq] at hk
        subst hk
        have hkeq : k + 1 = (inorderIds l).length + 1 := by omega
        rw [hkeq, List.getElem?_append]
        have hnlt : ¬ ((inorderIds l).length + 1 < (inorderIds l).length) := by omega
        have h1 : (inorderIds l).length + 1 - (inorderIds l).length = 1 := by omega
        simp only [hnlt, if_false, h1]
        show nextAt tb fD fC i = (inorderIds r ++ up.toList)[0]?
        cases hr : rootId r with
        | none =>
          rw [hr] at hright
          rw [rootId_none hr, List.nil_append]
          simp only [nextAt, hright]
          rw [hup fC (by omega)]
          cases up <;> rfl
        | some jr =>
          rw [hr] at hright
          simp only [nextAt, hright]
          rw [descendLeft_first tb r (some i) fD jr he.2.2 (by omega) hr, List.head?_eq_getElem?,
            List.getElem?_append]
          have : 0 < (inorderIds r).length := List.length_pos_of_mem (rootId_mem hr)
          simp only [this, if_true]
      · -- x in the right subtree
        rename_i hne0
        cases hr : rootId r with
        | none =>
          rw [rootId_none hr] at hk
          simp only [List.getElem?_nil] at hk
          cases hk
        | some jr =>
          have hclimb : ∀ fuel, c + 1 ≤ fuel → climbFromRight tb fuel jr = up := by
            intro fuel hfu
            cases fuel with
            | zero => omega
            | succ f =>
              simp only [climbFromRight, emb_parentOf he.2.2 hr, hright, hr, if_true]
              exact hup f (by omega)
          have := ihr (some i) up (c + 1) fD fC jr (k - (inorderIds l).length - 1) x he.2.2 hnr hr hclimb
            (by omega) (by omega) hk
          rw [this]
          have hnlt : ¬ (k + 1 < (inorderIds l).length) := by omega
          have hne1 : ¬ (k + 1 - (inorderIds l).length = 0) := by omega
          have hidx : k + 1 - (inorderIds l).length - 1 = k - (inorderIds l).length - 1 + 1 := by omega
          rw [List.getElem?_append (l₁ := inorderIds l), if_neg hnlt, List.getElem?_cons, if_neg hne1, hidx]

/-- Generalised predecessor statement, the mirror image of `next_aux`. -/
theorem prev_aux (tb : List (Nat × NodeRec)) (s : T) :
    ∀ (p down : Option Nat) (c fD fC j k x : Nat), Emb tb s p → (inorderIds s).Nodup → rootId s = some j →
      (∀ fuel, c ≤ fuel → climbFromLeft tb fuel j = down) → s.size ≤ fD → c + s.size ≤ fC →
      (inorderIds s)[k]? = some x →
      prevAt tb fD fC x = (if k = 0 then down else (inorderIds s)[k - 1]?) := by
  induction s with
  | nil => intro p down c fD fC j k x _ _ hj; simp only [rootId] at hj; cases hj
  | node l i kk b r ihl ihr =>
    intro p down c fD fC j k x he hid hj hdown hfD hfC hk
    simp only [rootId, Option.some.injEq] at hj
    subst hj
    obtain ⟨hnl, hnr, hil, hir, hlr⟩ := nodup_node hid
    have hleft := emb_leftOf he
    have hright := emb_rightOf he
    simp only [T.size] at hfD hfC
    rw [inorderIds_node] at hk ⊢
    rw [List.getElem?_append] at hk
    split at hk
    · -- x in the left subtree
      rename_i hlt
      cases hl : rootId l with
      | none => rw [rootId_none hl] at hlt; simp only [List.length_nil] at hlt; omega
      | some jl =>
        have hclimb : ∀ fuel, c + 1 ≤ fuel → climbFromLeft tb fuel jl = down := by
          intro fuel hfu
          cases fuel with
          | zero => omega
          | succ f =>
            simp only [climbFromLeft, emb_parentOf he.2.1 hl, hleft, hl, if_true]
            exact hdown f (by omega)
        have := ihl (some i) down (c + 1) fD fC jl k x he.2.1 hnl hl hclimb (by omega) (by omega) hk
        rw [this]
        by_cases h0 : k = 0
        · simp only [h0, if_true]
        · have hlt' : k - 1 < (inorderIds l).length := by omega
          simp only [h0, if_false]
          rw [List.getElem?_append, if_pos hlt']
    · rename_i hge
      rw [List.getElem?_cons] at hk
      split at hk
      · -- x is the root
        rename_i h0
        simp only [Option.some.injEq] at hk
        subst hk
        have hkeq : k = (inorderIds l).length := by omega
        cases hl : rootId l with
        | none =>
          rw [hl] at hleft
          have hlen : (inorderIds l).length = 0 := by rw [rootId_none hl]; rfl
          have hk0 : k = 0 := by omega
          simp only [prevAt, hleft, hk0, if_true]
          exact hdown fC (by omega)
        | some jl =>
          rw [hl] at hleft
          have hpos : 0 < (inorderIds l).length := List.length_pos_of_mem (rootId_mem hl)
          have hk0 : ¬ (k = 0) := by omega
          have hlt' : k - 1 < (inorderIds l).length := by omega
          simp only [prevAt, hleft, hk0, if_false]
          rw [descendRight_last tb l (some i) fD jl he.2.1 (by omega) hl, List.getLast?_eq_getElem?,
            List.getElem?_append, if_pos hlt', hkeq]
      · -- x in the right subtree
        rename_i hne0
        cases hr : rootId r with
        | none =>
          rw [rootId_none hr] at hk
          simp only [List.getElem?_nil] at hk
          cases hk
        | some jr =>
          have hjr : jr ∈ inorderIds r := rootId_mem hr
          have hclimb : ∀ fuel, 1 ≤ fuel → climbFromLeft tb fuel jr = some i := by
            intro fuel hfu
            cases fuel with
            | zero => omega
            | succ f =>
              have hne : ¬ (rootId l = some jr) := fun h => hlr jr (rootId_mem h) hjr
              simp only [climbFromLeft, emb_parentOf he.2.2 hr, hleft, hne, if_false]
          have := ihr (some i) (some i) 1 fD fC jr (k - (inorderIds l).length - 1) x he.2.2 hnr hr hclimb
            (by omega) (by omega) hk
          rw [this]
          have hk0 : ¬ (k = 0) := by omega
          have hnlt : ¬ (k - 1 < (inorderIds l).length) := by omega
          rw [if_neg hk0, List.getElem?_append (l₁ := inorderIds l), if_neg hnlt, List.getElem?_cons]
          have hidx : k - 1 - (inorderIds l).length = k - (inorderIds l).length - 1 := by omega
          rw [hidx]

theorem begin_is_first (t : T) (hid : (inorderIds t).Nodup) : iterBegin t = (inorderIds t).head? := by
  cases hr : rootId t with
  | none => simp only [iterBegin, hr, Option.map_none, rootId_none hr, List.head?_nil]
  | some j =>
    simp only [iterBegin, hr, Option.map_some]
    exact descendLeft_first _ t none t.size j (emb_table t none hid) (Nat.le_refl _) hr

theorem rbegin_is_last (t : T) (hid : (inorderIds t).Nodup) : iterRBegin t = (inorderIds t).getLast? := by
  cases hr : rootId t with
  | none => simp only [iterRBegin, hr, Option.map_none, rootId_none hr, List.getLast?_nil]
  | some j =>
    simp only [iterRBegin, hr, Option.map_some]
    exact descendRight_last _ t none t.size j (emb_table t none hid) (Nat.le_refl _) hr

/-- `next` of the element at in-order position `k` is the element at position `k + 1`, or the end. -/
theorem next_is_successor (t : T) (hid : (inorderIds t).Nodup) (k : Nat) (i : Nat)
    (hk : (inorderIds t)[k]? = some i) : iterNext t i = (inorderIds t)[k + 1]? := by
  cases hr : rootId t with
  | none => rw [rootId_none hr] at hk; simp only [List.getElem?_nil] at hk; cases hk
  | some j =>
    have he := emb_table t none hid
    have hclimb : ∀ fuel, 0 ≤ fuel → climbFromRight (table t none) fuel j = none := by
      intro fuel _
      cases fuel with
      | zero => rfl
      | succ f => simp only [climbFromRight, emb_parentOf he hr]
    have := next_aux (table t none) t none none 0 t.size (t.size + 1) j k i he hid hr hclimb
      (Nat.le_refl _) (by omega) hk
    rw [iterNext_eq, this, Option.toList_none, List.append_nil]

/-- `prev` of the element at in-order position `k + 1` is the element at position `k`; of the first, the end. -/
theorem prev_is_predecessor (t : T) (hid : (inorderIds t).Nodup) (k : Nat) (i : Nat)
    (hk : (inorderIds t)[k]? = some i) : iterPrev t i = (if k = 0 then none else (inorderIds t)[k - 1]?) := by
  cases hr : rootId t with
  | none => rw [rootId_none hr] at hk; simp only [List.getElem?_nil] at hk; cases hk
  | some j =>
    have he := emb_table t none hid
    have hclimb : ∀ fuel, 0 ≤ fuel → climbFromLeft (table t none) fuel j = none := by
      intro fuel _
      cases fuel with
      | zero => rfl
      | succ f => simp only [climbFromLeft, emb_parentOf he hr]
    rw [iterPrev_eq]
    exact prev_aux (table t none) t none none 0 t.size (t.size + 1) j k i he hid hr hclimb
      (Nat.le_refl _) (by omega) hk

/-- Walking: `n` applications of next from begin. -/
def walkFrom (t : T) : Nat → Option Nat → List Nat
  | 0, _ => []
  | _ + 1, none => []
  | fuel + 1, some i => i :: walkFrom t fuel (iterNext t i)

def walkBack (t : T) : Nat → Option Nat → List Nat
  | 0, _ => []
  | _ + 1, none => []
  | fuel + 1, some i => i :: walkBack t fuel (iterPrev t i)

theorem walkFrom_drop (t : T) (hid : (inorderIds t).Nodup) :
    ∀ (fuel k : Nat), (inorderIds t).length - k < fuel →
      walkFrom t fuel (inorderIds t)[k]? = (inorderIds t).drop k := by
  intro fuel
  induction fuel with
  | zero => intro k h; omega
  | succ f ih =>
    intro k h
    by_cases hk : k < (inorderIds t).length
    · rw [List.getElem?_eq_getElem hk]
      simp only [walkFrom]
      rw [next_is_successor t hid k _ (List.getElem?_eq_getElem hk), ih (k + 1) (by omega),
        ← List.drop_eq_getElem_cons hk]
    · have hn : (inorderIds t)[k]? = none := List.getElem?_eq_none (by omega)
      rw [hn, List.drop_eq_nil_of_le (by omega)]
      rfl

theorem walkBack_none (t : T) (fuel : Nat) : walkBack t fuel none = [] := by
  cases fuel <;> rfl

theorem walkBack_take (t : T) (hid : (inorderIds t).Nodup) :
    ∀ (k fuel : Nat), k < (inorderIds t).length → k < fuel →
      walkBack t fuel (inorderIds t)[k]? = ((inorderIds t).take (k + 1)).reverse := by
  intro k
  induction k with
  | zero =>
    intro fuel hk hf
    cases fuel with
    | zero => omega
    | succ f =>
      rw [List.getElem?_eq_getElem hk]
      simp only [walkBack]
      rw [prev_is_predecessor t hid 0 _ (List.getElem?_eq_getElem hk), if_pos rfl, walkBack_none,
        List.take_succ_eq_append_getElem hk, List.take_zero, List.nil_append, List.reverse_singleton]
  | succ k ih =>
    intro fuel hk hf
    cases fuel with
    | zero => omega
    | succ f =>
      rw [List.getElem?_eq_getElem hk]
      simp only [walkBack]
      rw [prev_is_predecessor t hid (k + 1) _ (List.getElem?_eq_getElem hk), if_neg (by omega),
        Nat.add_sub_cancel, ih f (by omega) (by omega), List.take_succ_eq_append_getElem hk,
        List.reverse_append, List.reverse_singleton, List.singleton_append]

/-- Forward iteration from begin visits every element exactly once, in sorted (in-order) order, and
then reaches the end; backward iteration from rbegin visits them in reverse. -/
theorem forward_walk (t : T) (hid : (inorderIds t).Nodup) :
    walkFrom t (t.size + 1) (iterBegin t) = inorderIds t := by
  rw [begin_is_first t hid, List.head?_eq_getElem?,
    walkFrom_drop t hid (t.size + 1) 0 (by rw [length_inorderIds]; omega), List.drop_zero]

theorem backward_walk (t : T) (hid : (inorderIds t).Nodup) :
    walkBack t (t.size + 1) (iterRBegin t) = (inorderIds t).reverse := by
  rw [rbegin_is_last t hid, List.getLast?_eq_getElem?]
  by_cases h0 : (inorderIds t).length = 0
  · have hnil : inorderIds t = [] := List.eq_nil_of_length_eq_zero h0
    rw [hnil]
    rfl
  · have hlen := length_inorderIds t
    rw [walkBack_take t hid ((inorderIds t).length - 1) (t.size + 1) (by omega) (by omega)]
    have : (inorderIds t).length - 1 + 1 = (inorderIds t).length := by omega
    rw [this, List.take_length]

/-- For every reachable tree (any history from `zix_tree_new`): both walks enumerate the abstract
sorted (multi)set's elements, forwards and backwards. -/
theorem reachable_walks (d : Bool) (ops : List Op) :
    let t := (runTree (Tree.new d) ops).1
    walkFrom t.root (t.size + 1) (iterBegin t.root) = (runSpec (Spec.new d) ops).1.elems.map (·.1) ∧
    walkBack t.root (t.size + 1) (iterRBegin t.root) = ((runSpec (Spec.new d) ops).1.elems.map (·.1)).reverse := by
  intro t
  obtain ⟨h1, _, hinv⟩ := tree_refines_spec d ops
  have hel : (runSpec (Spec.new d) ops).1.elems.map (·.1) = inorderIds t.root := by
    rw [← h1]; rfl
  have hid : (inorderIds t.root).Nodup := hinv.nodup
  have hsz : t.size = t.root.size := hinv.size
  rw [hel, hsz]
  exact ⟨forward_walk t.root hid, backward_walk t.root hid⟩

example : walkFrom (T.node (T.node .nil 2 3 0 .nil) 1 5 0 (T.node (T.node .nil 4 6 0 .nil) 3 8 (-1) .nil)) 5
    (iterBegin (T.node (T.node .nil 2 3 0 .nil) 1 5 0 (T.node (T.node .nil 4 6 0 .nil) 3 8 (-1) .nil))) = [2, 1, 4, 3] := by decide

end Zix.C06
