import ZixModel.Properties.C01History
import ZixModel.Properties.C03
import ZixModel.Properties.C06
import ZixModel.Model.Avl
/-! # C07 — allocation failure is reported, atomic, leak-free and survivable

The component theorems already quantify over allocation oracles; this file states the C07 reading
of them explicitly (they are corollaries, kept here so that the property has its own obligations). -/
namespace Zix.C07
open Zix.BTree

/-- B-tree: for an ARBITRARY oracle `fails : Nat → Bool` (any pattern of refused requests, not only
"single" or "persistent"), an insertion that reports NO_MEM leaves the contents exactly as they
were, was caused by a request the oracle refused during this call, and the tree stays well formed —
so every continuation history behaves as specified (`btree_refines_sorted_set` applies again). -/
theorem btree_insert_fault_atomic (c : Cfg) (hc : c.Valid) (fails : Nat → Bool) (a : AllocSt) (t : Tree) (e : Nat)
    (h : WF c t) :
    WF c (t.insert c fails a e).2.1 ∧
    ((t.insert c fails a e).2.2.1 = .noMem →
      (t.insert c fails a e).2.1.root.elems = t.root.elems ∧ (t.insert c fails a e).2.1.size = t.size ∧
      ∃ k, a.reqs ≤ k ∧ k < (t.insert c fails a e).1.reqs ∧ fails k = true) :=
  ⟨(Zix.C01.insert_refines c hc fails a t e h).1, (Zix.C01.insert_refines c hc fails a t e h).2.2.2.1⟩

/-- B-tree: whatever the allocator refuses during any history, the representation invariant holds
afterwards (the object remains fully usable). -/
theorem btree_survives_any_faults (c : Cfg) (hc : c.Valid) (fails : Nat → Bool) (ops : List Zix.C01.Op)
    (s : AllocSt × Tree) (h : WF c s.2) : WF c (Zix.C01.runImpl c fails s ops).1.2 :=
  Zix.C01.btree_wf_invariant c hc fails ops s h

/-- B-tree construction: if either page is refused no tree is returned and the first page (if it
was granted) is released again. -/
theorem btree_new_fault (fails : Nat → Bool) (a : AllocSt) :
    (Tree.new fails a).2.1 = none →
      ((Tree.new fails a).2.2 = [.allocFail] ∨
       ∃ id, (Tree.new fails a).2.2 = [.alloc id, .allocFail, .free id]) := by
  intro h
  unfold Tree.new allocPage at *
  by_cases h1 : fails a.reqs = true
  · left; simp [h1]
  · right
    simp only [h1] at h ⊢
    by_cases h2 : fails (a.reqs + 1) = true
    · exact ⟨a.next, by simp [h2]⟩
    · simp [h2] at h

/-- AVL: an insertion whose node cannot be allocated changes nothing (and a duplicate is still
reported as EXISTS, since the search precedes the allocation). -/
theorem avl_insert_fault_atomic (t : Zix.Avl.Tree) (e : Int) :
    (t.insertMayFail e false).1 = t := by
  unfold Zix.Avl.Tree.insertMayFail
  split <;> simp

end Zix.C07
