import ZixModel.Model.EnvAlloc
import ZixModel.Properties.C16
import ZixModel.Lemmas.EnvAlloc
/-! # C07 / C08 for `zix_expand_environment_strings`: every allocation may fail

`Model/EnvAlloc.lean` is the scanner of `Model/Env.lean` with its output in a block of the caller's
allocator, grown by `realloc` in every `append_str`; `fails : Nat → Bool` is an ARBITRARY oracle
saying which requests are refused.  Property theorems only. -/
namespace Zix.C07Env
open Zix.Env Zix.EnvAlloc

/-- The call returns, whatever is refused. -/
theorem expandA_terminates (fails : Nat → Bool) (env : List (List Nat)) (str : List Nat) (h : 0 ∉ str) :
    (expandA fails env str).isSome := by
  obtain ⟨r, hr, _⟩ := loop_rel fails env str _ 0 0 init [] _ good_init (C16.expand_eq_spec env str h)
  simp [expandA, hr]

/-- C07 + C08: for EVERY refusal pattern the call either returns NULL — then some request of this call
was refused and no block is left outstanding — or returns a block holding exactly the specified
expansion, which is then the only block outstanding (the caller's to release).  In both cases the
event log is well formed: every `realloc` / `free` names a block that is outstanding at that
moment, i.e. nothing is released twice or touched after its release. -/
theorem expandA_atomic_leak_free (fails : Nat → Bool) (env : List (List Nat)) (str : List Nat) (h : 0 ∉ str) :
    ∃ r, expandA fails env str = some r ∧
      ((r.ret = none ∧ outstanding r.evs [] = some [] ∧ ∃ k, fails k = true) ∨
       (∃ b, r.ret = some (b, spec env str) ∧ outstanding r.evs [] = some [b])) := by
  have hv : Env.loop env str (str.length + 1) 0 0 [] = some (spec env str) := C16.expand_eq_spec env str h
  exact loop_rel fails env str _ 0 0 init [] _ good_init hv

/-- With enough memory the call succeeds (and by the previous theorem returns the expansion). -/
theorem expandA_no_fault_succeeds (env : List (List Nat)) (str : List Nat) (h : 0 ∉ str) :
    ∃ r b, expandA (fun _ => false) env str = some r ∧ r.ret = some (b, spec env str) := by
  obtain ⟨r, hr, hk | ⟨b, hb, _⟩⟩ :=
    loop_rel (fun _ => false) env str _ 0 0 init [] _ good_init (C16.expand_eq_spec env str h)
  · obtain ⟨_, _, k, hk⟩ := hk; simp at hk
  · exact ⟨r, b, hr, hb⟩

/-- Only requests actually made matter: two oracles that agree on the request indexes
`≤ 2 * str.length + 1` give the same result (a call makes at most two requests per byte of input
plus one at loop exit; `Lemmas/EnvAlloc.loop_congr` shows indexes `≤ 2 * str.length` suffice). -/
theorem expandA_request_bound (f g : Nat → Bool) (env : List (List Nat)) (str : List Nat) (h : 0 ∉ str)
    (hfg : ∀ k, k ≤ 2 * str.length + 1 → f k = g k) : expandA f env str = expandA g env str := by
  have _ := h  -- not needed: the bound holds for every string
  exact loop_congr f g env str _ 0 0 init (Nat.le_refl _) (fun k hk => hfg k (by simp [init] at hk; omega))

/-! ## non-vacuity -/
-- "a$Xb" with X=12: three requests; refusing the second releases the first block
example : (expandA (fun k => k == 1) [[88, 61, 49, 50]] [97, 36, 88, 98]).map (·.evs)
    = some [.realloc none 2 (some 1), .realloc (some 1) 4 none, .free (some 1)] := by decide
example : (expandA (fun _ => false) [[88, 61, 49, 50]] [97, 36, 88, 98]).map (·.ret)
    = some (some (3, [97, 49, 50, 98])) := by decide
-- the empty string still allocates its terminator; refused: free(NULL)
example : (expandA (fun _ => true) [] []).map (·.evs) = some [.realloc none 1 none, .free none] := by decide

end Zix.C07Env
