import ZixModel.Model.BTree
/-! # C08 — all memory goes through the caller's allocator and is released exactly once -/
namespace Zix.C08
open Zix.BTree

/-- A granted page gets the next unused block id and the request counter always advances: ids are
never reused, so "released exactly once" can be stated on ids. -/
theorem alloc_page_fresh (fails : Nat → Bool) (a : AllocSt) :
    (allocPage fails a).1.reqs = a.reqs + 1 ∧
    (∀ id, (allocPage fails a).2.1 = some id → id = a.next ∧ (allocPage fails a).1.next = a.next + 1 ∧ (allocPage fails a).2.2 = [.alloc id]) ∧
    ((allocPage fails a).2.1 = none → (allocPage fails a).1.next = a.next ∧ (allocPage fails a).2.2 = [.allocFail]) := by
  unfold allocPage
  split <;> simp

end Zix.C08
