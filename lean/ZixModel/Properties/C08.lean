import ZixModel.Lemmas.BTreeDefs
import ZixModel.Lemmas.BTreePages
import ZixModel.Properties.C01History
/-! # C08 — all memory goes through the caller's allocator and is released exactly once (B-tree)

Property theorems only; helper lemmas live in `ZixModel/Lemmas/BTreePages.lean`.
Every page of the B-tree model carries the id of its memory block; every operation returns the
allocator events it caused (`Ev.alloc id`, `Ev.allocFail`, `Ev.free id`), and the correspondence
harness compares these events, with ids, against the implementation's tracking allocator after
every call.  The theorems say that over every history the events are a disciplined use of the
allocator: a block is only released if it is live, never twice, and the live blocks are exactly the
pages of the tree — so that after `free` nothing is outstanding. -/
namespace Zix.C08
open Zix.BTree

mutual
/-- Block ids of all pages of a subtree. -/
def pagesOf : Node → List Nat
  | .leaf id _ => [id]
  | .inode id _ cs => id :: pagesOfList cs
def pagesOfList : List Node → List Nat
  | [] => []
  | c :: cs => pagesOf c ++ pagesOfList cs
end

/-- All blocks a tree owns: the tree record and every node page. -/
def Tree.pages (t : Tree) : List Nat := t.treeId :: pagesOf t.root

/-- Replay allocator events against the set of live blocks: `none` as soon as a block is granted
twice, or released while not live (double release, foreign pointer). -/
def applyEvs : List Nat → List Ev → Option (List Nat)
  | live, [] => some live
  | live, .alloc id :: rest => if id ∈ live then none else applyEvs (id :: live) rest
  | live, .allocFail :: rest => applyEvs live rest
  | live, .free id :: rest => if id ∈ live then applyEvs (live.erase id) rest else none

/-- The tree's blocks are distinct and were all granted by the allocator (ids below its counter). -/
def PagesOK (a : AllocSt) (t : Tree) : Prop := (Tree.pages t).Nodup ∧ ∀ id ∈ Tree.pages t, id < a.next

/-- Events of `zix_btree_free`: everything `clear` releases, then the root page, then the tree record. -/
def freeEvents (t : Tree) : List Ev := (t.clear).2.2 ++ [.free t.root.id, .free t.treeId]

/-- One call with its events. -/
def stepEv (c : Cfg) (fails : Nat → Bool) (s : AllocSt × Tree) : Zix.C01.Op → (AllocSt × Tree) × List Ev
  | .ins e => let r := s.2.insert c fails s.1 e; ((r.1, r.2.1), r.2.2.2.1)
  | .rm e => let r := s.2.remove c e; ((s.1, r.1), r.2.2.2.2.1)
  | .clear => ((s.1, (s.2.clear).1), (s.2.clear).2.2)

def runEv (c : Cfg) (fails : Nat → Bool) : (AllocSt × Tree) → List Zix.C01.Op → (AllocSt × Tree) × List Ev
  | s, [] => (s, [])
  | s, op :: ops =>
    let (s', e1) := stepEv c fails s op
    let (s'', e2) := runEv c fails s' ops
    (s'', e1 ++ e2)

/-! ### the definitions above are the ones the helper lemmas are stated for

`ZixModel/Lemmas/BTreePages.lean` cannot see this file, so it works with copies (`Pg.pages`,
`Pg.replay`, `Pg.treePages`, `Pg.OK`); these bridges identify them. -/

mutual
theorem pagesOf_eq : ∀ n : Node, pagesOf n = Pg.pages n
  | .leaf id vs => by simp [pagesOf]
  | .inode id vs cs => by simp [pagesOf, pagesOfList_eq cs]
theorem pagesOfList_eq : ∀ cs : List Node, pagesOfList cs = Pg.pagesL cs
  | [] => by simp [pagesOfList]
  | c :: cs => by simp [pagesOfList, pagesOf_eq c, pagesOfList_eq cs]
end

theorem pages_eq (t : Tree) : Tree.pages t = Pg.treePages t := by
  simp [Tree.pages, Pg.treePages, pagesOf_eq]

theorem applyEvs_eq (live : List Nat) (evs : List Ev) : applyEvs live evs = Pg.replay live evs := by
  induction evs generalizing live with
  | nil => rfl
  | cons x evs ih => cases x <;> simp [applyEvs, Pg.replay, ih]

theorem pagesOK_iff (a : AllocSt) (t : Tree) : PagesOK a t ↔ Pg.OK a t := by
  simp [PagesOK, Pg.OK, pages_eq]

/-- A new tree owns exactly the two blocks it was granted; a failed construction owns nothing. -/
theorem new_pages_accounted (fails : Nat → Bool) (a : AllocSt) :
    match (Tree.new fails a).2.1 with
    | some t => ∃ live, applyEvs [] (Tree.new fails a).2.2 = some live ∧ live.Perm (Tree.pages t) ∧ PagesOK (Tree.new fails a).1 t
    | none => applyEvs [] (Tree.new fails a).2.2 = some [] := by
  unfold Tree.new allocPage
  by_cases h1 : fails a.reqs = true
  · simp [h1, applyEvs]
  · by_cases h2 : fails (a.reqs + 1) = true
    · simp [h1, h2, applyEvs]
    · simp only [h1, h2, Bool.false_eq_true, if_false]
      refine ⟨[a.next + 1, a.next], by simp [applyEvs], ?_, ?_, ?_⟩
      · simp only [Tree.pages, pagesOf]
        exact List.Perm.swap _ _ _
      · simp [Tree.pages, pagesOf]
      · intro id hid
        simp [Tree.pages, pagesOf] at hid
        show id < a.next + 1 + 1
        omega

/-- Every single call uses the allocator correctly whatever it refuses: starting from the tree's
own blocks, replaying the call's events never releases a dead or foreign block, never grants a live
id, and ends with exactly the blocks of the resulting tree. -/
theorem step_pages_accounted (c : Cfg) (hc : c.Valid) (fails : Nat → Bool) (s : AllocSt × Tree) (op : Zix.C01.Op)
    (h : WF c s.2) (hp : PagesOK s.1 s.2) :
    ∃ live, applyEvs (Tree.pages s.2) (stepEv c fails s op).2 = some live ∧
      live.Perm (Tree.pages (stepEv c fails s op).1.2) ∧ PagesOK (stepEv c fails s op).1.1 (stepEv c fails s op).1.2 := by
  simp only [applyEvs_eq, pages_eq, pagesOK_iff] at hp ⊢
  cases op with
  | ins e => exact Pg.insert_pages c hc fails s.1 s.2 e hp
  | rm e => exact Pg.remove_pages c hc s.1 s.2 e h hp
  | clear => exact Pg.clear_pages c s.1 s.2 h hp

/-- One call keeps the representation invariant (same state as `Zix.C01.stepImpl`). -/
theorem step_wf (c : Cfg) (hc : c.Valid) (fails : Nat → Bool) (s : AllocSt × Tree) (op : Zix.C01.Op)
    (h : WF c s.2) : WF c (stepEv c fails s op).1.2 := by
  cases op with
  | ins e => exact (Zix.C01.insert_refines c hc fails s.1 s.2 e h).1
  | rm e => exact (Zix.C01.remove_refines c hc s.2 e h).1
  | clear => exact (Zix.C01.clear_destroys_each_once c s.2 h).2.1

/-- Every history uses the allocator correctly: replaying all its events from (any arrangement of)
the tree's blocks succeeds and ends with exactly the blocks of the final tree, which is well formed
and owns distinct granted blocks. -/
theorem history_pages_accounted (c : Cfg) (hc : c.Valid) (fails : Nat → Bool) (ops : List Zix.C01.Op) :
    ∀ (s : AllocSt × Tree) (live : List Nat), WF c s.2 → PagesOK s.1 s.2 → live.Perm (Tree.pages s.2) →
      ∃ live', applyEvs live (runEv c fails s ops).2 = some live' ∧
        live'.Perm (Tree.pages (runEv c fails s ops).1.2) ∧
        WF c (runEv c fails s ops).1.2 ∧ PagesOK (runEv c fails s ops).1.1 (runEv c fails s ops).1.2 := by
  induction ops with
  | nil => intro s live h hp hl; exact ⟨live, rfl, hl, h, hp⟩
  | cons op ops ih =>
    intro s live h hp hl
    obtain ⟨l1, a1, a2, a3⟩ := step_pages_accounted c hc fails s op h hp
    rw [applyEvs_eq] at a1
    obtain ⟨l1', b1, b2⟩ := Pg.replay_of_perm hl ⟨l1, a1, a2⟩
    obtain ⟨l2, d1, d2, d3, d4⟩ := ih (stepEv c fails s op).1 l1' (step_wf c hc fails s op h) a3 b2
    refine ⟨l2, ?_, d2, d3, d4⟩
    show applyEvs live ((stepEv c fails s op).2 ++ (runEv c fails (stepEv c fails s op).1 ops).2) = some l2
    rw [applyEvs_eq] at d1 ⊢
    rw [Pg.replay_append_some _ b1]
    exact d1

/-- Whole life cycle: construction, any history under any allocation oracle, then `free`: every block
granted is released exactly once and nothing remains outstanding. -/
theorem lifecycle_balanced (c : Cfg) (hc : c.Valid) (fails : Nat → Bool) (a : AllocSt) (t : Tree)
    (hnew : (Tree.new fails a).2.1 = some t) (ops : List Zix.C01.Op) :
    let s0 := ((Tree.new fails a).1, t)
    let r := runEv c fails s0 ops
    applyEvs [] ((Tree.new fails a).2.2 ++ r.2 ++ freeEvents r.1.2) = some [] := by
  intro s0 r
  have hn := new_pages_accounted fails a
  rw [hnew] at hn
  obtain ⟨l0, n1, n2, n3⟩ := hn
  have hwf : WF c t :=
    (Zix.C01.wf_new c fails a (Tree.new fails a).1 t (Tree.new fails a).2.2 (by rw [← hnew])).1
  obtain ⟨l1, r1, r2, r3, r4⟩ := history_pages_accounted c hc fails ops s0 l0 hwf n3 n2
  obtain ⟨l2, c1, c2, _⟩ := Pg.clear_pages c r.1.1 r.1.2 r3 ((pagesOK_iff _ _).1 r4)
  rw [pages_eq] at r2
  obtain ⟨l2', e1, e2⟩ := Pg.replay_of_perm r2 ⟨l2, c1, c2⟩
  obtain ⟨l3, f1, f2⟩ := Pg.replay_frees [.free r.1.2.root.id, .free r.1.2.treeId]
    (Rem.allFree_cons (Rem.allFree_cons Rem.allFree_nil)) l2' [] (by
      refine e2.trans ?_
      show [r.1.2.treeId, r.1.2.root.id].Perm [r.1.2.root.id, r.1.2.treeId]
      exact List.Perm.swap _ _ _)
  have hl3 : l3 = [] := List.Perm.eq_nil f2
  subst hl3
  rw [applyEvs_eq] at n1 r1 ⊢
  unfold freeEvents
  rw [List.append_assoc, Pg.replay_append_some _ n1, Pg.replay_append_some _ r1,
    Pg.replay_append_some _ e1]
  exact f1

/-- A granted page gets the next unused block id and the request counter always advances. -/
theorem alloc_page_fresh (fails : Nat → Bool) (a : AllocSt) :
    (allocPage fails a).1.reqs = a.reqs + 1 ∧
    (∀ id, (allocPage fails a).2.1 = some id → id = a.next ∧ (allocPage fails a).1.next = a.next + 1 ∧ (allocPage fails a).2.2 = [.alloc id]) ∧
    ((allocPage fails a).2.1 = none → (allocPage fails a).1.next = a.next ∧ (allocPage fails a).2.2 = [.allocFail]) := by
  unfold allocPage
  split <;> simp

end Zix.C08
