import ZixModel.Properties.C06History
import ZixModel.Lemmas.C08AvlAux
/-! # C08 for ZixTree: every block obtained from the caller's allocator is released exactly once

The blocks of a ZixTree are the tree header (block 1, obtained by `zix_tree_new`) and one node per
stored element (the node of element `id` is block `id + 1`, obtained by the insert that created it).
A node is released by the `zix_tree_remove` of its element, everything still stored is released by
`zix_tree_free` (post-order), then the header.  The theorems below are over EVERY history of
insert (succeeding, refused by the allocator, or refused as duplicate), remove and find, followed by
`zix_tree_free`.  The correspondence check compares this event sequence, call by call, with the log
of the tracking allocator under the real `src/tree.c`. -/
namespace Zix.C08Avl
open Zix.Avl Zix.C06

inductive AEv where
  | alloc (blk : Nat)     -- a block was obtained
  | refused               -- a request was refused (no block)
  | free (blk : Nat)      -- a block was released
deriving Repr, DecidableEq

/-- Allocator events of one call, from the operation and its outcome. -/
def evOf : Op → Out → List AEv
  | .ins _, .inserted id => [.alloc (id + 1)]
  | .insFail _, .noMem => [.refused]
  | .rm id, .removed => [.free (id + 1)]
  | _, _ => []

def newEvents : List AEv := [.alloc 1]

/-- `zix_tree_free`: nodes in post-order, then the header. -/
def freeEvents (t : Tree) : List AEv := t.root.postorder.map (fun p => AEv.free (p.1 + 1)) ++ [.free 1]

def runEvents (t : Tree) : List Op → Tree × List AEv
  | [] => (t, [])
  | op :: rest =>
    let r := treeStep t op
    let r2 := runEvents r.1 rest
    (r2.1, evOf op r.2 ++ r2.2)

/-- The whole life of a tree: new, any history, free. -/
def lifecycle (d : Bool) (ops : List Op) : List AEv :=
  let r := runEvents (Tree.new d) ops
  newEvents ++ r.2 ++ freeEvents r.1

def allocs (es : List AEv) : List Nat := es.filterMap (fun e => match e with | .alloc b => some b | _ => none)
def frees (es : List AEv) : List Nat := es.filterMap (fun e => match e with | .free b => some b | _ => none)

/-! ## helper lemmas -/
section Helpers
open Zix.C08AvlAux

theorem allocs_nil : allocs [] = [] := rfl
theorem allocs_alloc (b : Nat) (es : List AEv) : allocs (.alloc b :: es) = b :: allocs es := rfl
theorem allocs_refused (es : List AEv) : allocs (.refused :: es) = allocs es := rfl
theorem allocs_free (b : Nat) (es : List AEv) : allocs (.free b :: es) = allocs es := rfl
theorem frees_nil : frees [] = [] := rfl
theorem frees_alloc (b : Nat) (es : List AEv) : frees (.alloc b :: es) = frees es := rfl
theorem frees_refused (es : List AEv) : frees (.refused :: es) = frees es := rfl
theorem frees_free (b : Nat) (es : List AEv) : frees (.free b :: es) = b :: frees es := rfl
theorem allocs_append (a b : List AEv) : allocs (a ++ b) = allocs a ++ allocs b :=
  List.filterMap_append
theorem frees_append (a b : List AEv) : frees (a ++ b) = frees a ++ frees b :=
  List.filterMap_append

theorem allocs_map_free (l : List (Nat × Int)) :
    allocs (l.map (fun p => AEv.free (p.1 + 1))) = [] := by
  induction l with
  | nil => rfl
  | cons p l ih => rw [List.map_cons, allocs_free, ih]

theorem frees_map_free (l : List (Nat × Int)) :
    frees (l.map (fun p => AEv.free (p.1 + 1))) = l.map (fun p => p.1 + 1) := by
  induction l with
  | nil => rfl
  | cons p l ih => rw [List.map_cons, frees_free, ih, List.map_cons]

theorem allocs_freeEvents (t : Tree) : allocs (freeEvents t) = [] := by
  rw [freeEvents, allocs_append, allocs_map_free, allocs_free, allocs_nil]
  rfl

theorem frees_freeEvents (t : Tree) :
    frees (freeEvents t) = t.root.postorder.map (fun p => p.1 + 1) ++ [1] := by
  rw [freeEvents, frees_append, frees_map_free, frees_free, frees_nil]

/-- A well-formed allocator log from the outstanding set `L` with `n` the next fresh block: every
obtained block is the next fresh one, every released block is outstanding. -/
def Ok : List Nat → Nat → List AEv → Prop
  | _, _, [] => True
  | L, n, .alloc b :: es => b = n ∧ Ok (b :: L) (n + 1) es
  | L, n, .refused :: es => Ok L n es
  | L, n, .free b :: es => b ∈ L ∧ Ok (L.erase b) n es

theorem ok_alloc (L : List Nat) (n b : Nat) (es : List AEv) :
    Ok L n (.alloc b :: es) ↔ b = n ∧ Ok (b :: L) (n + 1) es := by
  simp only [Ok]
theorem ok_refused (L : List Nat) (n : Nat) (es : List AEv) :
    Ok L n (.refused :: es) ↔ Ok L n es := by
  simp only [Ok]
theorem ok_free (L : List Nat) (n b : Nat) (es : List AEv) :
    Ok L n (.free b :: es) ↔ b ∈ L ∧ Ok (L.erase b) n es := by
  simp only [Ok]

theorem ok_perm (es : List AEv) : ∀ (L L' : List Nat) (n : Nat), L.Perm L' → Ok L n es → Ok L' n es := by
  induction es with
  | nil => intro _ _ _ _ _; trivial
  | cons e es ih =>
    intro L L' n p h
    cases e with
    | alloc b =>
      rw [ok_alloc] at h ⊢
      exact ⟨h.1, ih _ _ _ (p.cons b) h.2⟩
    | refused =>
      rw [ok_refused] at h ⊢
      exact ih _ _ _ p h
    | free b =>
      rw [ok_free] at h ⊢
      exact ⟨p.mem_iff.1 h.1, ih _ _ _ (p.erase b) h.2⟩

/-- In a well-formed log the obtained blocks are distinct and all fresh. -/
theorem ok_allocs (es : List AEv) : ∀ (L : List Nat) (n : Nat), Ok L n es →
    (allocs es).Nodup ∧ ∀ b ∈ allocs es, n ≤ b := by
  induction es with
  | nil =>
    intro _ _ _
    refine ⟨List.nodup_nil, ?_⟩
    intro b hb; cases hb
  | cons e es ih =>
    intro L n h
    cases e with
    | alloc b =>
      rw [ok_alloc] at h
      obtain ⟨hb, h⟩ := h
      obtain ⟨hnd, hge⟩ := ih _ _ h
      rw [allocs_alloc]
      refine ⟨List.nodup_cons.2 ⟨?_, hnd⟩, ?_⟩
      · intro hm
        have := hge b hm
        omega
      · intro x hx
        rcases List.mem_cons.1 hx with hx | hx
        · omega
        · have := hge x hx
          omega
    | refused =>
      rw [ok_refused] at h
      rw [allocs_refused]
      exact ih _ _ h
    | free b =>
      rw [ok_free] at h
      rw [allocs_free]
      exact ih _ _ h.2

/-- In a well-formed log a released block was outstanding at that moment: it was in the initial set
or has been obtained, and has not been released before. -/
theorem ok_free_split (b : Nat) (post : List AEv) (pre : List AEv) :
    ∀ (L : List Nat) (n : Nat), L.Nodup → (∀ x ∈ L, x < n) → Ok L n (pre ++ AEv.free b :: post) →
      (b ∈ L ∨ b ∈ allocs pre) ∧ b ∉ frees pre := by
  induction pre with
  | nil =>
    intro L n _ _ h
    rw [List.nil_append, ok_free] at h
    refine ⟨Or.inl h.1, ?_⟩
    intro hb; cases hb
  | cons e pre ih =>
    intro L n hnd hlt h
    rw [List.cons_append] at h
    cases e with
    | alloc c =>
      rw [ok_alloc] at h
      obtain ⟨hc, h⟩ := h
      subst hc
      have hnd' : (c :: L).Nodup := by
        refine List.nodup_cons.2 ⟨?_, hnd⟩
        intro hm
        have := hlt c hm
        omega
      have hlt' : ∀ x ∈ c :: L, x < c + 1 := by
        intro x hx
        rcases List.mem_cons.1 hx with hx | hx
        · omega
        · have := hlt x hx
          omega
      obtain ⟨h1, h2⟩ := ih _ _ hnd' hlt' h
      rw [allocs_alloc, frees_alloc]
      refine ⟨?_, h2⟩
      rcases h1 with h1 | h1
      · rcases List.mem_cons.1 h1 with h1 | h1
        · exact Or.inr (List.mem_cons.2 (Or.inl h1))
        · exact Or.inl h1
      · exact Or.inr (List.mem_cons.2 (Or.inr h1))
    | refused =>
      rw [ok_refused] at h
      rw [allocs_refused, frees_refused]
      exact ih _ _ hnd hlt h
    | free c =>
      rw [ok_free] at h
      obtain ⟨hc, h⟩ := h
      have hnd' : (L.erase c).Nodup := hnd.erase c
      have hlt' : ∀ x ∈ L.erase c, x < n := fun x hx => hlt x (List.mem_of_mem_erase hx)
      obtain ⟨h1, h2⟩ := ih _ _ hnd' hlt' h
      rw [allocs_free, frees_free]
      have hne : b ≠ c := by
        rcases h1 with h1 | h1
        · exact ((List.Nodup.mem_erase_iff hnd).1 h1).1
        · have hge := (ok_allocs _ _ _ h).2 b (by
            rw [allocs_append]
            exact List.mem_append.2 (Or.inl h1))
          have := hlt c hc
          omega
      refine ⟨?_, ?_⟩
      · rcases h1 with h1 | h1
        · exact Or.inl (List.mem_of_mem_erase h1)
        · exact Or.inr h1
      · intro hm
        rcases List.mem_cons.1 hm with hm | hm
        · exact hne hm
        · exact h2 hm

/-- Releasing a list of outstanding blocks and then the header is well-formed. -/
theorem ok_free_list (n : Nat) (l : List (Nat × Int)) :
    Ok (l.map (fun p => p.1 + 1) ++ [1]) n (l.map (fun p => AEv.free (p.1 + 1)) ++ [.free 1]) := by
  induction l with
  | nil =>
    show Ok [1] n [.free 1]
    rw [ok_free]
    exact ⟨List.mem_cons_self, trivial⟩
  | cons p l ih =>
    rw [List.map_cons, List.map_cons, List.cons_append, List.cons_append, ok_free]
    refine ⟨List.mem_cons_self, ?_⟩
    rw [List.erase_cons_head]
    exact ih

theorem ok_freeEvents (n : Nat) (t : Tree) : Ok (1 :: live t) n (freeEvents t) := by
  refine ok_perm _ _ _ n ?_ (ok_free_list n t.root.postorder)
  refine (List.perm_append_singleton 1 _).trans (List.Perm.cons 1 ?_)
  exact (postorder_perm_inorder t.root).map _

/-- The allocator events of one step, under the invariant. -/
theorem step_events (t : Tree) (h : TreeInv t) (op : Op) :
    TreeInv (treeStep t op).1 ∧
    ((evOf op (treeStep t op).2 = [.alloc (t.next + 1)] ∧ (treeStep t op).1.next = t.next + 1 ∧
        (live (treeStep t op).1).Perm ((t.next + 1) :: live t)) ∨
     (∃ id, evOf op (treeStep t op).2 = [.free (id + 1)] ∧ (treeStep t op).1.next = t.next ∧
        (live t).Perm ((id + 1) :: live (treeStep t op).1)) ∨
     ((evOf op (treeStep t op).2 = [] ∨ evOf op (treeStep t op).2 = [.refused]) ∧
        (treeStep t op).1 = t)) := by
  refine ⟨(step_refines t h op).2.2, ?_⟩
  cases op with
  | ins e =>
    rcases ins_shape t h e with ⟨i, hT⟩ | ⟨t', hT, hn, hp⟩
    · rw [hT]
      exact Or.inr (Or.inr ⟨Or.inl rfl, rfl⟩)
    · rw [hT]
      exact Or.inl ⟨rfl, hn, hp⟩
  | insFail e =>
    rcases insFail_shape t e with ⟨i, hT⟩ | hT
    · rw [hT]
      exact Or.inr (Or.inr ⟨Or.inl rfl, rfl⟩)
    · rw [hT]
      exact Or.inr (Or.inr ⟨Or.inr rfl, rfl⟩)
  | rm id =>
    rcases rm_shape t h id with hT | ⟨t', hT, hn, hp⟩
    · rw [hT]
      exact Or.inr (Or.inr ⟨Or.inl rfl, rfl⟩)
    · rw [hT]
      exact Or.inr (Or.inl ⟨id, rfl, hn, hp⟩)
  | find e =>
    rcases find_shape t e with hT | ⟨k, hT⟩
    · rw [hT]
      exact Or.inr (Or.inr ⟨Or.inl rfl, rfl⟩)
    · rw [hT]
      exact Or.inr (Or.inr ⟨Or.inl rfl, rfl⟩)

theorem runEvents_cons (t : Tree) (op : Op) (rest : List Op) :
    runEvents t (op :: rest) =
      ((runEvents (treeStep t op).1 rest).1,
        evOf op (treeStep t op).2 ++ (runEvents (treeStep t op).1 rest).2) := rfl

/-- The log of a history is well-formed, from the header plus the stored nodes. -/
theorem ok_run (ops : List Op) : ∀ (t : Tree), TreeInv t → ∀ (tail : List AEv),
    Ok (1 :: live (runEvents t ops).1) ((runEvents t ops).1.next + 1) tail →
    Ok (1 :: live t) (t.next + 1) ((runEvents t ops).2 ++ tail) := by
  induction ops with
  | nil => intro t _ tail h; exact h
  | cons op rest ih =>
    intro t h tail htail
    rw [runEvents_cons] at htail ⊢
    obtain ⟨hinv, hc⟩ := step_events t h op
    have hih := ih (treeStep t op).1 hinv tail htail
    show Ok _ _ ((evOf op (treeStep t op).2 ++ (runEvents (treeStep t op).1 rest).2) ++ tail)
    rw [List.append_assoc]
    rcases hc with ⟨hev, hn, hp⟩ | ⟨id, hev, hn, hp⟩ | ⟨hev, hsame⟩
    · rw [hev]
      rw [hn] at hih
      show Ok _ _ (AEv.alloc (t.next + 1) :: _)
      rw [ok_alloc]
      refine ⟨rfl, ok_perm _ _ _ _ ?_ hih⟩
      exact ((hp.cons 1).trans (List.Perm.swap _ _ _))
    · rw [hev]
      rw [hn] at hih
      show Ok _ _ (AEv.free (id + 1) :: _)
      rw [ok_free]
      have hp' : (1 :: live t).Perm ((id + 1) :: 1 :: live (treeStep t op).1) :=
        (hp.cons 1).trans (List.Perm.swap _ _ _)
      refine ⟨hp'.mem_iff.2 List.mem_cons_self, ok_perm _ _ _ _ ?_ hih⟩
      have := (hp'.erase (id + 1)).symm
      rw [List.erase_cons_head] at this
      exact this
    · rw [hsame] at hih ⊢
      rcases hev with hev | hev
      · rw [hev]; exact hih
      · rw [hev]
        show Ok _ _ (AEv.refused :: _)
        rw [ok_refused]; exact hih

/-- Released blocks plus stored nodes = initially stored nodes plus obtained blocks. -/
theorem perm_run (ops : List Op) : ∀ (t : Tree), TreeInv t →
    (frees (runEvents t ops).2 ++ live (runEvents t ops).1).Perm
      (live t ++ allocs (runEvents t ops).2) := by
  induction ops with
  | nil =>
    intro t _
    show ([] ++ live t).Perm (live t ++ [])
    rw [List.nil_append, List.append_nil]
  | cons op rest ih =>
    intro t h
    rw [runEvents_cons]
    obtain ⟨hinv, hc⟩ := step_events t h op
    have hih := ih (treeStep t op).1 hinv
    show (frees (evOf op (treeStep t op).2 ++ (runEvents (treeStep t op).1 rest).2) ++
        live (runEvents (treeStep t op).1 rest).1).Perm
      (live t ++ allocs (evOf op (treeStep t op).2 ++ (runEvents (treeStep t op).1 rest).2))
    rw [frees_append, allocs_append]
    rcases hc with ⟨hev, _, hp⟩ | ⟨id, hev, _, hp⟩ | ⟨hev, hsame⟩
    · rw [hev]
      show (_ : List Nat).Perm (live t ++ (t.next + 1) :: allocs _)
      refine (hih.trans (hp.append_right _)).trans ?_
      exact List.perm_middle.symm
    · rw [hev]
      show ((id + 1) :: (frees _ ++ _)).Perm (live t ++ allocs _)
      refine (hih.cons (id + 1)).trans ?_
      exact (hp.append_right _).symm
    · rw [hsame] at hih ⊢
      rcases hev with hev | hev
      · rw [hev]; exact hih
      · rw [hev]; exact hih

theorem lifecycle_eq (d : Bool) (ops : List Op) :
    lifecycle d ops = AEv.alloc 1 ::
      ((runEvents (Tree.new d) ops).2 ++ freeEvents (runEvents (Tree.new d) ops).1) := by
  show ([AEv.alloc 1] ++ _) ++ _ = _
  rw [List.append_assoc]
  rfl

theorem lifecycle_ok (d : Bool) (ops : List Op) : Ok [] 1 (lifecycle d ops) := by
  rw [lifecycle_eq, ok_alloc]
  exact ⟨rfl, ok_run ops (Tree.new d) (inv_new d) _ (ok_freeEvents _ _)⟩

end Helpers

/-- Exactly once: no block is obtained twice, and the released blocks are exactly the obtained ones,
each once. -/
theorem avl_lifecycle_balanced (d : Bool) (ops : List Op) :
    (allocs (lifecycle d ops)).Nodup ∧ (frees (lifecycle d ops)).Perm (allocs (lifecycle d ops)) := by
  refine ⟨(ok_allocs _ _ _ (lifecycle_ok d ops)).1, ?_⟩
  have hp := perm_run ops (Tree.new d) (inv_new d)
  rw [lifecycle_eq, frees_alloc, allocs_alloc, frees_append, allocs_append, allocs_freeEvents,
    frees_freeEvents, List.append_nil]
  have hp' : (frees (runEvents (Tree.new d) ops).2 ++
      Zix.C08AvlAux.live (runEvents (Tree.new d) ops).1).Perm (allocs (runEvents (Tree.new d) ops).2) := hp
  rw [← List.append_assoc]
  refine (List.perm_append_singleton 1 _).trans (List.Perm.cons 1 ?_)
  refine List.Perm.trans ?_ hp'
  exact List.Perm.append_left _ ((postorder_perm_inorder _).map _)

/-- Order: at the moment a block is released it has been obtained and not yet released (no release of
a foreign block, no double release). -/
theorem avl_free_after_alloc (d : Bool) (ops : List Op) (pre post : List AEv) (b : Nat)
    (h : lifecycle d ops = pre ++ AEv.free b :: post) : b ∈ allocs pre ∧ b ∉ frees pre := by
  have hok := lifecycle_ok d ops
  rw [h] at hok
  obtain ⟨h1, h2⟩ := ok_free_split b post pre [] 1 List.nodup_nil (fun x hx => nomatch hx) hok
  refine ⟨?_, h2⟩
  rcases h1 with h1 | h1
  · cases h1
  · exact h1

/-- While the tree is alive (before free) the outstanding blocks are exactly the header and the nodes
of the stored elements. -/
theorem avl_outstanding (d : Bool) (ops : List Op) :
    let r := runEvents (Tree.new d) ops
    ((frees r.2) ++ 1 :: r.1.root.inorder.map (fun (p : Nat × Int) => p.1 + 1)).Perm (allocs (newEvents ++ r.2)) := by
  intro r
  have hp : (frees r.2 ++ Zix.C08AvlAux.live r.1).Perm (allocs r.2) :=
    perm_run ops (Tree.new d) (inv_new d)
  show (frees r.2 ++ 1 :: Zix.C08AvlAux.live r.1).Perm (1 :: allocs r.2)
  exact List.perm_middle.trans (hp.cons 1)

/-- A refused allocation changes nothing. -/
theorem avl_refused_unchanged (t : Tree) (e : Int) (h : (treeStep t (.insFail e)).2 = .noMem) :
    (treeStep t (.insFail e)).1 = t := by
  have _ := h
  rcases Zix.C08AvlAux.insFail_shape t e with ⟨i, hT⟩ | hT
  · rw [hT]
  · rw [hT]

example : lifecycle false [.ins 5, .ins 3, .ins 5, .insFail 9, .ins 8, .rm 1] =
    [.alloc 1, .alloc 2, .alloc 3, .refused, .alloc 4, .free 2, .free 3, .free 4, .free 1] := by decide

end Zix.C08Avl
