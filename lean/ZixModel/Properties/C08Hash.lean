import ZixModel.Properties.C03History
/-! # C08 for ZixHash: every block obtained from the caller's allocator is released exactly once

The blocks of a hash table are the header (block 1) and the current entry array (block 2 at first).
A successful resize (growing on insert, shrinking on remove) obtains the new array and then releases
the old one; a refused resize obtains nothing and releases nothing; `zix_hash_free` releases the
current array and the header.  The theorems are over EVERY history of insert / find / remove / erase-at-any-iterator with any
pattern of allocation failures, followed by `zix_hash_free`.  The correspondence check compares this
event sequence, call by call, with the log of the tracking allocator under the real `src/hash.c`. -/
namespace Zix.C08Hash
open Zix.Hash Zix.C03

inductive AEv where
  | alloc (blk : Nat)
  | refused
  | free (blk : Nat)
deriving Repr, DecidableEq

/-- Ghost allocator state: the block holding the current entry array and the next fresh block id. -/
structure Blocks where
  cur : Nat
  next : Nat
deriving Repr, DecidableEq

def Blocks.start : Blocks := ⟨2, 3⟩
def newEvents : List AEv := [.alloc 1, .alloc 2]

/-- Events of one call: `refused` = the call reported NO_MEM, `resized` = the entry array changed size. -/
def callEvents (b : Blocks) (refused resized : Bool) : Blocks × List AEv :=
  if refused then (b, [.refused])
  else if resized then (⟨b.next, b.next + 1⟩, [.alloc b.next, .free b.cur])
  else (b, [])

def isRefused : Out → Bool
  | .status .noMem => true
  | .removed .noMem _ => true
  | _ => false

def runEvents (keyOf codeOf : Nat → Nat) (t : Table) (b : Blocks) : List Op → Table × Blocks × List AEv
  | [] => (t, b, [])
  | op :: rest =>
    let r := step keyOf codeOf t op
    let e := callEvents b (isRefused r.2) (decide (r.1.n ≠ t.n))
    let r2 := runEvents keyOf codeOf r.1 e.1 rest
    (r2.1, r2.2.1, e.2 ++ r2.2.2)

def freeEvents (b : Blocks) : List AEv := [.free b.cur, .free 1]

/-- The whole life of a table: new, any history, free. -/
def lifecycle (keyOf codeOf : Nat → Nat) (ops : List Op) : List AEv :=
  let r := runEvents keyOf codeOf new Blocks.start ops
  newEvents ++ r.2.2 ++ freeEvents r.2.1

def allocs (es : List AEv) : List Nat := es.filterMap (fun e => match e with | .alloc b => some b | _ => none)
def frees (es : List AEv) : List Nat := es.filterMap (fun e => match e with | .free b => some b | _ => none)

/-! ## helper lemmas -/
section Helpers

theorem allocs_nil : allocs [] = [] := rfl
theorem allocs_alloc (b : Nat) (es : List AEv) : allocs (.alloc b :: es) = b :: allocs es := rfl
theorem allocs_refused (es : List AEv) : allocs (.refused :: es) = allocs es := rfl
theorem allocs_free (b : Nat) (es : List AEv) : allocs (.free b :: es) = allocs es := rfl
theorem frees_nil : frees [] = [] := rfl
theorem frees_alloc (b : Nat) (es : List AEv) : frees (.alloc b :: es) = frees es := rfl
theorem frees_refused (es : List AEv) : frees (.refused :: es) = frees es := rfl
theorem frees_free (b : Nat) (es : List AEv) : frees (.free b :: es) = b :: frees es := rfl
theorem allocs_append (a b : List AEv) : allocs (a ++ b) = allocs a ++ allocs b :=
  List.filterMap_append
theorem frees_append (a b : List AEv) : frees (a ++ b) = frees a ++ frees b :=
  List.filterMap_append

/-- A well-formed allocator log from the outstanding set `L` with `n` the next fresh block: every
obtained block is the next fresh one, every released block is outstanding. -/
def Ok : List Nat → Nat → List AEv → Prop
  | _, _, [] => True
  | L, n, .alloc b :: es => b = n ∧ Ok (b :: L) (n + 1) es
  | L, n, .refused :: es => Ok L n es
  | L, n, .free b :: es => b ∈ L ∧ Ok (L.erase b) n es

theorem ok_alloc (L : List Nat) (n b : Nat) (es : List AEv) :
    Ok L n (.alloc b :: es) ↔ b = n ∧ Ok (b :: L) (n + 1) es := by
  simp only [Ok]
theorem ok_refused (L : List Nat) (n : Nat) (es : List AEv) :
    Ok L n (.refused :: es) ↔ Ok L n es := by
  simp only [Ok]
theorem ok_free (L : List Nat) (n b : Nat) (es : List AEv) :
    Ok L n (.free b :: es) ↔ b ∈ L ∧ Ok (L.erase b) n es := by
  simp only [Ok]

theorem ok_perm (es : List AEv) : ∀ (L L' : List Nat) (n : Nat), L.Perm L' → Ok L n es → Ok L' n es := by
  induction es with
  | nil => intro _ _ _ _ _; trivial
  | cons e es ih =>
    intro L L' n p h
    cases e with
    | alloc b =>
      rw [ok_alloc] at h ⊢
      exact ⟨h.1, ih _ _ _ (p.cons b) h.2⟩
    | refused =>
      rw [ok_refused] at h ⊢
      exact ih _ _ _ p h
    | free b =>
      rw [ok_free] at h ⊢
      exact ⟨p.mem_iff.1 h.1, ih _ _ _ (p.erase b) h.2⟩

/-- In a well-formed log the obtained blocks are distinct and all fresh. -/
theorem ok_allocs (es : List AEv) : ∀ (L : List Nat) (n : Nat), Ok L n es →
    (allocs es).Nodup ∧ ∀ b ∈ allocs es, n ≤ b := by
  induction es with
  | nil =>
    intro _ _ _
    refine ⟨List.nodup_nil, ?_⟩
    intro b hb; cases hb
  | cons e es ih =>
    intro L n h
    cases e with
    | alloc b =>
      rw [ok_alloc] at h
      obtain ⟨hb, h⟩ := h
      obtain ⟨hnd, hge⟩ := ih _ _ h
      rw [allocs_alloc]
      refine ⟨List.nodup_cons.2 ⟨?_, hnd⟩, ?_⟩
      · intro hm
        have := hge b hm
        omega
      · intro x hx
        rcases List.mem_cons.1 hx with hx | hx
        · omega
        · have := hge x hx
          omega
    | refused =>
      rw [ok_refused] at h
      rw [allocs_refused]
      exact ih _ _ h
    | free b =>
      rw [ok_free] at h
      rw [allocs_free]
      exact ih _ _ h.2

/-- In a well-formed log a released block was outstanding at that moment: it was in the initial set
or has been obtained, and has not been released before. -/
theorem ok_free_split (b : Nat) (post : List AEv) (pre : List AEv) :
    ∀ (L : List Nat) (n : Nat), L.Nodup → (∀ x ∈ L, x < n) → Ok L n (pre ++ AEv.free b :: post) →
      (b ∈ L ∨ b ∈ allocs pre) ∧ b ∉ frees pre := by
  induction pre with
  | nil =>
    intro L n _ _ h
    rw [List.nil_append, ok_free] at h
    refine ⟨Or.inl h.1, ?_⟩
    intro hb; cases hb
  | cons e pre ih =>
    intro L n hnd hlt h
    rw [List.cons_append] at h
    cases e with
    | alloc c =>
      rw [ok_alloc] at h
      obtain ⟨hc, h⟩ := h
      subst hc
      have hnd' : (c :: L).Nodup := by
        refine List.nodup_cons.2 ⟨?_, hnd⟩
        intro hm
        have := hlt c hm
        omega
      have hlt' : ∀ x ∈ c :: L, x < c + 1 := by
        intro x hx
        rcases List.mem_cons.1 hx with hx | hx
        · omega
        · have := hlt x hx
          omega
      obtain ⟨h1, h2⟩ := ih _ _ hnd' hlt' h
      rw [allocs_alloc, frees_alloc]
      refine ⟨?_, h2⟩
      rcases h1 with h1 | h1
      · rcases List.mem_cons.1 h1 with h1 | h1
        · exact Or.inr (List.mem_cons.2 (Or.inl h1))
        · exact Or.inl h1
      · exact Or.inr (List.mem_cons.2 (Or.inr h1))
    | refused =>
      rw [ok_refused] at h
      rw [allocs_refused, frees_refused]
      exact ih _ _ hnd hlt h
    | free c =>
      rw [ok_free] at h
      obtain ⟨hc, h⟩ := h
      have hnd' : (L.erase c).Nodup := hnd.erase c
      have hlt' : ∀ x ∈ L.erase c, x < n := fun x hx => hlt x (List.mem_of_mem_erase hx)
      obtain ⟨h1, h2⟩ := ih _ _ hnd' hlt' h
      rw [allocs_free, frees_free]
      have hne : b ≠ c := by
        rcases h1 with h1 | h1
        · exact ((List.Nodup.mem_erase_iff hnd).1 h1).1
        · have hge := (ok_allocs _ _ _ h).2 b (by
            rw [allocs_append]
            exact List.mem_append.2 (Or.inl h1))
          have := hlt c hc
          omega
      refine ⟨?_, ?_⟩
      · rcases h1 with h1 | h1
        · exact Or.inl (List.mem_of_mem_erase h1)
        · exact Or.inr h1
      · intro hm
        rcases List.mem_cons.1 hm with hm | hm
        · exact hne hm
        · exact h2 hm

/-- The three shapes of the events of one call. -/
theorem callEvents_cases (b : Blocks) (r z : Bool) :
    callEvents b r z = (b, [.refused]) ∨
    callEvents b r z = (⟨b.next, b.next + 1⟩, [.alloc b.next, .free b.cur]) ∨
    callEvents b r z = (b, []) := by
  unfold callEvents
  cases r with
  | true => exact Or.inl rfl
  | false =>
    cases z with
    | true => exact Or.inr (Or.inl rfl)
    | false => exact Or.inr (Or.inr rfl)

theorem runEvents_cons (keyOf codeOf : Nat → Nat) (t : Table) (b : Blocks) (op : Op) (rest : List Op) :
    runEvents keyOf codeOf t b (op :: rest) =
      ((runEvents keyOf codeOf (step keyOf codeOf t op).1
          (callEvents b (isRefused (step keyOf codeOf t op).2)
            (decide ((step keyOf codeOf t op).1.n ≠ t.n))).1 rest).1,
       (runEvents keyOf codeOf (step keyOf codeOf t op).1
          (callEvents b (isRefused (step keyOf codeOf t op).2)
            (decide ((step keyOf codeOf t op).1.n ≠ t.n))).1 rest).2.1,
       (callEvents b (isRefused (step keyOf codeOf t op).2)
            (decide ((step keyOf codeOf t op).1.n ≠ t.n))).2 ++
       (runEvents keyOf codeOf (step keyOf codeOf t op).1
          (callEvents b (isRefused (step keyOf codeOf t op).2)
            (decide ((step keyOf codeOf t op).1.n ≠ t.n))).1 rest).2.2) := rfl

/-- The ghost allocator state stays sane, and the log of a history is well-formed from the header
plus the current array. -/
theorem ok_run (keyOf codeOf : Nat → Nat) (ops : List Op) : ∀ (t : Table) (b : Blocks),
    1 < b.cur → b.cur < b.next →
    (1 < (runEvents keyOf codeOf t b ops).2.1.cur ∧
      (runEvents keyOf codeOf t b ops).2.1.cur < (runEvents keyOf codeOf t b ops).2.1.next) ∧
    ∀ (tail : List AEv),
      Ok [1, (runEvents keyOf codeOf t b ops).2.1.cur] (runEvents keyOf codeOf t b ops).2.1.next tail →
      Ok [1, b.cur] b.next ((runEvents keyOf codeOf t b ops).2.2 ++ tail) := by
  induction ops with
  | nil => intro t b h1 h2; exact ⟨⟨h1, h2⟩, fun tail h => h⟩
  | cons op rest ih =>
    intro t b h1 h2
    rw [runEvents_cons]
    generalize (step keyOf codeOf t op).1 = t'
    generalize isRefused (step keyOf codeOf t op).2 = r
    generalize decide (t'.n ≠ t.n) = z
    rcases callEvents_cases b r z with hc | hc | hc
    · rw [hc]
      obtain ⟨hb, hih⟩ := ih t' b h1 h2
      refine ⟨hb, fun tail htail => ?_⟩
      show Ok _ _ (AEv.refused :: (_ ++ tail))
      rw [ok_refused]
      exact hih tail htail
    · rw [hc]
      obtain ⟨hb, hih⟩ := ih t' ⟨b.next, b.next + 1⟩ (by show 1 < b.next; omega)
        (by show b.next < b.next + 1; omega)
      refine ⟨hb, fun tail htail => ?_⟩
      show Ok _ _ (AEv.alloc b.next :: AEv.free b.cur :: (_ ++ tail))
      rw [ok_alloc, ok_free]
      refine ⟨rfl, List.mem_cons.2 (Or.inr (List.mem_cons.2 (Or.inr List.mem_cons_self))), ?_⟩
      have he : [b.next, 1, b.cur].erase b.cur = [b.next, 1] := by
        have e1 : (b.next == b.cur) = false := by
          rw [beq_eq_false_iff_ne]; omega
        have e2 : ((1 : Nat) == b.cur) = false := by
          rw [beq_eq_false_iff_ne]; omega
        rw [List.erase_cons, e1, List.erase_cons, e2, List.erase_cons_head]
        rfl
      rw [he]
      exact ok_perm _ _ _ _ (List.Perm.swap _ _ _) (hih tail htail)
    · rw [hc]
      obtain ⟨hb, hih⟩ := ih t' b h1 h2
      exact ⟨hb, fun tail htail => hih tail htail⟩

/-- Released blocks plus the two outstanding ones = the two initially outstanding plus obtained. -/
theorem perm_run (keyOf codeOf : Nat → Nat) (ops : List Op) : ∀ (t : Table) (b : Blocks),
    (frees (runEvents keyOf codeOf t b ops).2.2 ++ [1, (runEvents keyOf codeOf t b ops).2.1.cur]).Perm
      ([1, b.cur] ++ allocs (runEvents keyOf codeOf t b ops).2.2) := by
  induction ops with
  | nil => intro t b; exact List.Perm.refl _
  | cons op rest ih =>
    intro t b
    rw [runEvents_cons]
    generalize (step keyOf codeOf t op).1 = t'
    generalize isRefused (step keyOf codeOf t op).2 = r
    generalize decide (t'.n ≠ t.n) = z
    rcases callEvents_cases b r z with hc | hc | hc
    · rw [hc]; exact ih t' b
    · rw [hc]
      have hih := ih t' ⟨b.next, b.next + 1⟩
      show (b.cur :: (frees _ ++ _)).Perm (1 :: b.cur :: b.next :: allocs _)
      exact (hih.cons b.cur).trans (List.Perm.swap _ _ _)
    · rw [hc]; exact ih t' b

theorem lifecycle_eq (keyOf codeOf : Nat → Nat) (ops : List Op) :
    lifecycle keyOf codeOf ops = AEv.alloc 1 :: AEv.alloc 2 ::
      ((runEvents keyOf codeOf new Blocks.start ops).2.2 ++
        [.free (runEvents keyOf codeOf new Blocks.start ops).2.1.cur, .free 1]) := by
  show ([AEv.alloc 1, AEv.alloc 2] ++ _) ++ _ = _
  rw [List.append_assoc]
  rfl

theorem ok_freeEvents (c n : Nat) (hc : 1 < c) : Ok [1, c] n [.free c, .free 1] := by
  rw [ok_free]
  refine ⟨List.mem_cons.2 (Or.inr List.mem_cons_self), ?_⟩
  have e2 : ((1 : Nat) == c) = false := by
    rw [beq_eq_false_iff_ne]; omega
  rw [List.erase_cons, e2, List.erase_cons_head, ok_free]
  exact ⟨List.mem_cons_self, trivial⟩

theorem lifecycle_ok (keyOf codeOf : Nat → Nat) (ops : List Op) : Ok [] 1 (lifecycle keyOf codeOf ops) := by
  rw [lifecycle_eq, ok_alloc]
  refine ⟨rfl, ?_⟩
  rw [ok_alloc]
  refine ⟨rfl, ?_⟩
  obtain ⟨hb, h⟩ := ok_run keyOf codeOf ops new Blocks.start (by decide) (by decide)
  exact ok_perm _ _ _ _ (List.Perm.swap _ _ _) (h _ (ok_freeEvents _ _ hb.1))

/-! ### the model: a call that reports NO_MEM -/

theorem insertAt_noMem (keyOf : Nat → Nat) (t : Table) (index code rec : Nat) (ok : Bool) (evs : List Ev)
    (h : (insertAt keyOf t index code rec ok evs).2.1 = .noMem) :
    (insertAt keyOf t index code rec ok evs).1 = t := by
  by_cases hl : IsLive (t.slots.getD index .empty)
  · obtain ⟨c, r, hsl⟩ := hl
    unfold insertAt
    rw [hsl]
  · rw [insertAt_not_live keyOf t index code rec ok evs hl] at h ⊢
    split at h
    · rename_i hge
      rw [if_pos hge]
      cases ok with
      | true => exact Status.noConfusion (show Status.success = Status.noMem from h)
      | false => rfl
    · exact Status.noConfusion (show Status.success = Status.noMem from h)

theorem insert_noMem (keyOf : Nat → Nat) (t : Table) (rec code : Nat) (ok : Bool)
    (h : (insert keyOf t rec code ok).2.1 = .noMem) : (insert keyOf t rec code ok).1 = t := by
  unfold Zix.Hash.insert at h ⊢
  dsimp only at h ⊢
  generalize planInsert keyOf t.slots (keyOf rec) code (fold code t.n) t.n (fold code t.n) none
      [Ev.key rec, Ev.hash (keyOf rec)] = p at h ⊢
  cases p with
  | none => rfl
  | some p =>
    obtain ⟨i, evs⟩ := p
    exact insertAt_noMem keyOf t i code rec ok evs h

theorem erase_noMem (keyOf : Nat → Nat) (t : Table) (i : Nat) (ok : Bool)
    (h : (erase keyOf t i ok).2.1 = .noMem) : (erase keyOf t i ok).1.n = t.n := by
  rw [erase_eq] at h ⊢
  split at h
  · rename_i hc
    rw [if_pos hc]
    cases ok with
    | true => exact Status.noConfusion (show Status.success = Status.noMem from h)
    | false => exact List.length_set
  · exact Status.noConfusion (show Status.success = Status.noMem from h)

theorem remove_noMem (keyOf : Nat → Nat) (t : Table) (key code : Nat) (ok : Bool)
    (h : (remove keyOf t key code ok).2.1 = .noMem) : (remove keyOf t key code ok).1.n = t.n := by
  cases hf : (find keyOf t key code).1 with
  | some i =>
    obtain ⟨e1, e2, _⟩ := remove_of_find_some keyOf t key code i ok hf
    rw [e2] at h
    rw [e1]
    exact erase_noMem keyOf t i ok h
  | none =>
    unfold remove at h ⊢
    generalize find keyOf t key code = p at hf h
    obtain ⟨o, evs⟩ := p
    simp only at hf
    subst hf
    rfl

theorem eraseAt_noMem (keyOf : Nat → Nat) (t : Table) (i : Nat) (ok : Bool)
    (h : (eraseAt keyOf t i ok).2.1 = .noMem) : (eraseAt keyOf t i ok).1.n = t.n := by
  unfold eraseAt at h ⊢
  cases hrec : recordAt t i with
  | none => rfl
  | some r =>
    rw [hrec] at h
    exact erase_noMem keyOf t i ok h

end Helpers

/-- Exactly once: no block is obtained twice and the released blocks are exactly the obtained ones. -/
theorem hash_lifecycle_balanced (keyOf codeOf : Nat → Nat) (ops : List Op) :
    (allocs (lifecycle keyOf codeOf ops)).Nodup ∧
    (frees (lifecycle keyOf codeOf ops)).Perm (allocs (lifecycle keyOf codeOf ops)) := by
  refine ⟨(ok_allocs _ _ _ (lifecycle_ok keyOf codeOf ops)).1, ?_⟩
  have hp := perm_run keyOf codeOf ops new Blocks.start
  rw [lifecycle_eq, frees_alloc, frees_alloc, allocs_alloc, allocs_alloc, frees_append, allocs_append]
  show (frees _ ++ [(runEvents keyOf codeOf new Blocks.start ops).2.1.cur, 1]).Perm
    (1 :: 2 :: (allocs _ ++ []))
  rw [List.append_nil]
  refine List.Perm.trans (List.Perm.append_left _ (List.Perm.swap _ _ _)) ?_
  exact hp

/-- Order: a block is released only after it was obtained and not yet released. -/
theorem hash_free_after_alloc (keyOf codeOf : Nat → Nat) (ops : List Op) (pre post : List AEv) (b : Nat)
    (h : lifecycle keyOf codeOf ops = pre ++ AEv.free b :: post) : b ∈ allocs pre ∧ b ∉ frees pre := by
  have hok := lifecycle_ok keyOf codeOf ops
  rw [h] at hok
  obtain ⟨h1, h2⟩ := ok_free_split b post pre [] 1 List.nodup_nil (fun x hx => nomatch hx) hok
  refine ⟨?_, h2⟩
  rcases h1 with h1 | h1
  · cases h1
  · exact h1

/-- While the table is alive exactly two blocks are outstanding: the header and the current array. -/
theorem hash_outstanding (keyOf codeOf : Nat → Nat) (ops : List Op) :
    let r := runEvents keyOf codeOf new Blocks.start ops
    (frees r.2.2 ++ [1, r.2.1.cur]).Perm (allocs (newEvents ++ r.2.2)) := by
  intro r
  exact perm_run keyOf codeOf ops new Blocks.start

/-- A call that reports NO_MEM leaves the entry array (its size and the block holding it) as it was;
for an insert the whole table is unchanged. -/
theorem hash_refused_keeps_array (keyOf codeOf : Nat → Nat) (t : Table) (h : Inv keyOf codeOf t) (op : Op)
    (hr : isRefused (step keyOf codeOf t op).2 = true) : (step keyOf codeOf t op).1.n = t.n := by
  have _ := h
  cases op with
  | insert rec ok =>
    have hs : (insert keyOf t rec (codeOf (keyOf rec)) ok).2.1 = .noMem := by
      have hr' : isRefused (.status (insert keyOf t rec (codeOf (keyOf rec)) ok).2.1) = true := hr
      generalize (insert keyOf t rec (codeOf (keyOf rec)) ok).2.1 = s at hr'
      cases s <;> first | rfl | exact absurd hr' (by decide)
    show (insert keyOf t rec (codeOf (keyOf rec)) ok).1.n = t.n
    rw [insert_noMem keyOf t rec _ ok hs]
  | find key =>
    exfalso
    simp only [step] at hr
    split at hr
    · split at hr <;> exact Bool.noConfusion (show false = true from hr)
    · exact Bool.noConfusion (show false = true from hr)
  | remove key ok =>
    have hstep : (step keyOf codeOf t (.remove key ok)).1 = (remove keyOf t key (codeOf key) ok).1 ∧
        isRefused (step keyOf codeOf t (.remove key ok)).2 =
          decide ((remove keyOf t key (codeOf key) ok).2.1 = .noMem) := by
      simp only [step]
      generalize remove keyOf t key (codeOf key) ok = r
      obtain ⟨t', s, o, evs⟩ := r
      cases o <;> cases s <;> exact ⟨rfl, rfl⟩
    rw [hstep.2] at hr
    rw [hstep.1]
    exact remove_noMem keyOf t key _ ok (of_decide_eq_true hr)
  | eraseAt i ok =>
    have hstep : (step keyOf codeOf t (.eraseAt i ok)).1 = (eraseAt keyOf t i ok).1 ∧
        isRefused (step keyOf codeOf t (.eraseAt i ok)).2 =
          decide ((eraseAt keyOf t i ok).2.1 = .noMem) := by
      simp only [step]
      generalize eraseAt keyOf t i ok = r
      obtain ⟨t', s, o, evs⟩ := r
      cases o <;> cases s <;> exact ⟨rfl, rfl⟩
    rw [hstep.2] at hr
    rw [hstep.1]
    exact eraseAt_noMem keyOf t i ok (of_decide_eq_true hr)

example : lifecycle (fun r => r) (fun _ => 7) [.insert 1 true, .insert 2 true, .insert 3 true, .insert 4 false, .insert 4 true,
      .insert 5 true, .remove 1 true, .remove 2 false, .remove 3 true, .remove 4 true] =
    [.alloc 1, .alloc 2, .alloc 3, .free 2, .alloc 4, .free 3, .refused, .alloc 5, .free 4, .alloc 6, .free 5, .free 6, .free 1] := by decide

/-! erase at an iterator: a refused position (end iterator, BAD_ARG) touches no block; erasing a
record may be refused its shrink (NO_MEM) or shrink (obtain the new array, release the old). -/
example : lifecycle (fun r => r) (fun _ => 7) [.insert 1 true, .insert 2 true, .eraseAt 8 true, .eraseAt 7 false,
      .eraseAt 7 true, .eraseAt 0 true] =
    [.alloc 1, .alloc 2, .alloc 3, .free 2, .refused, .alloc 4, .free 3, .free 4, .free 1] := by decide

end Zix.C08Hash
