import ZixModel.Model.RingAlloc
import ZixModel.Lemmas.Ring
/-! # C07 / C08 for the ring's constructor and destructor

For every size and EVERY refusal pattern: `zix_ring_new` either returns NULL with nothing left
outstanding, or a ring whose two blocks are exactly what is outstanding; `zix_ring_free` then
releases both, each once; NULL is returned exactly when the size cannot be represented or one of
the two requests was refused. -/
namespace Zix.C08Ring
open Zix.Ring Zix.RingAlloc

/-- The four ways `zix_ring_new` can go. -/
theorem newN_cases (fails : Nat → Bool) (n : Nat) :
    (n = 0 ∧ newN fails n = ([], none)) ∨
    (n ≠ 0 ∧ fails 0 = true ∧ newN fails n = ([.malloc none none], none)) ∨
    (n ≠ 0 ∧ fails 0 = false ∧ fails 1 = true ∧
      newN fails n = ([.malloc none (some 1), .malloc (some n) none, .free 1], none)) ∨
    (n ≠ 0 ∧ fails 0 = false ∧ fails 1 = false ∧
      newN fails n = ([.malloc none (some 1), .malloc (some n) (some 2)], some (1, 2))) := by
  unfold newN
  by_cases h0 : n = 0
  · left; exact ⟨h0, by rw [if_pos h0]⟩
  · right
    rw [if_neg h0]
    cases h1 : fails 0 with
    | true => left; exact ⟨h0, rfl, by simp⟩
    | false =>
      right
      cases h2 : fails 1 with
      | true => left; exact ⟨h0, rfl, rfl, by simp⟩
      | false => right; exact ⟨h0, rfl, rfl, by simp⟩

theorem ring_new_null_iff (fails : Nat → Bool) (size : Nat) :
    (newA fails size).2 = none ↔ (nextPow2 size = 0 ∨ fails 0 = true ∨ fails 1 = true) := by
  unfold newA
  generalize nextPow2 size = n
  rcases newN_cases fails n with ⟨h0, e⟩ | ⟨h0, h1, e⟩ | ⟨h0, h1, h2, e⟩ | ⟨h0, h1, h2, e⟩
  · rw [e]; simp [h0]
  · rw [e]; simp [h1]
  · rw [e]; simp [h2]
  · rw [e]; simp [h0, h1, h2]

/-- NULL: nothing stays allocated.  A ring: exactly its header and its buffer are outstanding. -/
theorem ring_new_leak_free (fails : Nat → Bool) (size : Nat) :
    ((newA fails size).2 = none ∧ outstanding (newA fails size).1 [] = some []) ∨
    ((newA fails size).2 = some (1, 2) ∧ outstanding (newA fails size).1 [] = some [2, 1]) := by
  unfold newA
  generalize nextPow2 size = n
  rcases newN_cases fails n with ⟨_, e⟩ | ⟨_, _, e⟩ | ⟨_, _, _, e⟩ | ⟨_, _, _, e⟩
  · left; rw [e]; exact ⟨rfl, rfl⟩
  · left; rw [e]; exact ⟨rfl, rfl⟩
  · left; rw [e]; exact ⟨rfl, by simp [outstanding]⟩
  · right; rw [e]; exact ⟨rfl, rfl⟩

/-- Creation followed by `zix_ring_free` (also of NULL) releases every block exactly once. -/
theorem ring_lifecycle_balanced (fails : Nat → Bool) (size : Nat) :
    outstanding ((newA fails size).1 ++ freeA (newA fails size).2) [] = some [] := by
  unfold newA
  generalize nextPow2 size = n
  rcases newN_cases fails n with ⟨_, e⟩ | ⟨_, _, e⟩ | ⟨_, _, _, e⟩ | ⟨_, _, _, e⟩
  · rw [e]; rfl
  · rw [e]; rfl
  · rw [e]; simp [outstanding, freeA]
  · rw [e]; simp [outstanding, freeA]

/-- With enough memory every size from 1 to 2^31 gives a ring (whose buffer request is the rounded size). -/
theorem ring_new_no_fault (size : Nat) (h1 : 1 ≤ size) (h2 : size ≤ 2 ^ 31) :
    newA (fun _ => false) size = ([.malloc none (some 1), .malloc (some (nextPow2 size)) (some 2)], some (1, 2)) := by
  obtain ⟨k, _, hk, _, _⟩ := nextPow2_spec size h1 h2
  have hpos : 0 < 2 ^ k := Nat.pow_pos (by decide)
  unfold newA
  rcases newN_cases (fun _ => false) (nextPow2 size) with ⟨h0, _⟩ | ⟨_, h, _⟩ | ⟨_, _, h, _⟩ | ⟨_, _, _, e⟩
  · omega
  · cases h
  · cases h
  · exact e

example : newN (fun k => k == 1) 8 = ([.malloc none (some 1), .malloc (some 8) none, .free 1], none) := by decide
example : newN (fun _ => false) 0 = ([], none) := by decide

end Zix.C08Ring
