import ZixModel.Lemmas.Bump
/-! # C09 — bump allocator hands out in-bounds, aligned, disjoint blocks or NULL

Property theorems only (helper lemmas and the invariant are in `Lemmas/Bump.lean`).
All arithmetic in the conclusions is in unbounded ℕ; the model computes in `size_t`
(`% 2^64`), so "a request near SIZE_MAX is refused" is a consequence, not an assumption. -/
namespace Zix.C09
open Zix.Bump

/-- A request, as the caller issues it.  `realloc`/`free` name a block by its id. -/
inductive Req where
  | malloc (n : Nat)
  | calloc (n m : Nat)
  | realloc (id n : Nat)
  | free (id : Nat)
  | aalloc (a n : Nat)
deriving Repr

/-- What the API requires of the caller: arguments are `size_t`s, `realloc` names a live block,
the alignment is a multiple of 8 (a power of two ≥ sizeof(uintmax_t) in the C API). -/
def Req.Valid (s : State) : Req → Prop
  | .malloc n => n < W
  | .calloc n m => n < W ∧ m < W
  | .realloc id n => n < W ∧ ∃ b ∈ s.live, b.id = id
  | .free _ => True
  | .aalloc a n => 0 < a ∧ 8 ∣ a ∧ a < W ∧ n < W

def step (s : State) : Req → State × Option Nat
  | .malloc n => malloc s n
  | .calloc n m => calloc s n m
  | .realloc id n =>
    match s.live.find? (·.id = id) with
    | some b => realloc s b.off n
    | none => (s, none)
  | .free id => (free s id, none)
  | .aalloc a n => alignedAlloc s a n

def run (s : State) : List Req → State
  | [] => s
  | r :: rs => run (step s r).1 rs

/-- Every request of the history is valid in the state in which it is issued. -/
def ValidHistory (s : State) : List Req → Prop
  | [] => True
  | r :: rs => r.Valid s ∧ ValidHistory (step s r).1 rs

/-! ## initial state -/

/-- The initial top makes the first address aligned, for every buffer address, and skips < 8 bytes. -/
theorem bump_initial_top (base cap : Nat) :
    ((init base cap).base + (init base cap).top) % minAlign = 0 ∧ (init base cap).top < minAlign := by
  unfold init minAlign
  simp only
  split <;> omega

/-! ## the invariant holds in every reachable state -/

theorem step_inv {s : State} (hi : Inv s) (r : Req) (hv : r.Valid s) : Inv (step s r).1 := by
  cases r with
  | malloc n => exact malloc_inv hi n hv
  | calloc n m => exact calloc_inv hi n m
  | realloc id n =>
    simp only [step]
    split
    · exact realloc_inv hi _ n hv.1
    · exact hi
  | free id => exact free_inv hi id
  | aalloc a n => exact alignedAlloc_inv hi a n hv.1 hv.2.1 hv.2.2.1 hv.2.2.2

theorem run_inv (reqs : List Req) : ∀ (s : State), Inv s → ValidHistory s reqs → Inv (run s reqs) := by
  induction reqs with
  | nil => intro s hi _; exact hi
  | cons r rs ih => intro s hi hv; exact ih _ (step_inv hi r hv.1) hv.2

/-- The invariant holds after every valid request history, from every buffer. -/
theorem bump_inv_reachable (base cap : Nat) (hb : base + cap < W) (reqs : List Req)
    (hv : ValidHistory (init base cap) reqs) : Inv (run (init base cap) reqs) :=
  run_inv reqs _ (inv_init base cap hb) hv

/-- In every state satisfying the invariant (hence every reachable one) each live block is
8-aligned, lies wholly inside the buffer, and no two live blocks overlap or share an address. -/
theorem bump_live_blocks_sound {s : State} (hi : Inv s) :
    (∀ b ∈ s.live, (s.base + b.off) % 8 = 0 ∧ b.off + b.size ≤ s.cap) ∧ s.live.Pairwise Apart := by
  refine ⟨?_, hi.disj⟩
  intro b hb
  obtain ⟨h1, h2, _, _, _⟩ := hi.blk b hb
  rcases hi.topCap with h | h
  · exact ⟨h1, by omega⟩
  · rw [h] at hb; simp at hb

/-! ## each kind of request -/

/-- `malloc`: a granted block is aligned, inside the buffer with all `n` requested bytes, and
disjoint from every live block. -/
theorem bump_malloc_sound {s s' : State} (hi : Inv s) {n off : Nat}
    (h : malloc s n = (s', some off)) :
    (s.base + off) % 8 = 0 ∧ off + n ≤ s.cap ∧
    ∀ b ∈ s.live, b.off + b.size ≤ off ∧ b.off < off := by
  rcases malloc_result s n with ⟨_, hm⟩ | ⟨hg, hm⟩
  · rw [hm] at h; simp at h
  · rw [hm] at h
    simp only [Prod.mk.injEq, Option.some.injEq] at h
    obtain ⟨_, ho⟩ := h
    subst ho
    refine ⟨hi.topA, by omega, ?_⟩
    intro b hb
    obtain ⟨_, h2, h3, _, _⟩ := hi.blk b hb
    exact ⟨h2, h3⟩

/-- `malloc` is refused exactly when the block, rounded up to the alignment unit (a zero-size
request occupying one unit), does not fit in the space left — computed in unbounded ℕ. -/
theorem bump_malloc_fail_iff {s : State} (hi : Inv s) {n : Nat} (hn : n < W) :
    (malloc s n).2 = none ↔ s.cap < s.top + ru8 (if n = 0 then 1 else n) := by
  have hrs := realSize_spec n hn
  have hcw := hi.capW
  rcases malloc_result s n with ⟨hg, hm⟩ | ⟨hg, hm⟩
  · rw [hm]
    simp only [true_iff]
    rcases hrs with ⟨h1, h2⟩ | ⟨h1, h2, _, _⟩
    · have h0 : n ≠ 0 := by unfold W at h2; omega
      simp only [h0, if_false]
      unfold ru8; unfold W at *
      omega
    · omega
  · rw [hm]
    simp only [reduceCtorEq, false_iff]
    rcases hrs with ⟨h1, h2⟩ | ⟨h1, h2, _, _⟩ <;> omega

/-- A refused request changes nothing. -/
theorem bump_fail_changes_nothing {s s' : State} (r : Req) (hr : ∀ id, r ≠ .free id)
    (h : step s r = (s', none)) : s' = s := by
  cases r with
  | malloc n =>
    simp only [step] at h
    rcases malloc_result s n with ⟨_, hm⟩ | ⟨_, hm⟩ <;> rw [hm] at h <;> simp at h
    exact h.symm
  | calloc n m =>
    simp only [step] at h
    unfold calloc at h
    split at h
    · simp at h; exact h.symm
    · rcases malloc_result s (n * m) with ⟨_, hm⟩ | ⟨_, hm⟩ <;> rw [hm] at h <;> simp at h
      exact h.symm
  | realloc id n =>
    simp only [step] at h
    split at h
    · rename_i b _
      rcases realloc_result s b.off n with ⟨_, hm⟩ | ⟨_, hm⟩ <;> rw [hm] at h <;> simp at h
      exact h.symm
    · simp at h; exact h.symm
  | free id => exact absurd rfl (hr id)
  | aalloc a n =>
    simp only [step] at h
    unfold alignedAlloc at h
    simp only at h
    split at h
    · simp at h; exact h.symm
    · split at h
      · simp at h
      · simp at h; exact h.symm

/-- `calloc`: the product is computed without wrap-around; a granted block has all `n*m` bytes. -/
theorem bump_calloc_sound {s s' : State} (hi : Inv s) {n m off : Nat}
    (h : calloc s n m = (s', some off)) :
    n * m < W ∧ (s.base + off) % 8 = 0 ∧ off + n * m ≤ s.cap ∧
    ∀ b ∈ s.live, b.off + b.size ≤ off ∧ b.off < off := by
  unfold calloc at h
  split at h
  · simp at h
  · rename_i hg
    exact ⟨mul_lt_W_of_guard hg, bump_malloc_sound hi h⟩

/-- `calloc` refuses every request whose true product does not fit in `size_t`. -/
theorem bump_calloc_overflow_refused (s : State) {n m : Nat} (h : W ≤ n * m) :
    calloc s n m = (s, none) := by
  unfold calloc
  have hm : m ≠ 0 := by intro h0; subst h0; simp [W] at h
  have : n > (W - 1) / m := by
    apply Classical.byContradiction
    intro hle
    have hle : n ≤ (W - 1) / m := by omega
    have h2 : n * m ≤ (W - 1) / m * m := Nat.mul_le_mul_right m hle
    have h3 : (W - 1) / m * m ≤ W - 1 := Nat.div_mul_le_self (W - 1) m
    have : 0 < W := by unfold W; omega
    omega
  simp [hm, this]

/-- `realloc` succeeds only for the most recent block, never moves it, and the resized block
still lies in the buffer and clear of every other live block. -/
theorem bump_realloc_sound {s s' : State} (hi : Inv s) {off n p : Nat}
    (h : realloc s off n = (s', some p)) :
    p = off ∧ off = s.last ∧ off + n ≤ s.cap ∧
    ∀ b ∈ s.live, b.off ≠ off → b.off + b.size ≤ off ∧ b.off < off := by
  rcases realloc_result s off n with ⟨_, hm⟩ | ⟨hg, hm⟩
  · rw [hm] at h; simp at h
  · rw [hm] at h
    simp only [Prod.mk.injEq, Option.some.injEq] at h
    refine ⟨h.2.symm, by omega, by omega, ?_⟩
    intro b hb hne
    obtain ⟨_, _, _, h4, _⟩ := hi.blk b hb
    omega

/-- `realloc` is refused only if the pointer is not the most recent block, that block has been
freed (`top ≤ last`), or the rounded size does not fit between the block's start and the end of
the buffer. -/
theorem bump_realloc_fail_iff {s : State} (hi : Inv s) {off n : Nat} (hn : n < W) :
    (realloc s off n).2 = none ↔
      off ≠ s.last ∨ s.top ≤ s.last ∨ s.cap < s.last + ru8 (if n = 0 then 1 else n) := by
  have hrs := realSize_spec n hn
  have hcw := hi.capW
  rcases realloc_result s off n with ⟨hg, hm⟩ | ⟨hg, hm⟩
  · rw [hm]
    simp only [true_iff]
    rcases hg with hg | hg | hg
    · left; exact hg
    · right; left; exact hg
    · right; right
      rcases hrs with ⟨h1, h2⟩ | ⟨h1, h2, _, _⟩
      · have h0 : n ≠ 0 := by unfold W at h2; omega
        simp only [h0, if_false]
        unfold ru8; unfold W at *
        omega
      · omega
  · rw [hm]
    simp only [reduceCtorEq, false_iff]
    rcases hrs with ⟨h1, h2⟩ | ⟨h1, h2, _, _⟩ <;> omega

/-- For a block that is live (the API's contract for `realloc`) the refusal condition is the
documented one: not the most recent block, or the rounded size does not fit. -/
theorem bump_realloc_live_fail_iff {s : State} (hi : Inv s) {b : Block} (hb : b ∈ s.live) {n : Nat} (hn : n < W) :
    (realloc s b.off n).2 = none ↔ b.off ≠ s.last ∨ s.cap < s.last + ru8 (if n = 0 then 1 else n) := by
  rw [bump_realloc_fail_iff hi hn]
  obtain ⟨_, _, h3, _, _⟩ := hi.blk b hb
  constructor
  · rintro (h | h | h)
    · exact Or.inl h
    · by_cases hl : b.off = s.last
      · omega
      · exact Or.inl hl
    · exact Or.inr h
  · rintro (h | h)
    · exact Or.inl h
    · exact Or.inr (Or.inr h)

/-- Freeing the most recent block makes its space available again: the top returns to the block's
start, so the same request is granted again at the same address. -/
theorem bump_free_last_reclaims {s : State} (hi : Inv s) {b : Block} (hb : b ∈ s.live)
    (hl : b.off = s.last) : (free s b.id).top = b.off ∧ (free s b.id).last = b.off := by
  unfold free
  have hf : ∃ x, s.live.find? (fun x => decide (x.id = b.id)) = some x := by
    cases hx : s.live.find? (fun x => decide (x.id = b.id)) with
    | some x => exact ⟨x, rfl⟩
    | none =>
      rw [List.find?_eq_none] at hx
      have := hx b hb
      simp at this
  obtain ⟨x, hx⟩ := hf
  rw [hx]
  have hxm : x ∈ s.live := List.mem_of_find?_eq_some hx
  have hxid : x.id = b.id := by have := List.find?_some hx; simpa using this
  have hxb : x = b := by
    apply Classical.byContradiction
    intro hne
    have := pairwise_sym_forall (R := fun a b : Block => a.id ≠ b.id) (fun _ _ h => Ne.symm h) hi.ids hxm hb hne
    exact this hxid
  subst hxb
  simp [hl]

/-- Once the most recent block has been freed it can no longer be resized: `realloc` of its
address is refused (whatever the size) and changes nothing, until the next allocation. -/
theorem bump_realloc_after_free_refused {s : State} (hi : Inv s) {b : Block} (hb : b ∈ s.live)
    (hl : b.off = s.last) (n : Nat) :
    realloc (free s b.id) b.off n = (free s b.id, none) := by
  obtain ⟨ht, hla⟩ := bump_free_last_reclaims hi hb hl
  rcases realloc_result (free s b.id) b.off n with ⟨_, hm⟩ | ⟨hg, _⟩
  · exact hm
  · exact absurd (Or.inr (Or.inl (by omega))) hg

/-- Nor can anything be resized on a fresh allocator. -/
theorem bump_realloc_fresh_refused (base cap off n : Nat) :
    realloc (init base cap) off n = (init base cap, none) := by
  rcases realloc_result (init base cap) off n with ⟨_, hm⟩ | ⟨hg, _⟩
  · exact hm
  · exact absurd (Or.inr (Or.inl (by simp [init]))) hg

/-- `aligned_alloc`: a granted block is aligned as requested (and to 8), inside the buffer and
disjoint from every live block. -/
theorem bump_aligned_alloc_sound {s s' : State} (hi : Inv s) {a n off : Nat}
    (ha : 0 < a) (h8 : 8 ∣ a) (haW : a < W)
    (h : alignedAlloc s a n = (s', some off)) :
    (s.base + off) % a = 0 ∧ (s.base + off) % 8 = 0 ∧ off + n ≤ s.cap ∧
    ∀ b ∈ s.live, b.off + b.size ≤ off ∧ b.off < off := by
  unfold alignedAlloc at h
  simp only at h
  split at h
  · simp at h
  · rename_i hg
    have hcw := hi.capW
    have hta : (s.base + s.top) % W = s.base + s.top := Nat.mod_eq_of_lt (by omega)
    rw [hta] at hg h
    by_cases hw : s.base + s.top + a - 1 < W
    · obtain ⟨r1, r2, r3, r4⟩ := roundUp_spec (s.base + s.top) a ha h8 hw
      have hoff : (roundUp (s.base + s.top) a + W - (s.base + s.top)) % W
          = roundUp (s.base + s.top) a - (s.base + s.top) := by
        have : roundUp (s.base + s.top) a + W - (s.base + s.top)
            = (roundUp (s.base + s.top) a - (s.base + s.top)) + W := by omega
        rw [this, Nat.add_mod_right]
        apply Nat.mod_eq_of_lt; unfold W at *; omega
      rw [hoff] at hg h
      rcases malloc_result { s with top := s.top + (roundUp (s.base + s.top) a - (s.base + s.top)) } n
        with ⟨_, hm⟩ | ⟨hg2, hm⟩
      · rw [hm] at h; simp at h
      · rw [hm] at h
        simp only [Prod.mk.injEq, Option.some.injEq] at h
        obtain ⟨_, ho⟩ := h
        simp only at hg2
        have hsum : s.base + off = roundUp (s.base + s.top) a := by omega
        refine ⟨by rw [hsum]; exact r3, by rw [hsum]; exact r4, by omega, ?_⟩
        intro b hb
        obtain ⟨_, h2, h3, _, _⟩ := hi.blk b hb
        omega
    · exfalso
      apply hg
      right
      have hx : (s.base + s.top + a - 1) % W = s.base + s.top + a - 1 - W := by
        have : s.base + s.top + a - 1 = (s.base + s.top + a - 1 - W) + W := by omega
        rw [this, Nat.add_mod_right, ← this]
        exact Nat.mod_eq_of_lt (by omega)
      have hr : roundUp (s.base + s.top) a ≤ s.base + s.top + a - 1 - W := by
        unfold roundUp; simp only; rw [hx]; exact Nat.sub_le _ _
      have hlt : roundUp (s.base + s.top) a + W - (s.base + s.top) < W := by omega
      rw [Nat.mod_eq_of_lt hlt]
      omega

/-! ## non-vacuity: an unaligned buffer, a refused huge request, a reclaimed block -/
example : (init 0x1003 64).top = 5 := by decide
example : (malloc (init 0x1003 64) (2 ^ 64 - 3)).2 = none := by decide
example : (calloc (init 0x1000 64) (2 ^ 63) 4).2 = none := by decide
example : (malloc (init 0x1003 64) 3).2 = some 5 := by decide
example : ValidHistory (init 0x1003 64) [.malloc 3, .realloc 1 20, .aalloc 16 16, .free 2, .malloc 0] := by
  simp only [ValidHistory, Req.Valid]
  refine ⟨by decide, ⟨by decide, ⟨⟨5, 3, 1⟩, by decide, rfl⟩⟩, ⟨by decide, by decide, by decide, by decide⟩, trivial, by decide, trivial⟩

end Zix.C09
