import ZixModel.Model.Path
import ZixModel.Spec.Cpp17Path
import ZixModel.Lemmas.PathDecomp
import ZixModel.Generated.CharClass
/-! # C10 — path decomposition and queries follow the C++17 filesystem::path model

Property theorems only; helper lemmas live in `ZixModel/Lemmas/PathDecomp.lean`.
Strings are NUL-free byte lists (`0 ∉ s`): C strings. -/
namespace Zix.C10
open Zix.Path Zix.Path.Dec

/-- Every returned view is a slice of the input: `begin ≤ end ≤ length`. -/
theorem views_are_slices (s : List Nat) (h0 : 0 ∉ s) :
    ∀ r ∈ [rootDirRange s, rootPathRange s, relativeRange s, parentRange s, filenameRange s, stemRange s, extensionRange s],
      r.1 ≤ r.2 ∧ r.2 ≤ s.length := by
  have _ := h0
  have hk := leadingSeps_le s
  have hroot : (rootDirRange s).1 ≤ (rootDirRange s).2 ∧ (rootDirRange s).2 ≤ s.length := by
    rw [rootDirRange_eq]; simp only; omega
  have hname : (filenameRange s).1 ≤ (filenameRange s).2 ∧ (filenameRange s).2 ≤ s.length := by
    rcases filenameRange_bounds s with h | ⟨g, hg, _, hlt⟩
    · rw [h]; simp
    · rw [hg]; simp only; omega
  intro r hr
  simp only [List.mem_cons, List.not_mem_nil, or_false] at hr
  rcases hr with rfl | rfl | rfl | rfl | rfl | rfl | rfl
  · exact hroot
  · exact hroot
  · rw [relativeRange_eq]; simp only; omega
  · exact parentRange_bounds s
  · exact hname
  · rcases stemRange_cases s with ⟨h, _⟩ | ⟨g, _, _, _, _, hst, h1, h2⟩
    · rw [h]; exact hname
    · rw [hst]; simp only; omega
  · rcases stemRange_cases s with ⟨h, _⟩ | ⟨g, _, _, _, _, hst, h1, h2⟩
    · have := extensionRange_of_stem_eq s h; omega
    · unfold extensionRange; rw [hst]
      have : Range.isEmpty (g, rewindToDot s g (s.length - 1)) = false := by
        simp [Range.isEmpty]; omega
      simp only [this]; simp; omega

/-- `has_X` is true exactly when X is non-empty (the harness's order: root_path, root_name,
root_directory, relative_path, parent_path, filename, stem, extension), and is_absolute. -/
theorem has_iff_nonempty (s : List Nat) (h0 : 0 ∉ s) :
    queries s = [ decide (slice s (rootPathRange s) ≠ []), false, decide (slice s (rootDirRange s) ≠ []),
                  decide (slice s (relativeRange s) ≠ []), decide (slice s (parentRange s) ≠ []),
                  decide (slice s (filenameRange s) ≠ []), decide (slice s (stemRange s) ≠ []),
                  decide (slice s (extensionRange s) ≠ []), decide (s.head? = some sep) ] := by
  have hv := views_are_slices s h0
  simp only [List.mem_cons, List.not_mem_nil, or_false, forall_eq_or_imp, forall_eq] at hv
  obtain ⟨h1, h2, _, h4, h5, h6, h7⟩ := hv
  unfold queries
  rw [not_isEmpty_eq s _ h1.1 h1.2, not_isEmpty_eq s _ h2.1 h2.2, not_isEmpty_eq s _ h4.1 h4.2,
    not_isEmpty_eq s _ h5.1 h5.2, not_isEmpty_eq s _ h6.1 h6.2, not_isEmpty_eq s _ h7.1 h7.2,
    hasRelative_eq s h0, isAbsolute_eq]

/-- filename is stem followed by extension, and the two views are adjacent inside the filename view. -/
theorem filename_eq_stem_append_extension (s : List Nat) (h0 : 0 ∉ s) :
    slice s (filenameRange s) = slice s (stemRange s) ++ slice s (extensionRange s) ∧
    (¬ (filenameRange s).isEmpty → (stemRange s).1 = (filenameRange s).1 ∧
      ((extensionRange s).isEmpty ∨ ((stemRange s).2 = (extensionRange s).1 ∧ (extensionRange s).2 = (filenameRange s).2))) := by
  have _ := h0
  rcases stemRange_cases s with ⟨h, _⟩ | ⟨g, hname, _, _, _, hst, h1, h2⟩
  · have he := extensionRange_of_stem_eq s h
    rw [h, slice_eq_nil_of_eq s _ he.1, List.append_nil]
    refine ⟨rfl, fun _ => ⟨rfl, Or.inl ?_⟩⟩
    rw [isEmpty_iff]; exact he.1
  · have he := extensionRange_of_stem s g _ hst h1
    rw [he, hst, hname]
    refine ⟨slice_append s g _ s.length (by omega) (by omega), fun _ => ⟨rfl, Or.inr ⟨rfl, rfl⟩⟩⟩

/-- Names and the relative path are textually what the C++17 rules give. -/
theorem decomp_text_eq_cpp17 (s : List Nat) (h0 : 0 ∉ s) :
    slice s (filenameRange s) = PathSpec.filename s ∧
    slice s (stemRange s) = PathSpec.stem s ∧
    slice s (extensionRange s) = PathSpec.extension s ∧
    slice s (relativeRange s) = PathSpec.relativeText s := by
  have _ := h0
  exact ⟨slice_filenameRange s, slice_stemRange s, slice_extensionRange s, slice_relativeRange s⟩

/-- Root directory, root path and parent path denote the same path as the C++17 rules give
(same root flag and same element sequence; zix takes the last separator of a repeated root). -/
theorem root_parent_same_path (s : List Nat) (h0 : 0 ∉ s) :
    slice s (rootDirRange s) = PathSpec.rootDirText s ∧
    slice s (rootPathRange s) = PathSpec.rootDirText s ∧
    PathSpec.parse (slice s (parentRange s)) = PathSpec.parent s := by
  have _ := h0
  exact ⟨slice_rootDirRange s, slice_rootDirRange s, parse_slice_parentRange s⟩

/-- is_absolute / is_relative on POSIX: exactly the paths with a root directory. -/
theorem is_absolute_iff (s : List Nat) : isAbsolute s = (PathSpec.parse s).root := by
  cases s <;> rfl

/-- `zix_path_preferred` is the identity on POSIX (the only separator is the preferred one). -/
theorem preferred_id_posix (s : List Nat) : preferred s = s := by
  unfold preferred
  induction s with
  | nil => rfl
  | cons c cs ih =>
    simp only [List.map_cons, ih]
    by_cases h : isSep c = true
    · simp only [h, if_true]; unfold isSep at h; simp at h; rw [h]
    · simp [h]

/-! ## non-vacuity: "//a/b.c.d" -/
example : slice [47, 47, 97, 47, 98, 46, 99, 46, 100] (extensionRange [47, 47, 97, 47, 98, 46, 99, 46, 100]) = [46, 100] := by decide
example : parentRange [47, 47, 97, 47, 98, 46, 99, 46, 100] = (1, 3) := by decide

/-- The separator class is the code's: `Generated/CharClass.lean` lists the bytes `is_dir_sep` of the
current src/path.c accepts (regenerated on every run by compiling it); the model's `isSep` is that
set, for every byte value. -/
theorem isSep_is_the_codes (c : Nat) (h : c < 256) : Zix.Path.isSep c = Zix.Generated.dirSeps.contains c := by
  have key : ∀ c ∈ List.range 256, Zix.Path.isSep c = Zix.Generated.dirSeps.contains c := by decide +kernel
  exact key c (List.mem_range.2 h)

end Zix.C10
