import ZixModel.Model.Path
import ZixModel.Spec.Cpp17Path
import ZixModel.Lemmas.PathNormal
/-! # C11 — lexically_normal returns the C++17 normal form and is idempotent

Property theorems only; helper lemmas live in `ZixModel/Lemmas/PathNormal.lean`.
Strings are NUL-free byte lists (`0 ∉ s`). -/
namespace Zix.C11
open Zix.Path

/-- Normal form of a path value: no '.' element unless the whole path is '.', no 'name/..' pair,
no '..' directly under the root directory, no separator (trailing empty element) after a trailing
'..', and only the last element may be empty. -/
def IsNormal (p : PathSpec.P) : Prop :=
  (p = ⟨false, [[dot]]⟩ ∨ [dot] ∉ p.names) ∧
  (∀ i, p.names[i + 1]? = some [dot, dot] → p.names[i]? = some [dot, dot]) ∧
  (p.root = true → p.names.head? ≠ some [dot, dot]) ∧
  (∀ i, p.names[i]? = some [] → i + 1 = p.names.length ∧ 0 < i ∧ p.names[i - 1]? ≠ some [dot, dot])

/-- The result text has no repeated separators: parsing and printing it gives it back. -/
def unparse (p : PathSpec.P) : List Nat :=
  (if p.root then [sep] else []) ++ (p.names.foldl (fun acc n => if acc.1 then (false, acc.2 ++ n) else (false, acc.2 ++ [sep] ++ n)) (true, [])).2

/-- `zix_path_lexically_normal` denotes the same path as the C++17 normal form of the input. -/
theorem normal_same_path_as_cpp17 (s : List Nat) (h0 : 0 ∉ s) :
    PathSpec.parse (normalize s) = PathSpec.normal s :=
  Norm.parse_normalize s h0

/-- The C++17 normal form is in normal form. -/
theorem cpp17_normal_is_normal (s : List Nat) (h0 : 0 ∉ s) (hs : s ≠ []) : IsNormal (PathSpec.normal s) :=
  Norm.normal_isNormal s h0 hs

/-- Hence the result of `zix_path_lexically_normal` is in normal form, and its text has no repeated
separators (it is exactly the printed form of its path value); a non-empty input gives a non-empty output. -/
theorem normal_form (s : List Nat) (h0 : 0 ∉ s) (hs : s ≠ []) :
    IsNormal (PathSpec.parse (normalize s)) ∧ normalize s = unparse (PathSpec.parse (normalize s)) ∧ normalize s ≠ [] := by
  refine ⟨?_, Norm.normalize_unparse s h0 hs⟩
  rw [normal_same_path_as_cpp17 s h0]
  exact cpp17_normal_is_normal s h0 hs

/-- Normalising is idempotent. -/
theorem normal_idempotent (s : List Nat) (h0 : 0 ∉ s) : normalize (normalize s) = normalize s :=
  Norm.normalize_idem s h0

/-- A path that is already normal (printed form of a normal path value) is returned unchanged. -/
theorem normal_fixes_normal_paths (p : PathSpec.P) (hn : IsNormal p) (hne : ∀ n ∈ p.names, 0 ∉ n ∧ sep ∉ n)
    (hnonempty : p.root = true ∨ p.names ≠ []) :
    normalize (unparse p) = unparse p :=
  Norm.fixes_normal p hn hne hnonempty

/-- The empty path is normal. -/
theorem normal_empty : normalize [] = [] := by
  rfl

/-! ## non-vacuity: "//a/./b/../c/" → "/a/c/" -/
example : normalize [47, 47, 97, 47, 46, 47, 98, 47, 46, 46, 47, 99, 47] = [47, 97, 47, 99, 47] := by decide

end Zix.C11
