import ZixModel.Model.Path
import ZixModel.Spec.Cpp17Path
import ZixModel.Lemmas.PathRelative
/-! # C12 — join, lexically_relative and preferred agree with C++17 path operations

Property theorems only; helper lemmas live in `ZixModel/Lemmas/PathRelative.lean`.
Strings are NUL-free byte lists (`0 ∉ s`). -/
namespace Zix.C12
open Zix.Path

/-- `zix_path_join(a, b)` is the text of C++17 `a / b`: b alone when it is absolute or a is empty,
otherwise a, exactly one separator iff a has a filename, then b. -/
theorem join_eq_cpp17_text (a b : List Nat) (ha : 0 ∉ a) (hb : 0 ∉ b) :
    join (some a) (some b) = PathSpec.join a b := by
  -- the NUL-freeness hypotheses are not needed for `join`
  have _ := ha
  have _ := hb
  exact Rel.join_spec a b

/-- NULL arguments behave as empty strings. -/
theorem join_null (a b : Option (List Nat)) : join a b = join (some (a.getD [])) (some (b.getD [])) := by
  cases a <;> cases b <;> rfl

/-- The component iterator yields exactly the C++17 iteration sequence (root directory as one
element whatever the number of separators, then the filenames, with a trailing empty element after
a final separator). -/
theorem iter_elements_eq_cpp17 (s : List Nat) (h0 : 0 ∉ s) :
    (allFrames s).map (fun f => if f.state = .rootDir then [sep] else slice s f.range) = (PathSpec.parse s).elems :=
  Rel.allFrames_map s h0

/-- `zix_path_lexically_relative` is NULL exactly when C++17 `lexically_relative` is the empty path … -/
theorem relative_null_iff_cpp17_empty (p b : List Nat) (hp : 0 ∉ p) (hb : 0 ∉ b) :
    (relative p b).isNone ↔ (PathSpec.relative p b).isNone := by
  rw [← Rel.rel_char p b hp hb]
  cases relative p b <;> simp

/-- … and otherwise names the same relative path (same element sequence). -/
theorem relative_same_path (p b r : List Nat) (hp : 0 ∉ p) (hb : 0 ∉ b) (hr : relative p b = some r) :
    some (PathSpec.parse r).elems = PathSpec.relative p b := by
  rw [← Rel.rel_char p b hp hb, hr]
  rfl

/-- `zix_path_preferred` is the identity on POSIX (the only separator is the preferred one). -/
theorem preferred_id_posix (s : List Nat) : preferred s = s := by
  unfold preferred
  induction s with
  | nil => rfl
  | cons c cs ih =>
    simp only [List.map_cons, ih]
    by_cases h : isSep c = true
    · simp only [h, if_true]; unfold isSep at h; simp at h; rw [h]
    · simp [h]

/-! ## non-vacuity -/
example : relative [47, 97, 47, 98] [47, 97, 47, 99, 47, 100] = some [46, 46, 47, 46, 46, 47, 98] := by decide
example : relative [97] [47, 97] = none := by decide

end Zix.C12
