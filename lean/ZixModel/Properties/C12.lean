import ZixModel.Model.Path
import ZixModel.Spec.Cpp17Path
namespace Zix.C12
open Zix.Path

/-- `zix_path_preferred` is the identity on POSIX (the only separator is the preferred one). -/
theorem preferred_id_posix (s : List Nat) : preferred s = s := by
  unfold preferred
  induction s with
  | nil => rfl
  | cons c cs ih =>
    simp only [List.map_cons, ih]
    by_cases h : isSep c = true
    · simp only [h, if_true]; unfold isSep at h; simp at h; rw [h]
    · simp [h]

end Zix.C12
