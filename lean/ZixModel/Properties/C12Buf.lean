import ZixModel.Model.PathBuf
/-! # C11 / C12, memory safety of the result buffers: the path builders never write outside the block
they request

`Model/PathBuf.lean` transcribes the size each builder requests; the value models of
`Model/Path.lean` say what is written.  Every builder writes its result front to back (and
`lexically_normal` may step back, never forward beyond what it has written), then a terminating
NUL: so "result length + 1 ≤ bytes requested" — for the final result and, for `lexically_normal`,
for every intermediate state — is exactly "all writes are in bounds".  Property theorems only. -/
namespace Zix.C12Buf
open Zix.Path Zix.PathBuf

/-- `zix_path_join` requests exactly the bytes of its result and the terminator — for all
arguments, NULL included. -/
theorem join_fits (a b : Option (List Nat)) : (join a b).length + 1 = joinAlloc a b := by
  sorry

theorem preferred_fits (s : List Nat) : (preferred s).length + 1 = preferredAlloc s := by
  sorry

/-- `zix_path_lexically_normal`: the finished result and its terminator fit the request. -/
theorem normal_fits (s : List Nat) : (normalize s).length + 1 ≤ normalAlloc s := by
  sorry

/-- … and so does the result at every moment while it is being built (one byte is always left for
the terminator or the dot that an empty result becomes). -/
theorem normal_trace_fits (s : List Nat) (hs : s ≠ []) : ∀ o ∈ normalTrace s, o.length + 1 ≤ normalAlloc s := by
  sorry

/-- `zix_path_lexically_relative` returns NULL without a request exactly when the value model says
NULL (with enough memory), and otherwise the result and its terminator fit the request. -/
theorem relative_alloc_none_iff (p b : List Nat) : relativeAlloc p b = none ↔ relative p b = none := by
  sorry

theorem relative_fits (p b r : List Nat) (h : relative p b = some r) :
    ∃ n, relativeAlloc p b = some n ∧ r.length + 1 ≤ n := by
  sorry

/-! ## non-vacuity -/
example : joinAlloc (some [97, 47]) (some [98]) = 4 ∧ join (some [97, 47]) (some [98]) = [97, 47, 98] := by decide
example : relativeAlloc [47, 97, 47, 100] [47, 97, 47, 98, 47, 99] = some 8 ∧
    relative [47, 97, 47, 100] [47, 97, 47, 98, 47, 99] = some [46, 46, 47, 46, 46, 47, 100] := by decide
example : normalTrace [97, 47, 46, 46, 47, 98] = [[], [97, 47], [], [98]] := by decide

end Zix.C12Buf
