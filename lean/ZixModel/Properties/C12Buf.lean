import ZixModel.Model.PathBuf
import ZixModel.Lemmas.PathBuf
/-! # C11 / C12, memory safety of the result buffers: the path builders never write outside the block
they request

`Model/PathBuf.lean` transcribes the size each builder requests; the value models of
`Model/Path.lean` say what is written.  Every builder writes its result front to back (and
`lexically_normal` may step back, never forward beyond what it has written), then a terminating
NUL: so "result length + 1 ≤ bytes requested" — for the final result and, for `lexically_normal`,
for every intermediate state — is exactly "all writes are in bounds".  Property theorems only. -/
namespace Zix.C12Buf
open Zix.Path Zix.PathBuf

/-- `zix_path_join` requests exactly the bytes of its result and the terminator — for all
arguments, NULL included. -/
theorem join_fits (a b : Option (List Nat)) : (join a b).length + 1 = joinAlloc a b :=
  Aux.join_fits a b

theorem preferred_fits (s : List Nat) : (preferred s).length + 1 = preferredAlloc s := by
  simp [preferred, preferredAlloc]

/-- `zix_path_lexically_normal`: the finished result and its terminator fit the request.  The
string must be NUL-free (the convention of `Model/Path.lean`: the scans of the model treat a byte 0
as the terminator, so a list with an interior 0 is not a C string; the statement without the
hypothesis is false for the model, see the counterexamples below). -/
-- ORIGINAL: theorem normal_fits (s : List Nat) : (normalize s).length + 1 ≤ normalAlloc s
theorem normal_fits (s : List Nat) (h0 : 0 ∉ s) : (normalize s).length + 1 ≤ normalAlloc s := by
  have := Aux.normalize_le s h0
  unfold normalAlloc; split <;> simp_all <;> omega

/-- Counterexample to the ORIGINAL (no NUL-freeness): on a list with an interior 0 the element scan
of the model stalls at the 0 and emits one empty element per unit of fuel. -/
example : normalize [97, 0] = [97, 47, 47, 47] ∧ normalAlloc [97, 0] = 4 ∧
    ¬ ((normalize [97, 0]).length + 1 ≤ normalAlloc [97, 0]) := by decide

/-- … and so does the result at every moment while it is being built (one byte is always left for
the terminator or the dot that an empty result becomes). -/
-- ORIGINAL: theorem normal_trace_fits (s : List Nat) (hs : s ≠ []) : ∀ o ∈ normalTrace s, o.length + 1 ≤ normalAlloc s
theorem normal_trace_fits (s : List Nat) (hs : s ≠ []) (h0 : 0 ∉ s) :
    ∀ o ∈ normalTrace s, o.length + 1 ≤ normalAlloc s := by
  intro o ho
  have := Aux.normal_trace_le s h0 o ho
  simp only [normalAlloc, hs, if_false]; omega

example : ∃ o ∈ normalTrace [97, 0], ¬ (o.length + 1 ≤ normalAlloc [97, 0]) := by decide

/-- `zix_path_lexically_relative` returns NULL without a request exactly when the value model says
NULL (with enough memory), and otherwise the result and its terminator fit the request. -/
theorem relative_alloc_none_iff (p b : List Nat) : relativeAlloc p b = none ↔ relative p b = none :=
  Aux.relative_alloc_none_iff p b

theorem relative_fits (p b r : List Nat) (h : relative p b = some r) :
    ∃ n, relativeAlloc p b = some n ∧ r.length + 1 ≤ n :=
  Aux.relative_fits p b r h

/-! ## non-vacuity -/
example : joinAlloc (some [97, 47]) (some [98]) = 4 ∧ join (some [97, 47]) (some [98]) = [97, 47, 98] := by decide
example : relativeAlloc [47, 97, 47, 100] [47, 97, 47, 98, 47, 99] = some 8 ∧
    relative [47, 97, 47, 100] [47, 97, 47, 98, 47, 99] = some [46, 46, 47, 46, 46, 47, 100] := by decide
example : normalTrace [97, 47, 46, 46, 47, 98] = [[], [97, 47], [], [98]] := by decide

end Zix.C12Buf
