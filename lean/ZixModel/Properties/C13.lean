import ZixModel.Model.Digest
/-! # C13 — digests -/
namespace Zix.C13
open Zix.Digest Zix.Generated

/-- `zix_digest` is the 64-bit function on this platform (the `#if` regenerated from the source). -/
theorem digest_native_word (seed : BitVec 64) (d : List Nat) : digestNative seed d = digest64 seed d := by
  unfold digestNative
  have : nativeIs64 = true := by decide
  simp [this]

/-- The aligned and the general variant use the same constants. -/
theorem aligned_constants_eq : d64MulAligned = d64Mul ∧ k32Aligned = k32 := by
  constructor
  · decide
  · unfold k32Aligned k32
    have h1 : d32C1Aligned = d32C1 := by decide
    have h2 : d32C2Aligned = d32C2 := by decide
    have h3 : d32Rot1Aligned = d32Rot1 := by decide
    have h4 : d32Rot2Aligned = d32Rot2 := by decide
    have h5 : d32MulAligned = d32Mul := by decide
    have h6 : d32AddAligned = d32Add := by decide
    rw [h1, h2, h3, h4, h5, h6]

end Zix.C13
