import ZixModel.Model.Digest
import ZixModel.Lemmas.Digest
/-! # C13 — digests are pure, alignment-independent, and sensitive to every input part

Property theorems only; helper lemmas live in `ZixModel/Lemmas/Digest.lean`.  Purity is by
construction (the model is a function of seed and bytes).  The constants (multipliers, shifts,
rotations and the multipliers' inverses) are regenerated from src/digest.c on every run, so the
proofs below must go through the generated names (`decide` on facts such as
`BitVec.ofNat 64 d64Mul * BitVec.ofNat 64 d64MulInv = 1`), never through hard-coded numerals. -/
namespace Zix.C13
open Zix.Digest Zix.Generated

/-- `zix_digest` is the 64-bit function on this platform (the `#if` regenerated from the source). -/
theorem digest_native_word (seed : BitVec 64) (d : List Nat) : digestNative seed d = digest64 seed d := by
  unfold digestNative
  have : nativeIs64 = true := by decide
  simp [this]

/-! ## aligned variants equal the general ones -/

theorem aligned_eq_general64 (seed : BitVec 64) (ws : List (BitVec 64)) (hlen : 8 * ws.length < 2 ^ 64) :
    digest64Aligned seed ws = digest64 seed (ws.flatMap bytesOfWord64) := by
  have _ := hlen  -- the bound is not needed: both sides reduce the length modulo 2^64
  rw [digest64Aligned_eq, digest64_eq, length_flatMap_bytes64, body64_words, d64MulAligned_eq]

theorem aligned_eq_general32 (seed : BitVec 32) (ws : List (BitVec 32)) :
    digest32Aligned seed ws = digest32 seed (ws.flatMap bytesOfWord32) := by
  unfold digest32Aligned digest32
  rw [length_flatMap_bytes32, body32_words, k32Aligned_eq]

/-! ## sensitivity: seed -/

theorem seed_injective64 (d : List Nat) (s1 s2 : BitVec 64) (h : digest64 s1 d = digest64 s2 d) : s1 = s2 := by
  rw [digest64_eq, digest64_eq] at h
  exact xor_right_cancel _ _ _ (body64_m64_inj _ _ _ (mix64_inj _ _ h))

theorem seed_injective32 (d : List Nat) (s1 s2 : BitVec 32) (h : digest32 s1 d = digest32 s2 d) : s1 = s2 := by
  unfold digest32 at h
  exact body32_inj _ _ _ (xor_right_cancel _ _ _ (mix32_inj _ _ h))

/-! ## sensitivity: one word-sized block, everything else fixed -/

theorem block_injective64 (seed : BitVec 64) (pre post : List Nat) (hpre : pre.length % 8 = 0)
    (w1 w2 : BitVec 64)
    (h : digest64 seed (pre ++ bytesOfWord64 w1 ++ post) = digest64 seed (pre ++ bytesOfWord64 w2 ++ post)) :
    w1 = w2 := by
  have hl : (pre ++ bytesOfWord64 w1 ++ post).length = (pre ++ bytesOfWord64 w2 ++ post).length := by
    simp only [List.length_append, length_bytesOfWord64]
  rw [digest64_eq, digest64_eq, hl, List.append_assoc, List.append_assoc, body64_append _ _ _ _ hpre,
    body64_append _ _ _ _ hpre, body64_word, body64_word] at h
  exact step64_inj_k m64 _ d64Mul_inv _ _ _ (body64_m64_inj _ _ _ (mix64_inj _ _ h))

theorem block_injective32 (seed : BitVec 32) (pre post : List Nat) (hpre : pre.length % 4 = 0)
    (w1 w2 : BitVec 32)
    (h : digest32 seed (pre ++ bytesOfWord32 w1 ++ post) = digest32 seed (pre ++ bytesOfWord32 w2 ++ post)) :
    w1 = w2 := by
  have hl : (pre ++ bytesOfWord32 w1 ++ post).length = (pre ++ bytesOfWord32 w2 ++ post).length := by
    simp only [List.length_append, length_bytesOfWord32]
  unfold digest32 at h
  rw [hl, List.append_assoc, List.append_assoc, body32_append _ _ _ _ hpre,
    body32_append _ _ _ _ hpre, body32_word, body32_word] at h
  exact step32_inj_k _ _ _ (body32_inj _ _ _ (xor_right_cancel _ _ _ (mix32_inj _ _ h)))

/-! ## sensitivity: length, by zero-extension that keeps the number of whole blocks -/

/-- MurmurHash3-32: zero-extending within the tail block always changes the digest. -/
theorem length_zero_extension32 (seed : BitVec 32) (d : List Nat) (k : Nat) (hk : 0 < k)
    (hb : (d.length + k) / 4 = d.length / 4) (hlen : d.length + k < 2 ^ 32) :
    digest32 seed (d ++ List.replicate k 0) ≠ digest32 seed d := by
  obtain ⟨pre, t, rfl, hp, ht⟩ := split_blocks 4 d
  have hp4 : pre.length % 4 = 0 := by rw [hp]; exact Nat.mul_mod_right _ _
  have ht4 : t.length + k < 4 := by omega
  intro e
  unfold digest32 at e
  rw [List.append_assoc, body32_append _ _ _ _ hp4, body32_append _ _ _ _ hp4,
    body32_short _ _ (t ++ List.replicate k 0) (by rw [List.length_append, List.length_replicate]; exact ht4),
    body32_short _ _ t (by omega), leWord32_append_zeros, ← List.append_assoc, List.length_append,
    List.length_replicate] at e
  exact ofNat_ne_of_lt 32 _ k hk hlen (xor_left_cancel _ _ _ (mix32_inj _ _ e))

/-- fasthash64, PARTIAL: zero-extending a non-empty tail block always changes the digest.
(The full statement — also when the old length is a multiple of 8 — is FALSE for the algorithm:
see `length_zero_extension64_counterexample`.) -/
theorem length_zero_extension64_partial (seed : BitVec 64) (d : List Nat) (k : Nat) (hk : 0 < k)
    (hr : d.length % 8 ≠ 0) (hb : (d.length + k) / 8 = d.length / 8) (hlen : d.length + k < 2 ^ 64) :
    digest64 seed (d ++ List.replicate k 0) ≠ digest64 seed d := by
  obtain ⟨pre, t, rfl, hp, ht⟩ := split_blocks 8 d
  have hp8 : pre.length % 8 = 0 := by rw [hp]; exact Nat.mul_mod_right _ _
  have ht8 : t.length + k < 8 := by omega
  have htne : t ≠ [] := by
    intro c
    have hc := congrArg List.length c
    rw [List.length_nil] at hc
    omega
  have htne' : t ++ List.replicate k 0 ≠ [] := by
    intro c; exact htne (List.append_eq_nil_iff.mp c).1
  intro e
  rw [digest64_eq, digest64_eq, List.append_assoc, body64_append _ _ _ _ hp8, body64_append _ _ _ _ hp8,
    body64_short _ _ (t ++ List.replicate k 0)
      (by rw [List.length_append, List.length_replicate]; exact ht8) htne',
    body64_short _ _ t (by omega) htne, leWord64_append_zeros, ← List.append_assoc,
    List.length_append (bs := List.replicate k 0), List.length_replicate] at e
  have e1 := body64_m64_inj _ _ _ (step64_inj_h m64 _ d64Mul_inv _ _ _ (mix64_inj _ _ e))
  exact ofNat_ne_of_lt 64 _ k hk hlen (mul_inj_of_inv _ _ d64Mul_inv _ _ (xor_left_cancel _ _ _ e1))

/-- fasthash64 from a block-aligned length of at most one block: adding 1..7 zero bytes changes the digest. -/
theorem length_zero_extension64_short (seed : BitVec 64) (d : List Nat) (k : Nat) (hk : 0 < k) (hk7 : k < 8)
    (hd : d.length = 0 ∨ d.length = 8) :
    digest64 seed (d ++ List.replicate k 0) ≠ digest64 seed d := by
  intro e
  have hzne : List.replicate k 0 ≠ [] := by
    intro c
    have := congrArg List.length c
    simp at this
    omega
  have hzl : (List.replicate k 0).length < 8 := by rw [List.length_replicate]; exact hk7
  rcases hd with hd | hd
  · have : d = [] := List.eq_nil_of_length_eq_zero hd
    subst this
    rw [digest64_eq, digest64_eq, List.nil_append, body64_short _ _ _ hzl hzne, leWord64_zeros,
      List.length_replicate, body64.eq_2] at e
    have e1 := mix64_inj _ _ e
    unfold step64 at e1
    rw [mix64_zero, BitVec.xor_zero] at e1
    simp only [List.length_nil, BitVec.zero_mul, BitVec.xor_zero] at e1
    exact short0_64 k hk hk7 seed e1
  · obtain ⟨b0, b1, b2, b3, b4, b5, b6, b7, r, rfl⟩ := exists_cons8 d (by omega)
    have : r = [] := List.eq_nil_of_length_eq_zero (by simp only [List.length_cons] at hd; omega)
    subst this
    rw [digest64_eq, digest64_eq, body64_append _ _ _ _ (by rw [hd]), body64_short _ _ _ hzl hzne,
      leWord64_zeros, body64.eq_1, body64.eq_2, body64.eq_1, body64.eq_2, List.length_append,
      List.length_replicate, hd] at e
    have e1 := mix64_inj _ _ e
    unfold step64 at e1
    rw [mix64_zero, BitVec.xor_zero] at e1
    have e2 := mul_inj_of_inv _ _ d64Mul_inv _ _ e1
    exact short1_64 k hk hk7 seed _ e2

/-- Kernel-checked witness that the unrestricted length clause fails for fasthash64 (recorded as a
known finding; replayed on the implementation by bin/check C13): 16 bytes and the same 16 bytes
followed by four zero bytes have the same digest under this seed. -/
theorem length_zero_extension64_counterexample :
    digest64 (BitVec.ofNat 64 18357787755532864394)
      [0x00, 0xbf, 0xa9, 0x66, 0xa0, 0x97, 0xa8, 0x92, 0x3a, 0xa8, 0x3d, 0xbb, 0x32, 0xef, 0x82, 0x7f] =
    digest64 (BitVec.ofNat 64 18357787755532864394)
      ([0x00, 0xbf, 0xa9, 0x66, 0xa0, 0x97, 0xa8, 0x92, 0x3a, 0xa8, 0x3d, 0xbb, 0x32, 0xef, 0x82, 0x7f] ++ [0, 0, 0, 0]) := by
  decide

/-- The aligned and the general variant use the same constants. -/
theorem aligned_constants_eq : d64MulAligned = d64Mul ∧ k32Aligned = k32 := by
  constructor
  · decide
  · unfold k32Aligned k32
    have h1 : d32C1Aligned = d32C1 := by decide
    have h2 : d32C2Aligned = d32C2 := by decide
    have h3 : d32Rot1Aligned = d32Rot1 := by decide
    have h4 : d32Rot2Aligned = d32Rot2 := by decide
    have h5 : d32MulAligned = d32Mul := by decide
    have h6 : d32AddAligned = d32Add := by decide
    rw [h1, h2, h3, h4, h5, h6]

end Zix.C13
