import ZixModel.Model.CopyFile
/-! # C14 — copy_file -/
namespace Zix.C14
open Zix.CopyFile

/-- A source that is not a regular file is refused with BAD_ARG (when it could be opened and examined). -/
theorem copy_refuses_nonregular_example :
    (copyFile ⟨.directory, [], .absent, 4096⟩ true (fun _ _ => none)).status = stBadArg := by decide

end Zix.C14
