import ZixModel.Model.CopyFile
import ZixModel.Lemmas.CopyFile
/-! # C14 — copy_file reports success only for a complete copy and never harms the source

Property theorems only; helper lemmas live in `ZixModel/Lemmas/CopyFile.lean`.
`fault : Call → Nat → Option Fault` is an ARBITRARY oracle: the n-th call of each kind may fail with
any errno or transfer any short count.  Two facts about the platform are hypotheses: a failing call
sets errno to a non-zero value (`Legal`), and (built into the model) a successful call leaves errno
unchanged. -/
namespace Zix.C14
open Zix.CopyFile Zix.Errno

/-- A failing system call reports a non-zero errno. -/
def Legal (fault : Call → Nat → Option Fault) : Prop := ∀ c n e, fault c n = some (.err e) → e ≠ 0

/-- SUCCESS is returned only if the destination then holds exactly the source's bytes — for every
source, destination state, option value and every sequence of I/O outcomes. -/
-- ORIGINAL:
-- theorem copy_success_complete (w : World) (ow : Bool) (fault : Call → Nat → Option Fault) (hl : Legal fault)
--     (hs : (copyFile w ow fault).status = 0) :
--     (copyFile w ow fault).st.dst = some w.src
-- The original is FALSE in the model for `w.blk = 0` (see `copy_success_complete_needs_blk` below): a
-- zero-sized buffer makes the first `read` return 0 bytes, which `copy_blocks` takes for end-of-file.
-- The C code cannot get there: `zix_get_block_size` returns 4096 unless both `st_blksize` are positive,
-- so `0 < w.blk` is a fact about the caller of the modelled part, added here as a hypothesis.
theorem copy_success_complete (w : World) (ow : Bool) (fault : Call → Nat → Option Fault) (hl : Legal fault)
    (hblk : 0 < w.blk)
    (hs : (copyFile w ow fault).status = 0) :
    (copyFile w ow fault).st.dst = some w.src :=
  copyFile_complete w ow fault hl hblk hs

/-- The counterexample to the original statement of `copy_success_complete` (block size 0, kernel copy
unavailable): SUCCESS with an empty destination. -/
theorem copy_success_complete_needs_blk :
    let w : World := { srcKind := .regular, src := [1, 2, 3], dst := .absent, blk := 0 }
    let fault : Call → Nat → Option Fault := fun c n => if c = .cfr ∧ n = 0 then some (.err EXDEV) else none
    Legal fault ∧ (copyFile w true fault).status = 0 ∧ (copyFile w true fault).st.dst = some [] := by
  refine ⟨?_, by decide, by decide⟩
  intro c n e h
  simp only at h
  split at h
  · simp only [Option.some.injEq, Fault.err.injEq] at h; subst h; decide
  · exact absurd h (by simp)

/-- The source's contents are never modified, whatever happens. -/
theorem copy_source_untouched (w : World) (ow : Bool) (fault : Call → Nat → Option Fault) :
    (copyFile w ow fault).st.src = w.src :=
  (copyFile_bal w ow fault).1

/-- No failing I/O call (short counts, an unavailable kernel copy — EXDEV / EINVAL / ENOSYS from
copy_file_range —, a refused block allocation and whatever the allocator's release leaves in errno
are not failures) and two different regular files
(or a fresh destination): SUCCESS. -/
theorem copy_no_faults_succeeds (w : World) (ow : Bool) (fault : Call → Nat → Option Fault)
    (hreg : w.srcKind = .regular) (hblk : 0 < w.blk)
    (hdst : w.dst = .absent ∨ (ow = true ∧ ∃ c, w.dst = .file c))
    (hok : ∀ c n e, fault c n = some (.err e) → (c = .alloc ∨ c = .free ∨ (c = .cfr ∧ (e = EXDEV ∨ e = EINVAL ∨ e = ENOSYS))))
    (hshort : ∀ c n k, fault c n = some (.short k) → 0 < k) :
    (copyFile w ow fault).status = 0 := by
  have _ := hblk  -- not needed: a zero-sized buffer only makes the copy incomplete, not unsuccessful
  exact copyFile_ok w ow fault hok hshort hreg hdst

/-- Without the overwrite option an existing destination is left untouched and EXISTS is returned
(when the source could be opened and examined). -/
theorem copy_excl_exists (w : World) (fault : Call → Nat → Option Fault) (c : List Nat)
    (hreg : w.srcKind = .regular) (hd : w.dst = .file c)
    (h1 : fault .openSrc 0 = none) (h2 : fault .fstatSrc 0 = none) (h3 : ∀ e, fault .openDst 0 ≠ some (.err e)) :
    (copyFile w false fault).status = 4 ∧ (copyFile w false fault).st.dst = some c :=
  ⟨copyFile_excl_status w fault c hd hreg h1 h2 h3, copyFile_excl w fault c hd⟩

/-- An existing destination is never modified when the call fails before any byte is copied with
the option off; more generally without the overwrite option an existing file is never changed. -/
theorem copy_excl_never_modifies (w : World) (fault : Call → Nat → Option Fault) (c : List Nat)
    (hd : w.dst = .file c) : (copyFile w false fault).st.dst = some c :=
  copyFile_excl w fault c hd

/-- A source that is not a regular file is refused with an error. -/
theorem copy_refuses_nonregular (w : World) (ow : Bool) (fault : Call → Nat → Option Fault) (hl : Legal fault)
    (hk : w.srcKind ≠ .regular) : (copyFile w ow fault).status ≠ 0 :=
  copyFile_nonregular w ow fault hl hk

/-- A destination that is the source itself (same path, hard link, symlink) is refused and the
source keeps its bytes. -/
theorem copy_onto_itself_refused (w : World) (ow : Bool) (fault : Call → Nat → Option Fault) (hl : Legal fault)
    (hd : w.dst = .sameAsSrc) :
    (copyFile w ow fault).status ≠ 0 ∧ (copyFile w ow fault).st.dst = some w.src :=
  copyFile_same w ow fault hl hd

/-- SUCCESS is never returned when closing either descriptor, or the final `fdatasync`, failed:
a failing close of the destination can mean lost data, and `zix_system_close_fds` must report it
(its tests were inverted before the repair). -/
theorem copy_close_failure_reported (w : World) (ow : Bool) (fault : Call → Nat → Option Fault) (hl : Legal fault)
    (hs : (copyFile w ow fault).status = 0) :
    (∀ e, fault .closeDst 0 ≠ some (.err e)) ∧ (∀ e, fault .closeSrc 0 ≠ some (.err e)) ∧
    (∀ e, fault .fdatasync 0 ≠ some (.err e)) :=
  copyFile_reported w ow fault hl hs

/-- A source that reports no size (`sizeKnown = false`: `st_size` is 0 whatever the content, as for
procfs text files) never meets the kernel copy: no `copy_file_range` call is made, the bytes go
through the read/write loop. (`copy_success_complete` and `copy_no_faults_succeeds` hold for such
sources too — they quantify over every `World`.) -/
theorem copy_unsized_skips_kernel_copy (w : World) (ow : Bool) (fault : Call → Nat → Option Fault)
    (hk : w.sizeKnown = false) : (copyFile w ow fault).st.count .cfr = 0 :=
  copyFile_cfr w ow fault hk

/-- Every descriptor opened is closed, on every path. -/
theorem copy_closes_all (w : World) (ow : Bool) (fault : Call → Nat → Option Fault) :
    (copyFile w ow fault).st.opened = (copyFile w ow fault).st.closed := by
  have h := (copyFile_bal w ow fault).2
  simpa [initSt] using h

/-! ## non-vacuity -/
-- cross-filesystem copy with a short read and a short write: complete
example : (copyFile { srcKind := .regular, src := [1, 2, 3, 4, 5], dst := .file [9, 9], blk := 4 } true
    (fun c n => if c = .cfr ∧ n = 0 then some (.err EXDEV) else if c = .write ∧ n = 0 then some (.short 1) else none)).status = 0 := by decide
example : (copyFile { srcKind := .directory, src := [], dst := .absent, blk := 4096 } true (fun _ _ => none)).status = stBadArg := by decide
-- a source that reports no size is copied completely through the read/write loop
example : let r := copyFile { srcKind := .regular, src := [1, 2, 3], dst := .absent, blk := 2, sizeKnown := false } false (fun _ _ => none)
    r.status = 0 ∧ r.st.dst = some [1, 2, 3] := by decide
-- a failing close of the destination is reported, and so is a failing close of the source
example : (copyFile { srcKind := .regular, src := [1], dst := .absent, blk := 2 } false
    (fun c _ => if c = .closeDst then some (.err EIO) else none)).status ≠ 0 := by decide
example : (copyFile { srcKind := .regular, src := [1], dst := .absent, blk := 2 } false
    (fun c _ => if c = .closeSrc then some (.err EIO) else none)).status ≠ 0 := by decide
-- errno left behind by the allocator's release does not turn a complete copy into an error
example : (copyFile { srcKind := .regular, src := [1], dst := .absent, blk := 2 } false
    (fun c _ => if c = .cfr then some (.err EXDEV) else if c = .free then some (.err 12) else none)).status = 0 := by decide

end Zix.C14
