import ZixModel.Model.Fs
/-! # C15 — filesystem creation and queries -/
namespace Zix.C15
open Zix.Fs Zix.Generated

/-- Each S_IF* kind maps to its ZixFileType (regenerated table, by kernel evaluation), anything else
to UNKNOWN, and a failing stat to NONE. -/
theorem file_type_table :
    (sIFKinds.map (fun k => statFileType k.2)) = [1, 2, 3, 4, 5, 6, 7] ∧
    fileTypeNames = [("NONE", 0), ("REGULAR", 1), ("DIRECTORY", 2), ("SYMLINK", 3), ("BLOCK", 4), ("CHARACTER", 5), ("FIFO", 6), ("SOCKET", 7), ("UNKNOWN", 8)] ∧
    sIFKinds.map (·.1) = ["S_IFREG", "S_IFDIR", "S_IFLNK", "S_IFBLK", "S_IFCHR", "S_IFIFO", "S_IFSOCK"] ∧
    fileType none = 0 := by decide

end Zix.C15
