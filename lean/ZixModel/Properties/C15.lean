import ZixModel.Model.Fs
import ZixModel.Lemmas.Fs
/-! # C15 — filesystem creation and queries report and produce the true state

Property theorems only; helper lemmas live in `ZixModel/Lemmas/Fs.lean`. -/
namespace Zix.C15
open Zix.Fs Zix.Generated Zix.Path

/-! ## file types (regenerated table) -/

/-- Each S_IF* kind maps to its ZixFileType (regenerated table, by kernel evaluation), and a
failing stat to NONE. -/
theorem file_type_table :
    (sIFKinds.map (fun k => statFileType k.2)) = [1, 2, 3, 4, 5, 6, 7] ∧
    fileTypeNames = [("NONE", 0), ("REGULAR", 1), ("DIRECTORY", 2), ("SYMLINK", 3), ("BLOCK", 4), ("CHARACTER", 5), ("FIFO", 6), ("SOCKET", 7), ("UNKNOWN", 8)] ∧
    sIFKinds.map (·.1) = ["S_IFREG", "S_IFDIR", "S_IFLNK", "S_IFBLK", "S_IFCHR", "S_IFIFO", "S_IFSOCK"] ∧
    fileType none = 0 := by decide

/-- Any other kind of file (a mode whose S_IFMT bits are none of the seven) is UNKNOWN, and the
permission bits never matter. -/
theorem file_type_other_unknown (mode : Nat) (h : (mode &&& sIFMT) ∉ sIFKinds.map (·.2)) :
    statFileType mode = 8 := by
  exact statFileType_of_not_mem mode h

theorem file_type_ignores_permissions (mode : Nat) : statFileType mode = statFileType (mode &&& sIFMT) := by
  exact statFileType_mask mode

/-! ## file_equals -/

/-- For two existing files that are not the same inode, `zix_file_equals` is true exactly when
their bytes are identical — for all contents, every positive page size, and whether or not the
pages could be allocated. -/
theorem file_equals_iff_bytes (a b : List Nat) (page : Nat) (hp : 0 < page) (allocOk : Bool) :
    fileEquals (some a) (some b) false page allocOk = decide (a = b) := by
  exact fileEquals_some a b page hp allocOk

/-- The same for files whose reported size says nothing: whenever each `st_size` is either the true
length or zero (procfs text files, FIFOs, devices), the result is still exactly "identical bytes" —
an empty file never equals a procfs file with content, and a procfs file equals its copy. -/
theorem file_equals_sized_iff_bytes (a b : List Nat) (sa sb page : Nat) (hp : 0 < page) (allocOk : Bool)
    (ha : sa = a.length ∨ sa = 0) (hb : sb = b.length ∨ sb = 0) :
    fileEqualsSized a b sa sb false page allocOk = decide (a = b) :=
  fileEqualsSized_eq a b sa sb page hp allocOk ha hb

/-- The hypothesis of `file_equals_sized_iff_bytes` cannot be dropped: a file that reports a
non-zero size that is not its length (a sysfs attribute: `st_size` 4096, a few bytes of content)
compares unequal to an exact copy of itself — the reported sizes differ and neither is zero, so the
bytes are never looked at.  Recorded as a known finding (GNU `cmp -s` and `diff -q` behave the same
way); the check replays it on the real /sys file. -/
theorem file_equals_overreported_size_counterexample :
    fileEqualsSized [48, 10] [48, 10] 4096 2 false 4096 true = false := by decide

theorem file_equals_symm (a b : Option (List Nat)) (same : Bool) (page : Nat) (hp : 0 < page) (allocOk : Bool) :
    fileEquals a b same page allocOk = fileEquals b a same page allocOk := by
  cases a with
  | none => cases b <;> rfl
  | some ca =>
    cases b with
    | none => rfl
    | some cb =>
      cases same with
      | true => rfl
      | false =>
        rw [fileEquals_some ca cb page hp, fileEquals_some cb ca page hp]
        exact decide_eq_decide.2 eq_comm

/-- It is false when one of two different paths does not exist. -/
theorem file_equals_missing_false (a : Option (List Nat)) (same : Bool) (page : Nat) (allocOk : Bool) :
    fileEquals a none same page allocOk = false ∧ fileEquals none a same page allocOk = false := by
  constructor
  · cases a <;> rfl
  · cases a <;> rfl

/-! ## create_directories over the abstract tree -/

/-- A tree in which every node's parent is a directory, nothing is listed twice, names are real
names (non-empty, no separator, not "." or ".."), and the working directory is a directory. -/
structure TreeOK (t : Tree) : Prop where
  parents : ∀ p k, (p, k) ∈ t.nodes → p ≠ [] ∧ t.kindOf p.dropLast = some .dir
  names   : ∀ p k, (p, k) ∈ t.nodes → ∀ c ∈ p, c ≠ [] ∧ sep ∉ c ∧ 0 ∉ c ∧ c ≠ [dot] ∧ c ≠ [dot, dot]
  nodup   : (t.nodes.map (·.1)).Nodup
  cwdDir  : t.kindOf t.cwd = some .dir
  cwdNames : ∀ c ∈ t.cwd, c ≠ [] ∧ sep ∉ c ∧ 0 ∉ c ∧ c ≠ [dot] ∧ c ≠ [dot, dot]

/-- `zix_create_directories` only ever adds directories: everything that existed still exists with
its kind, and everything new is a directory; the tree stays well formed. -/
theorem mkdirs_only_adds_dirs (t : Tree) (ht : TreeOK t) (s : List Nat) (h0 : 0 ∉ s) :
    TreeOK (createDirectories t s).1 ∧
    (∀ p k, (p, k) ∈ t.nodes → (p, k) ∈ (createDirectories t s).1.nodes) ∧
    (∀ p k, (p, k) ∈ (createDirectories t s).1.nodes → (p, k) ∈ t.nodes ∨ k = .dir) := by
  by_cases hs : s = []
  · subst hs
    have he : createDirectories t [] = (t, 5) := by simp [createDirectories]
    rw [he]
    exact ⟨ht, fun _ _ h => h, fun _ _ h => Or.inl h⟩
  · obtain ⟨h1, h2, h3, _⟩ := createDirectories_spec t ⟨ht.parents, ht.names, ht.nodup, ht.cwdDir, ht.cwdNames⟩ s h0 hs
    exact ⟨⟨h1.parents, h1.names, h1.nodup, h1.cwdDir, h1.cwdNames⟩, h2, h3⟩

/-- SUCCESS exactly when the path names a directory afterwards, for every path shape (relative or
absolute, repeated or trailing separators, dot segments, partly existing). -/
theorem mkdirs_success_iff_dir (t : Tree) (ht : TreeOK t) (s : List Nat) (h0 : 0 ∉ s) (hs : s ≠ []) :
    (createDirectories t s).2 = 0 ↔ statKind (createDirectories t s).1 s = some .dir := by
  exact (createDirectories_spec t ⟨ht.parents, ht.names, ht.nodup, ht.cwdDir, ht.cwdNames⟩ s h0 hs).2.2.2

/-- Idempotent: after a success a second call succeeds and changes nothing. -/
theorem mkdirs_idempotent (t : Tree) (ht : TreeOK t) (s : List Nat) (h0 : 0 ∉ s)
    (h : (createDirectories t s).2 = 0) :
    createDirectories (createDirectories t s).1 s = ((createDirectories t s).1, 0) := by
  exact createDirectories_idem t ⟨ht.parents, ht.names, ht.nodup, ht.cwdDir, ht.cwdNames⟩ s h0 h

/-- The empty path is a bad argument and nothing is created. -/
theorem mkdirs_empty (t : Tree) : createDirectories t [] = (t, 5) := by
  simp [createDirectories]

/-! ## non-vacuity -/
example : (createDirectories ⟨[([[83]], .dir), ([[83], [119]], .dir)], [[83], [119]]⟩ [97, 47, 46, 46, 47, 98, 47]).2 = 0 := by decide

-- an empty file against a file that reports size 0 but holds bytes; such a file against its copy
example : fileEqualsSized [] [1, 2, 3] 0 0 false 4096 true = false := by decide
example : fileEqualsSized [1, 2, 3] [1, 2, 3] 0 3 false 2 false = true := by decide

end Zix.C15
