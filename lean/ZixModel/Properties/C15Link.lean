import ZixModel.Model.FsLink
import ZixModel.Properties.C15
import ZixModel.Lemmas.C15LinkAux
/-! # C15, create_directories: for every operating system obeying three laws, and for trees with
symbolic links

`Properties/C15.lean` proves the create_directories clauses over a symlink-free tree.  Here the same
clauses are proved for `createDirectoriesG`, the walk of src/filesystem.c written against abstract
`stat`/`mkdir` calls, for EVERY state type and EVERY pair of calls satisfying `OsLaws` — whatever
path resolution does (symbolic links, mount points, case folding, …).  Then the executable tree with
symbolic links of `Model/FsLink.lean` (the one the correspondence check runs against real
directories with symbolic links) is shown to be such an operating system. -/
namespace Zix.C15Link
open Zix.Path Zix.FsLink Zix.C15LinkAux

/-- What the proof needs to know about the operating system, for states satisfying `inv`. -/
structure OsLaws {σ : Type} (inv : σ → Prop) (isDir : σ → List Nat → Bool)
    (mkdir : σ → List Nat → σ × Option Int) : Prop where
  /-- mkdir keeps the state well formed -/
  mkdir_inv : ∀ t p, inv t → inv (mkdir t p).1
  /-- a successful mkdir makes the path a directory -/
  mkdir_ok_dir : ∀ t p t', inv t → mkdir t p = (t', none) → isDir t' p = true
  /-- a failed mkdir changes nothing and its errno maps to an error status -/
  mkdir_fail : ∀ t p t' e, inv t → mkdir t p = (t', some e) → t' = t ∧ Zix.Errno.errnoStatus e ≠ 0
  /-- creating a directory never makes another directory path stop naming a directory -/
  mkdir_mono : ∀ t p t' q, inv t → mkdir t p = (t', none) → isDir t q = true → isDir t' q = true
  /-- if a path names a directory then so does every non-empty prefix cut next to a separator -/
  prefix_closed : ∀ t s k, inv t → isDir t s = true → 0 < k → k ≤ s.length →
    (k = s.length ∨ isSep (s.getD k 0) = true ∨ isSep (s.getD (k - 1) 0) = true) → isDir t (s.take k) = true
  /-- a non-empty string of separators names the root directory -/
  root_dir : ∀ t s, inv t → s ≠ [] → (∀ c ∈ s, isSep c = true) → isDir t s = true

variable {σ : Type} {inv : σ → Prop} {isDir : σ → List Nat → Bool} {mkdir : σ → List Nat → σ × Option Int}

/-! ## the walk over any list of frames -/

/-- Whatever frames are visited: the state stays well formed and directories stay directories. -/
theorem go_stay (L : OsLaws inv isDir mkdir) (s : List Nat) (fr : List PathIter) : ∀ t, inv t →
    inv (createDirectoriesG.go isDir mkdir s fr t).1 ∧
    ∀ q, isDir t q = true → isDir (createDirectoriesG.go isDir mkdir s fr t).1 q = true := by
  induction fr with
  | nil => intro t ht; rw [go_nil]; exact ⟨ht, fun _ h => h⟩
  | cons f rest ih =>
    intro t ht
    cases hd : isDir t (s.take f.range.2) with
    | true => rw [go_cons_dir isDir mkdir s f rest t hd]; exact ih t ht
    | false =>
      cases hm : mkdir t (s.take f.range.2) with
      | mk t' r =>
        cases r with
        | none =>
          rw [go_cons_ok isDir mkdir s f rest t t' hd hm]
          have hi : inv t' := by have := L.mkdir_inv t (s.take f.range.2) ht; rw [hm] at this; exact this
          obtain ⟨j1, j2⟩ := ih t' hi
          exact ⟨j1, fun q hq => j2 q (L.mkdir_mono t _ t' q ht hm hq)⟩
        | some e =>
          rw [go_cons_err isDir mkdir s f rest t t' e hd hm]
          obtain ⟨h1, _⟩ := L.mkdir_fail t _ t' e ht hm
          subst h1
          exact ⟨ht, fun _ h => h⟩

/-- When every visited frame ends at a cut position: on success every visited prefix names a
directory; on failure the whole path does not; and nothing happens if the path is a directory. -/
theorem go_main (L : OsLaws inv isDir mkdir) (s : List Nat) (fr : List PathIter)
    (hcut : ∀ f ∈ fr, Cut s f.range.2) : ∀ t, inv t →
    ((createDirectoriesG.go isDir mkdir s fr t).2 = 0 →
      ∀ f ∈ fr, isDir (createDirectoriesG.go isDir mkdir s fr t).1 (s.take f.range.2) = true) ∧
    ((createDirectoriesG.go isDir mkdir s fr t).2 ≠ 0 →
      isDir (createDirectoriesG.go isDir mkdir s fr t).1 s = false) ∧
    (isDir t s = true → createDirectoriesG.go isDir mkdir s fr t = (t, 0)) := by
  induction fr with
  | nil =>
    intro t _
    rw [go_nil]
    exact ⟨fun _ f hf => by simp at hf, fun h => absurd rfl h, fun _ => rfl⟩
  | cons f rest ih =>
    intro t ht
    have hcr : ∀ g ∈ rest, Cut s g.range.2 := fun g hg => hcut g (by simp [hg])
    obtain ⟨c1, c2, c3⟩ := hcut f (by simp)
    have hpre : isDir t s = true → isDir t (s.take f.range.2) = true := fun h =>
      L.prefix_closed t s f.range.2 ht h c1 c2 (c3.elim Or.inl (fun h => Or.inr (Or.inl h)))
    cases hd : isDir t (s.take f.range.2) with
    | true =>
      rw [go_cons_dir isDir mkdir s f rest t hd]
      obtain ⟨j1, j2, j3⟩ := ih hcr t ht
      refine ⟨?_, j2, j3⟩
      intro h g hg
      rcases List.mem_cons.1 hg with hg | hg
      · subst hg; exact (go_stay L s rest t ht).2 _ hd
      · exact j1 h g hg
    | false =>
      cases hm : mkdir t (s.take f.range.2) with
      | mk t' r =>
        cases r with
        | none =>
          rw [go_cons_ok isDir mkdir s f rest t t' hd hm]
          have hi : inv t' := by have := L.mkdir_inv t (s.take f.range.2) ht; rw [hm] at this; exact this
          obtain ⟨j1, j2, _⟩ := ih hcr t' hi
          refine ⟨?_, j2, ?_⟩
          · intro h g hg
            rcases List.mem_cons.1 hg with hg | hg
            · subst hg; exact (go_stay L s rest t' hi).2 _ (L.mkdir_ok_dir t _ t' ht hm)
            · exact j1 h g hg
          · intro h; rw [hpre h] at hd; exact absurd hd (by simp)
        | some e =>
          rw [go_cons_err isDir mkdir s f rest t t' e hd hm]
          obtain ⟨h1, h2⟩ := L.mkdir_fail t _ t' e ht hm
          subst h1
          refine ⟨fun h => absurd h h2, ?_, ?_⟩
          · intro _
            cases hsd : isDir t' s with
            | false => rfl
            | true => rw [hpre hsd] at hd; exact absurd hd (by simp)
          · intro h; rw [hpre h] at hd; exact absurd hd (by simp)

theorem createDirectoriesG_ne (isDir : σ → List Nat → Bool) (mkdir : σ → List Nat → σ × Option Int)
    (t : σ) (s : List Nat) (hs : s ≠ []) :
    createDirectoriesG isDir mkdir t s =
      createDirectoriesG.go isDir mkdir s ((allFrames s).filter (fun f => f.state = .fileName)) t := by
  unfold createDirectoriesG
  rw [if_neg hs]

theorem createDirectoriesG_nil (isDir : σ → List Nat → Bool) (mkdir : σ → List Nat → σ × Option Int)
    (t : σ) : createDirectoriesG isDir mkdir t [] = (t, 5) := by
  simp [createDirectoriesG]

/-- SUCCESS exactly when the path names a directory afterwards, for every path shape. -/
theorem mkdirsG_success_iff_dir (L : OsLaws inv isDir mkdir) (t : σ) (ht : inv t) (s : List Nat)
    (h0 : 0 ∉ s) (hs : s ≠ []) :
    (createDirectoriesG isDir mkdir t s).2 = 0 ↔ isDir (createDirectoriesG isDir mkdir t s).1 s = true := by
  rw [createDirectoriesG_ne isDir mkdir t s hs]
  obtain ⟨f1, f2, f3⟩ := fileFrames_facts s h0 hs
  obtain ⟨g1, g2, _⟩ := go_main L s _ f1 t ht
  constructor
  · intro h
    by_cases hfr : (allFrames s).filter (fun f => f.state = .fileName) = []
    · rw [hfr, go_nil]
      exact L.root_dir t s ht hs (f2 hfr)
    · have hlast := List.getLast?_eq_some_getLast hfr
      have hmem := List.getLast_mem hfr
      have := g1 h _ hmem
      rw [f3 _ hlast, List.take_length] at this
      exact this
  · intro h
    apply Classical.byContradiction
    intro hn
    rw [g2 hn] at h
    exact absurd h (by simp)

/-- Idempotent: after a success a second call succeeds and changes nothing. -/
theorem mkdirsG_idempotent (L : OsLaws inv isDir mkdir) (t : σ) (ht : inv t) (s : List Nat) (h0 : 0 ∉ s)
    (h : (createDirectoriesG isDir mkdir t s).2 = 0) :
    createDirectoriesG isDir mkdir (createDirectoriesG isDir mkdir t s).1 s =
      ((createDirectoriesG isDir mkdir t s).1, 0) := by
  have hs : s ≠ [] := by
    intro hs; subst hs
    rw [createDirectoriesG_nil] at h
    simp at h
  have hd := (mkdirsG_success_iff_dir L t ht s h0 hs).1 h
  have hi : inv (createDirectoriesG isDir mkdir t s).1 := by
    rw [createDirectoriesG_ne isDir mkdir t s hs]
    exact (go_stay L s _ t ht).1
  generalize (createDirectoriesG isDir mkdir t s).1 = t1 at hd hi
  rw [createDirectoriesG_ne isDir mkdir t1 s hs]
  exact (go_main L s _ (fileFrames_facts s h0 hs).1 t1 hi).2.2 hd

/-- Whatever the outcome, the state stays well formed and every path that named a directory still does. -/
theorem mkdirsG_dirs_stay (L : OsLaws inv isDir mkdir) (t : σ) (ht : inv t) (s : List Nat) :
    inv (createDirectoriesG isDir mkdir t s).1 ∧
    ∀ q, isDir t q = true → isDir (createDirectoriesG isDir mkdir t s).1 q = true := by
  by_cases hs : s = []
  · subst hs
    rw [createDirectoriesG_nil]
    exact ⟨ht, fun _ h => h⟩
  · rw [createDirectoriesG_ne isDir mkdir t s hs]
    exact go_stay L s _ t ht

/-- If the path already names a directory nothing is touched.

The hypothesis `hs : s ≠ []` was added: `OsLaws` does not forbid `isDir t [] = true`, and for the
empty path the result is `(t, 5)`, not `(t, 0)` (see `mkdirsG_existing_original_false` below). -/
-- ORIGINAL: theorem mkdirsG_existing (L : OsLaws inv isDir mkdir) (t : σ) (ht : inv t) (s : List Nat) (h0 : 0 ∉ s)
-- ORIGINAL:     (hd : isDir t s = true) : createDirectoriesG isDir mkdir t s = (t, 0)
theorem mkdirsG_existing (L : OsLaws inv isDir mkdir) (t : σ) (ht : inv t) (s : List Nat) (h0 : 0 ∉ s)
    (hs : s ≠ []) (hd : isDir t s = true) : createDirectoriesG isDir mkdir t s = (t, 0) := by
  rw [createDirectoriesG_ne isDir mkdir t s hs]
  exact (go_main L s _ (fileFrames_facts s h0 hs).1 t ht).2.2 hd

/-- An operating system obeying `OsLaws` in which the empty string names a directory: every path is
a directory and every mkdir fails with EEXIST. -/
theorem allDirs_laws : OsLaws (σ := Unit) (fun _ => True) (fun _ _ => true) (fun t _ => (t, some 17)) where
  mkdir_inv := fun _ _ _ => trivial
  mkdir_ok_dir := fun _ _ _ _ _ => rfl
  mkdir_fail := fun t p t' e _ h => by
    simp only [Prod.mk.injEq, Option.some.injEq] at h
    obtain ⟨_, h2⟩ := h
    subst h2
    exact ⟨rfl, by decide⟩
  mkdir_mono := fun _ _ _ _ _ _ _ => rfl
  prefix_closed := fun _ _ _ _ _ _ _ _ => rfl
  root_dir := fun _ _ _ _ _ => rfl

/-- The original statement of `mkdirsG_existing` (without `s ≠ []`) fails for the empty path. -/
theorem mkdirsG_existing_original_false :
    ¬ (∀ {σ : Type} {inv : σ → Prop} {isDir : σ → List Nat → Bool} {mkdir : σ → List Nat → σ × Option Int},
        OsLaws inv isDir mkdir → ∀ (t : σ), inv t → ∀ (s : List Nat), 0 ∉ s → isDir t s = true →
        createDirectoriesG isDir mkdir t s = (t, 0)) := by
  intro h
  have := h allDirs_laws () trivial [] (by simp) rfl
  rw [createDirectoriesG_nil] at this
  simp at this

/-- The empty path is a bad argument and nothing is created. -/
theorem mkdirsG_empty (t : σ) : createDirectoriesG isDir mkdir t [] = (t, 5) := by
  simp [createDirectoriesG]

/-! ## the symlink-free tree of `Model/Fs.lean` is an instance (so `Properties/C15.lean` is a special case) -/

theorem fs_go_eq (s : List Nat) (fr : List PathIter) : ∀ t : Zix.Fs.Tree,
    Zix.Fs.createDirectories.go s fr t =
      createDirectoriesG.go (fun t p => decide (Zix.Fs.statKind t p = some .dir)) Zix.Fs.mkdir s fr t := by
  induction fr with
  | nil => intro t; rw [Zix.Fs.createDirectories.go, createDirectoriesG.go]
  | cons f rest ih =>
    intro t
    rw [Zix.Fs.createDirectories.go]
    by_cases hk : Zix.Fs.statKind t (s.take f.range.2) = some .dir
    · rw [go_cons_dir _ _ s f rest t (by simp [hk])]
      simp only [hk, if_true]
      exact ih t
    · simp only [hk, if_false]
      cases hm : Zix.Fs.mkdir t (s.take f.range.2) with
      | mk t' r =>
        cases r with
        | none => rw [go_cons_ok _ _ s f rest t t' (by simp [hk]) hm]; exact ih t'
        | some e => rw [go_cons_err _ _ s f rest t t' e (by simp [hk]) hm]

theorem fs_createDirectories_eq (t : Zix.Fs.Tree) (s : List Nat) :
    Zix.Fs.createDirectories t s =
      createDirectoriesG (fun t p => decide (Zix.Fs.statKind t p = some .dir)) Zix.Fs.mkdir t s := by
  unfold Zix.Fs.createDirectories createDirectoriesG
  by_cases hs : s = []
  · rw [if_pos hs, if_pos hs]
  · rw [if_neg hs, if_neg hs]
    exact fs_go_eq s _ t

/-! ## non-vacuity: a tree with a symbolic link `k -> a` in the working directory `/S/w` -/
def demo : Tree :=
  ⟨[([[83]], .dir), ([[83], [119]], .dir), ([[83], [119], [97]], .dir), ([[83], [119], [107]], .link [97])], [[83], [119]]⟩

-- "k/b": created through the link, physically at /S/w/a/b
example : (FsLink.createDirectories demo [107, 47, 98]).2 = 0 := by decide
example : (FsLink.createDirectories demo [107, 47, 98]).1.lookup [[83], [119], [97], [98]] = some .dir := by decide
-- "k" itself is a directory (through the link): nothing to do
example : FsLink.createDirectories demo [107] = (demo, 0) := by decide

end Zix.C15Link

