import ZixModel.Properties.C15Link
import ZixModel.Lemmas.C15LinkInstAux
/-! # The tree with symbolic links is an operating system in the sense of `OsLaws`

So every theorem of `Properties/C15Link.lean` holds for `FsLink.createDirectories` on every well
formed tree with symbolic links (relative or absolute targets, dangling links, loops). -/
namespace Zix.C15Link
open Zix.Path Zix.FsLink

/-- A tree in which every node's physical parent is a directory, nothing is listed twice, names are
real names (non-empty, no separator, no NUL, not "." or ".."), link targets contain no NUL, and the
working directory is a directory. -/
structure TreeOK (t : Tree) : Prop where
  parents : ∀ p k, (p, k) ∈ t.nodes → p ≠ [] ∧ t.lookup p.dropLast = some .dir
  names   : ∀ p k, (p, k) ∈ t.nodes → ∀ c ∈ p, c ≠ [] ∧ sep ∉ c ∧ 0 ∉ c ∧ c ≠ [dot] ∧ c ≠ [dot, dot]
  targets : ∀ p tgt, (p, Kind.link tgt) ∈ t.nodes → 0 ∉ tgt
  nodup   : (t.nodes.map (·.1)).Nodup
  cwdDir  : t.lookup t.cwd = some .dir
  cwdNames : ∀ c ∈ t.cwd, c ≠ [] ∧ sep ∉ c ∧ 0 ∉ c ∧ c ≠ [dot] ∧ c ≠ [dot, dot]

/-- Adding a directory with a real name under an existing directory keeps the tree well formed. -/
theorem addDir_ok (t : Tree) (ht : TreeOK t) (d : List (List Nat)) (n : List Nat)
    (hd : t.lookup d = some .dir)
    (hn : n ≠ [] ∧ sep ∉ n ∧ 0 ∉ n ∧ n ≠ [dot] ∧ n ≠ [dot, dot])
    (hnew : t.lookup (d ++ [n]) = none) : TreeOK (addDir t (d ++ [n])) := by
  have hdn : ∀ c ∈ d, c ≠ [] ∧ sep ∉ c ∧ 0 ∉ c ∧ c ≠ [dot] ∧ c ≠ [dot, dot] := by
    rcases lookup_some_mem t d _ hd with ⟨h, _⟩ | h
    · subst h; intro c hc; cases hc
    · exact ht.names d _ h
  constructor
  · intro p k hp
    simp only [addDir, List.mem_append, List.mem_singleton, Prod.mk.injEq] at hp
    rcases hp with hp | ⟨hp, _⟩
    · obtain ⟨h1, h2⟩ := ht.parents p k hp
      exact ⟨h1, addDir_le t _ _ _ h2⟩
    · subst hp
      refine ⟨by simp, ?_⟩
      rw [List.dropLast_concat]
      exact addDir_le t _ _ _ hd
  · intro p k hp
    simp only [addDir, List.mem_append, List.mem_singleton, Prod.mk.injEq] at hp
    rcases hp with hp | ⟨hp, _⟩
    · exact ht.names p k hp
    · subst hp
      intro c hc
      rcases List.mem_append.1 hc with hc | hc
      · exact hdn c hc
      · rw [List.mem_singleton] at hc; subst hc; exact hn
  · intro p tgt hp
    simp only [addDir, List.mem_append, List.mem_singleton, Prod.mk.injEq] at hp
    rcases hp with hp | ⟨_, hp⟩
    · exact ht.targets p tgt hp
    · cases hp
  · simp only [addDir, List.map_append, List.map_cons, List.map_nil]
    rw [List.nodup_append]
    refine ⟨ht.nodup, by simp, ?_⟩
    intro a ha b hb
    rw [List.mem_singleton] at hb; subst hb
    intro hab; subst hab
    exact lookup_none_not_mem t _ hnew ha
  · exact addDir_le t _ _ _ ht.cwdDir
  · exact ht.cwdNames

/-- The laws hold for the tree with symbolic links, for path strings without NUL.  (`OsLaws`
quantifies over all strings; the NUL-free restriction is carried by using `isDirZ`/`mkdirZ`, which
treat a string containing NUL as the C functions do: they see it only up to the NUL.) -/
def cstr (s : List Nat) : List Nat := s.takeWhile (· ≠ 0)

theorem cstr_nul_free (s : List Nat) : 0 ∉ cstr s := by
  intro h
  have := Zix.Path.Rel.mem_takeWhile (p := fun x => decide (x ≠ 0)) h
  simp at this

theorem cstr_eq_self (s : List Nat) (h0 : 0 ∉ s) : cstr s = s := by
  unfold cstr
  induction s with
  | nil => rfl
  | cons a r ih =>
    have ha : a ≠ 0 := fun h => h0 (by simp [h])
    rw [List.takeWhile_cons, if_pos (by simpa using ha), ih (fun h => h0 (by simp [h]))]

theorem cstr_take (s : List Nat) : ∀ k, cstr (s.take k) = (cstr s).take k := by
  unfold cstr
  induction s with
  | nil => intro k; simp
  | cons a r ih =>
    intro k
    cases k with
    | zero => simp
    | succ k =>
      rw [List.take_succ_cons, List.takeWhile_cons, List.takeWhile_cons]
      split
      · rw [List.take_succ_cons, ih]
      · rfl

theorem cstr_getD (s : List Nat) : ∀ i, i < (cstr s).length → (cstr s).getD i 0 = s.getD i 0 := by
  unfold cstr
  induction s with
  | nil => intro i h; simp at h
  | cons a r ih =>
    intro i h
    rw [List.takeWhile_cons] at h ⊢
    split at h
    · rename_i ha
      rw [if_pos ha]
      cases i with
      | zero => rfl
      | succ i =>
        simp only [List.length_cons, Nat.add_lt_add_iff_right] at h
        simpa [List.getD_cons_succ] using ih i h
    · simp at h

theorem linkTree_laws :
    OsLaws TreeOK (fun t s => FsLink.isDir t (cstr s)) (fun t s => FsLink.mkdir t (cstr s)) := by
  constructor
  · -- mkdir_inv
    intro t p ht
    cases hm : FsLink.mkdir t (cstr p) with
    | mk t' r =>
      cases r with
      | some e => rw [(mkdir_err t t' _ e hm).1]; exact ht
      | none =>
        obtain ⟨par, last, hlast, _, hpk, hl1, hl2, hnone, ht'⟩ := mkdir_ok t t' _ hm
        have hmem : last ∈ comps (cstr p) := by
          rw [← dropLast_append_of_getLast? _ last hlast]; simp
        obtain ⟨hne, hx⟩ := comps_mem _ _ hmem
        show TreeOK t'
        rw [ht']
        refine addDir_ok t ht par last hpk ⟨hne, ?_, ?_, hl1, hl2⟩ hnone
        · intro h; have := (hx _ h).2; simp [isSep] at this
        · intro h; exact cstr_nul_free p (hx _ h).1
  · -- mkdir_ok_dir
    intro t p t' _ hm
    exact mkdir_ok_isDir t t' _ hm
  · -- mkdir_fail
    intro t p t' e _ hm
    obtain ⟨h1, h2⟩ := mkdir_err t t' _ e hm
    exact ⟨h1, fun h => h2 ((Zix.C17.errno_success_iff e).1 h)⟩
  · -- mkdir_mono
    intro t p t' q _ hm hq
    obtain ⟨par, last, _, _, _, _, _, _, ht'⟩ := mkdir_ok t t' _ hm
    have hle : Tree.le t t' := by rw [ht']; exact addDir_le t _
    exact isDir_le hle (by rw [ht']; rfl) _ hq
  · -- prefix_closed
    intro t s k _ hd hk0 hk hb
    show FsLink.isDir t (cstr (s.take k)) = true
    rw [cstr_take]
    by_cases hz : (cstr s).length ≤ k
    · rw [List.take_of_length_le hz]; exact hd
    · have hzk : k < (cstr s).length := by omega
      have hzs : (cstr s).length ≤ s.length := by
        unfold cstr; exact (List.takeWhile_sublist _).length_le
      refine isDir_prefix t (cstr s) k hd hk0 (by omega) ?_
      rcases hb with hb | hb | hb
      · omega
      · right; left; rw [cstr_getD s k hzk]; exact hb
      · right; right; rw [cstr_getD s (k - 1) (by omega)]; exact hb
  · -- root_dir
    intro t s _ hs hall
    have h0 : 0 ∉ s := by
      intro h; have := hall 0 h; simp [isSep, sep] at this
    have hid : cstr s = s := cstr_eq_self s h0
    show FsLink.isDir t (cstr s) = true
    rw [hid]
    exact isDir_seps t s hs hall

/-- On NUL-free strings the wrapped calls are the calls themselves. -/
theorem cstr_id (s : List Nat) (h0 : 0 ∉ s) : cstr s = s := by
  exact cstr_eq_self s h0

theorem take_nul_free (s : List Nat) (h0 : 0 ∉ s) (n : Nat) : 0 ∉ s.take n :=
  fun h => h0 ((List.take_sublist n s).subset h)

/-- On a NUL-free path the walk with the wrapped calls is the walk with the plain calls. -/
theorem go_agree (s : List Nat) (h0 : 0 ∉ s) : ∀ (fr : List PathIter) (t : Tree),
    createDirectoriesG.go (fun t s => FsLink.isDir t (cstr s)) (fun t s => FsLink.mkdir t (cstr s)) s fr t =
      createDirectoriesG.go FsLink.isDir FsLink.mkdir s fr t := by
  intro fr
  induction fr with
  | nil => intro t; rfl
  | cons f rest ih =>
    intro t
    rw [createDirectoriesG.go.eq_2, createDirectoriesG.go.eq_2]
    simp only [cstr_id _ (take_nul_free s h0 _), ih]

theorem createDirectories_agree (t : Tree) (s : List Nat) (h0 : 0 ∉ s) :
    createDirectoriesG (fun t s => FsLink.isDir t (cstr s)) (fun t s => FsLink.mkdir t (cstr s)) t s =
      FsLink.createDirectories t s := by
  unfold FsLink.createDirectories createDirectoriesG
  by_cases hs : s = []
  · rw [if_pos hs, if_pos hs]
  · rw [if_neg hs, if_neg hs]
    exact go_agree s h0 _ t

theorem mkdir_nodes (t t' : Tree) (s : List Nat) (r : Option Int) (h : FsLink.mkdir t s = (t', r)) :
    (∀ p k, (p, k) ∈ t.nodes → (p, k) ∈ t'.nodes) ∧
    (∀ p k, (p, k) ∈ t'.nodes → (p, k) ∈ t.nodes ∨ k = .dir) := by
  cases r with
  | some e =>
    rw [(mkdir_err t t' s e h).1]
    exact ⟨fun _ _ h => h, fun _ _ h => Or.inl h⟩
  | none =>
    obtain ⟨par, last, _, _, _, _, _, _, ht'⟩ := mkdir_ok t t' s h
    rw [ht']
    constructor
    · intro p k hp
      simp only [addDir, List.mem_append]; exact Or.inl hp
    · intro p k hp
      simp only [addDir, List.mem_append, List.mem_singleton, Prod.mk.injEq] at hp
      rcases hp with hp | ⟨_, hp⟩
      · exact Or.inl hp
      · exact Or.inr hp

theorem go_adds (s : List Nat) (h0 : 0 ∉ s) : ∀ (fr : List PathIter) (t : Tree), TreeOK t →
    TreeOK (createDirectoriesG.go FsLink.isDir FsLink.mkdir s fr t).1 ∧
    (∀ p k, (p, k) ∈ t.nodes → (p, k) ∈ (createDirectoriesG.go FsLink.isDir FsLink.mkdir s fr t).1.nodes) ∧
    (∀ p k, (p, k) ∈ (createDirectoriesG.go FsLink.isDir FsLink.mkdir s fr t).1.nodes →
      (p, k) ∈ t.nodes ∨ k = .dir) := by
  intro fr
  induction fr with
  | nil => intro t ht; exact ⟨ht, fun _ _ h => h, fun _ _ h => Or.inl h⟩
  | cons f rest ih =>
    intro t ht
    rw [createDirectoriesG.go.eq_2]
    by_cases hd : FsLink.isDir t (s.take f.range.2) = true
    · rw [if_pos hd]; exact ih t ht
    · rw [if_neg hd]
      cases hm : FsLink.mkdir t (s.take f.range.2) with
      | mk t' r =>
        have hok : TreeOK t' := by
          have := linkTree_laws.mkdir_inv t (s.take f.range.2) ht
          simp only [cstr_id _ (take_nul_free s h0 _), hm] at this
          exact this
        obtain ⟨m1, m2⟩ := mkdir_nodes t t' _ r hm
        cases r with
        | some e => exact ⟨hok, m1, m2⟩
        | none =>
          obtain ⟨i1, i2, i3⟩ := ih t' hok
          refine ⟨i1, fun p k h => i2 p k (m1 p k h), ?_⟩
          intro p k h
          rcases i3 p k h with h | h
          · exact m2 p k h
          · exact Or.inr h

/-- Hence, for trees with symbolic links: SUCCESS exactly when the path then names a directory
(following links). -/
theorem link_mkdirs_success_iff_dir (t : Tree) (ht : TreeOK t) (s : List Nat) (h0 : 0 ∉ s) (hs : s ≠ []) :
    (FsLink.createDirectories t s).2 = 0 ↔ FsLink.isDir (FsLink.createDirectories t s).1 s = true := by
  have h := mkdirsG_success_iff_dir linkTree_laws t ht s h0 hs
  simp only [createDirectories_agree t s h0, cstr_id s h0] at h
  exact h

theorem link_mkdirs_idempotent (t : Tree) (ht : TreeOK t) (s : List Nat) (h0 : 0 ∉ s)
    (h : (FsLink.createDirectories t s).2 = 0) :
    FsLink.createDirectories (FsLink.createDirectories t s).1 s = ((FsLink.createDirectories t s).1, 0) := by
  have h' := mkdirsG_idempotent linkTree_laws t ht s h0 (by rw [createDirectories_agree t s h0]; exact h)
  simp only [createDirectories_agree _ s h0] at h'
  exact h' 

/-- Only directories are added; links and files are never touched. -/
theorem link_mkdirs_only_adds_dirs (t : Tree) (ht : TreeOK t) (s : List Nat) (h0 : 0 ∉ s) :
    TreeOK (FsLink.createDirectories t s).1 ∧
    (∀ p k, (p, k) ∈ t.nodes → (p, k) ∈ (FsLink.createDirectories t s).1.nodes) ∧
    (∀ p k, (p, k) ∈ (FsLink.createDirectories t s).1.nodes → (p, k) ∈ t.nodes ∨ k = .dir) := by
  unfold FsLink.createDirectories createDirectoriesG
  by_cases hs : s = []
  · rw [if_pos hs]; exact ⟨ht, fun _ _ h => h, fun _ _ h => Or.inl h⟩
  · rw [if_neg hs]; exact go_adds s h0 _ t ht

example : TreeOK demo := by
  constructor
  · intro p k h
    simp only [demo, List.mem_cons, Prod.mk.injEq, List.not_mem_nil, or_false] at h
    rcases h with ⟨h, _⟩ | ⟨h, _⟩ | ⟨h, _⟩ | ⟨h, _⟩ <;> subst h <;> decide
  · intro p k h
    simp only [demo, List.mem_cons, Prod.mk.injEq, List.not_mem_nil, or_false] at h
    rcases h with ⟨h, _⟩ | ⟨h, _⟩ | ⟨h, _⟩ | ⟨h, _⟩ <;> subst h <;> decide
  · intro p tgt h
    simp only [demo, List.mem_cons, Prod.mk.injEq, List.not_mem_nil, or_false, reduceCtorEq, and_false,
      false_or, Kind.link.injEq] at h
    rw [h.2]; decide
  · decide
  · decide
  · decide

end Zix.C15Link
