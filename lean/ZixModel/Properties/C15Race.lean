import ZixModel.Properties.C15LinkInst
import ZixModel.Lemmas.C15RaceAux
/-! # C15, create_directories while other processes act on the file system

`createDirectoriesE` (Model/FsLink.lean) is the walk of `zix_create_directories` with an
environment: `env k p` is applied between the failed "is it a directory?" test of a prefix and the
`k`-th `mkdir p`; an `mkdir` that fails with a status of EXISTS is followed by a second test of the
same prefix, and the walk goes on if it names a directory by now.

For EVERY state type, every `isDir`/`mkdir` obeying `OsLaws` and every environment obeying `EnvLaws`
(it keeps states well formed and never removes a directory):

* `mkdirsE_success_dir`        SUCCESS is only reported when the path names a directory at the end;
* `mkdirsE_failure_has_culprit` an error always points at a visited prefix that is not a directory
                               in the state in which the call ends (needs: an mkdir that fails on
                               a directory fails with EEXIST);
* `mkdirsE_failure_not_dir`    hence an error is only reported when the path is not a directory then;
* `mkdirsE_race_tolerated`     hence losing every race to a directory creator still gives SUCCESS;
* `mkdirsE_dirs_stay`          well-formedness is kept and directories stay directories;
* `mkdirsE_no_interference`    without interference this is `createDirectoriesG`.

The tree with symbolic links is such an operating system (`linkTree_honest`) and its racing creator
`racer dirs files` such an environment (`racer_laws`), for directories AND files. -/
namespace Zix.C15Race
open Zix.Path Zix.FsLink Zix.C15LinkAux Zix.C15Link Zix.C15RaceAux

/-! ## the laws -/

/-- What the proofs need to know about the other processes. -/
structure EnvLaws {σ : Type} (inv : σ → Prop) (isDir : σ → List Nat → Bool)
    (env : Nat → List Nat → σ → σ) : Prop where
  /-- they keep the state well formed -/
  env_inv  : ∀ k p t, inv t → inv (env k p t)
  /-- they never remove a directory -/
  env_mono : ∀ k p t q, inv t → isDir t q = true → isDir (env k p t) q = true

/-- mkdir of something that already is a directory fails, with EEXIST. -/
def MkdirHonest {σ : Type} (inv : σ → Prop) (isDir : σ → List Nat → Bool)
    (mkdir : σ → List Nat → σ × Option Int) : Prop :=
  ∀ t p, inv t → isDir t p = true → ∃ e, mkdir t p = (t, some e) ∧ Zix.Errno.errnoStatus e = 4

/-- The weakest form the race argument needs: IF an mkdir of something that already is a directory
fails, its errno maps to EXISTS.  (Whether it fails at all does not matter: a success lets the walk
go on.)  All theorems below that mention `MkdirHonest` are proved from this. -/
def MkdirEexist {σ : Type} (inv : σ → Prop) (isDir : σ → List Nat → Bool)
    (mkdir : σ → List Nat → σ × Option Int) : Prop :=
  ∀ t p t' e, inv t → isDir t p = true → mkdir t p = (t', some e) → Zix.Errno.errnoStatus e = 4

variable {σ : Type} {inv : σ → Prop} {isDir : σ → List Nat → Bool} {mkdir : σ → List Nat → σ × Option Int}
  {env : Nat → List Nat → σ → σ}

theorem MkdirHonest.eexist (H : MkdirHonest inv isDir mkdir) : MkdirEexist inv isDir mkdir := by
  intro t p t' e ht hd hm
  obtain ⟨e', h1, h2⟩ := H t p ht hd
  rw [h1] at hm
  simp only [Prod.mk.injEq, Option.some.injEq] at hm
  rw [← hm.2]; exact h2

/-! ## one visited prefix -/

/-- What happens at one visited prefix.  Either the walk goes on, from a well formed state in which
the prefix names a directory and no directory was lost; or it stops with an error status, and then
(if mkdir is honest about EEXIST) the prefix is not a directory in the state it stops in. -/
theorem goE_step (L : OsLaws inv isDir mkdir) (E : EnvLaws inv isDir env) (s : List Nat)
    (f : PathIter) (rest : List PathIter) (k : Nat) (t : σ) (ht : inv t) :
    (∃ t' k', inv t' ∧ (∀ q, isDir t q = true → isDir t' q = true) ∧
        isDir t' (s.take f.range.2) = true ∧
        createDirectoriesE.go isDir mkdir env s (f :: rest) k t =
          createDirectoriesE.go isDir mkdir env s rest k' t') ∨
    (∃ t' st, inv t' ∧ (∀ q, isDir t q = true → isDir t' q = true) ∧ st ≠ 0 ∧
        createDirectoriesE.go isDir mkdir env s (f :: rest) k t = (t', st) ∧
        (MkdirEexist inv isDir mkdir → isDir t' (s.take f.range.2) = false)) := by
  cases hd : isDir t (s.take f.range.2) with
  | true =>
    left
    exact ⟨t, k, ht, fun _ h => h, hd, goE_cons_dir isDir mkdir env s f rest k t hd⟩
  | false =>
    have hi1 : inv (env k (s.take f.range.2) t) := E.env_inv k _ t ht
    have hm1 : ∀ q, isDir t q = true → isDir (env k (s.take f.range.2) t) q = true :=
      fun q h => E.env_mono k _ t q ht h
    cases hm : mkdir (env k (s.take f.range.2) t) (s.take f.range.2) with
    | mk t' r =>
      cases r with
      | none =>
        left
        have hi : inv t' := by have := L.mkdir_inv _ (s.take f.range.2) hi1; rw [hm] at this; exact this
        exact ⟨t', k + 1, hi, fun q h => L.mkdir_mono _ _ t' q hi1 hm (hm1 q h),
          L.mkdir_ok_dir _ _ t' hi1 hm, goE_cons_ok isDir mkdir env s f rest k t t' hd hm⟩
      | some e =>
        obtain ⟨h1, h2⟩ := L.mkdir_fail _ _ t' e hi1 hm
        by_cases hc : Zix.Errno.errnoStatus e = 4 ∧ isDir t' (s.take f.range.2) = true
        · left
          refine ⟨t', k + 1, by rw [h1]; exact hi1, by rw [h1]; exact hm1, hc.2,
            goE_cons_retry isDir mkdir env s f rest k t t' e hd hm hc.1 hc.2⟩
        · right
          refine ⟨t', Zix.Errno.errnoStatus e, by rw [h1]; exact hi1, by rw [h1]; exact hm1, h2,
            goE_cons_err isDir mkdir env s f rest k t t' e hd hm hc, ?_⟩
          intro H
          cases hd' : isDir t' (s.take f.range.2) with
          | false => rfl
          | true =>
            exfalso
            apply hc
            refine ⟨H _ _ t' e hi1 ?_ hm, hd'⟩
            rw [← h1]; exact hd'

/-! ## the walk over any list of frames -/

/-- Whatever frames are visited, whatever the others do: the state stays well formed; directories
stay directories; on success every visited prefix names a directory at the end; on failure (mkdir
being honest about EEXIST) some visited prefix does not. -/
theorem goE_main (L : OsLaws inv isDir mkdir) (E : EnvLaws inv isDir env) (s : List Nat)
    (fr : List PathIter) : ∀ k t, inv t →
    inv (createDirectoriesE.go isDir mkdir env s fr k t).1 ∧
    (∀ q, isDir t q = true → isDir (createDirectoriesE.go isDir mkdir env s fr k t).1 q = true) ∧
    ((createDirectoriesE.go isDir mkdir env s fr k t).2 = 0 →
      ∀ f ∈ fr, isDir (createDirectoriesE.go isDir mkdir env s fr k t).1 (s.take f.range.2) = true) ∧
    ((createDirectoriesE.go isDir mkdir env s fr k t).2 ≠ 0 → MkdirEexist inv isDir mkdir →
      ∃ f ∈ fr, isDir (createDirectoriesE.go isDir mkdir env s fr k t).1 (s.take f.range.2) = false) := by
  induction fr with
  | nil =>
    intro k t ht
    rw [goE_nil]
    exact ⟨ht, fun _ h => h, fun _ f hf => by simp at hf, fun h => absurd rfl h⟩
  | cons f rest ih =>
    intro k t ht
    rcases goE_step L E s f rest k t ht with ⟨t', k', hi, hmono, hpre, heq⟩ | ⟨t', st, hi, hmono, hst, heq, hcul⟩
    · rw [heq]
      obtain ⟨j1, j2, j3, j4⟩ := ih k' t' hi
      refine ⟨j1, fun q h => j2 q (hmono q h), ?_, ?_⟩
      · intro h g hg
        rcases List.mem_cons.1 hg with hg | hg
        · subst hg; exact j2 _ hpre
        · exact j3 h g hg
      · intro h H
        obtain ⟨g, hg, hgd⟩ := j4 h H
        exact ⟨g, by simp [hg], hgd⟩
    · rw [heq]
      refine ⟨hi, hmono, fun h => absurd h hst, ?_⟩
      intro _ H
      exact ⟨f, by simp, hcul H⟩

theorem createDirectoriesE_ne (isDir : σ → List Nat → Bool) (mkdir : σ → List Nat → σ × Option Int)
    (env : Nat → List Nat → σ → σ) (t : σ) (s : List Nat) (hs : s ≠ []) :
    createDirectoriesE isDir mkdir env t s =
      createDirectoriesE.go isDir mkdir env s ((allFrames s).filter (fun f => f.state = .fileName)) 0 t := by
  unfold createDirectoriesE
  rw [if_neg hs]

theorem createDirectoriesE_nil (isDir : σ → List Nat → Bool) (mkdir : σ → List Nat → σ × Option Int)
    (env : Nat → List Nat → σ → σ) (t : σ) : createDirectoriesE isDir mkdir env t [] = (t, 5) := by
  simp [createDirectoriesE]

/-! ## the theorems -/

/-- 1. SUCCESS is only reported when the path names a directory at the end, whatever the other
processes did (as long as they remove no directory). -/
theorem mkdirsE_success_dir (L : OsLaws inv isDir mkdir) (E : EnvLaws inv isDir env) (t : σ) (ht : inv t)
    (s : List Nat) (h0 : 0 ∉ s) (hs : s ≠ [])
    (h : (createDirectoriesE isDir mkdir env t s).2 = 0) :
    isDir (createDirectoriesE isDir mkdir env t s).1 s = true := by
  rw [createDirectoriesE_ne isDir mkdir env t s hs] at h ⊢
  obtain ⟨_, f2, f3⟩ := fileFrames_facts s h0 hs
  obtain ⟨_, _, g3, _⟩ := goE_main L E s ((allFrames s).filter (fun f => f.state = .fileName)) 0 t ht
  by_cases hfr : (allFrames s).filter (fun f => f.state = .fileName) = []
  · rw [hfr, goE_nil]
    exact L.root_dir t s ht hs (f2 hfr)
  · have hlast := List.getLast?_eq_some_getLast hfr
    have hmem := List.getLast_mem hfr
    have := g3 h _ hmem
    rw [f3 _ hlast, List.take_length] at this
    exact this

/-- 3. A failure always points at a visited prefix that is not a directory in the state in which the
call ends.  (Weakest hypothesis about EEXIST; see `mkdirsE_failure_has_culprit`.) -/
theorem mkdirsE_failure_has_culprit_weak (L : OsLaws inv isDir mkdir) (E : EnvLaws inv isDir env)
    (H : MkdirEexist inv isDir mkdir) (t : σ) (ht : inv t) (s : List Nat) (hs : s ≠ [])
    (h : (createDirectoriesE isDir mkdir env t s).2 ≠ 0) :
    ∃ pre, (∃ f ∈ (allFrames s).filter (fun f => f.state = .fileName), pre = s.take f.range.2) ∧
      isDir (createDirectoriesE isDir mkdir env t s).1 pre = false := by
  rw [createDirectoriesE_ne isDir mkdir env t s hs] at h ⊢
  obtain ⟨f, hf, hfd⟩ := (goE_main L E s _ 0 t ht).2.2.2 h H
  exact ⟨s.take f.range.2, ⟨f, hf, rfl⟩, hfd⟩

theorem mkdirsE_failure_has_culprit (L : OsLaws inv isDir mkdir) (E : EnvLaws inv isDir env)
    (H : MkdirHonest inv isDir mkdir) (t : σ) (ht : inv t) (s : List Nat) (hs : s ≠ [])
    (h : (createDirectoriesE isDir mkdir env t s).2 ≠ 0) :
    ∃ pre, (∃ f ∈ (allFrames s).filter (fun f => f.state = .fileName), pre = s.take f.range.2) ∧
      isDir (createDirectoriesE isDir mkdir env t s).1 pre = false :=
  mkdirsE_failure_has_culprit_weak L E H.eexist t ht s hs h

/-- 3'. The point of the second test: if every visited prefix names a directory in the state in which
the call ends — in particular if every mkdir that failed did so because someone else had just
created that directory — the call reports SUCCESS. -/
theorem mkdirsE_race_tolerated (L : OsLaws inv isDir mkdir) (E : EnvLaws inv isDir env)
    (H : MkdirHonest inv isDir mkdir) (t : σ) (ht : inv t) (s : List Nat) (hs : s ≠ [])
    (hall : ∀ f ∈ (allFrames s).filter (fun f => f.state = .fileName),
      isDir (createDirectoriesE isDir mkdir env t s).1 (s.take f.range.2) = true) :
    (createDirectoriesE isDir mkdir env t s).2 = 0 := by
  apply Classical.byContradiction
  intro hn
  obtain ⟨pre, ⟨f, hf, hpre⟩, hd⟩ := mkdirsE_failure_has_culprit L E H t ht s hs hn
  rw [hpre, hall f hf] at hd
  exact absurd hd (by simp)

/-- 4. Whatever the outcome and whatever the others do, the state stays well formed and every path
that named a directory still does. -/
theorem mkdirsE_dirs_stay (L : OsLaws inv isDir mkdir) (E : EnvLaws inv isDir env) (t : σ) (ht : inv t)
    (s : List Nat) :
    inv (createDirectoriesE isDir mkdir env t s).1 ∧
    ∀ q, isDir t q = true → isDir (createDirectoriesE isDir mkdir env t s).1 q = true := by
  by_cases hs : s = []
  · subst hs
    rw [createDirectoriesE_nil]
    exact ⟨ht, fun _ h => h⟩
  · rw [createDirectoriesE_ne isDir mkdir env t s hs]
    obtain ⟨g1, g2, _, _⟩ := goE_main L E s ((allFrames s).filter (fun f => f.state = .fileName)) 0 t ht
    exact ⟨g1, g2⟩

/-- 2. An error is only reported when the path does not name a directory in the state in which the
call ends.  (Weakest hypothesis about EEXIST; see `mkdirsE_failure_not_dir`.) -/
theorem mkdirsE_failure_not_dir_weak (L : OsLaws inv isDir mkdir) (E : EnvLaws inv isDir env)
    (H : MkdirEexist inv isDir mkdir) (t : σ) (ht : inv t) (s : List Nat) (h0 : 0 ∉ s) (hs : s ≠ [])
    (h : (createDirectoriesE isDir mkdir env t s).2 ≠ 0) :
    isDir (createDirectoriesE isDir mkdir env t s).1 s = false := by
  obtain ⟨pre, ⟨f, hf, hpre⟩, hd⟩ := mkdirsE_failure_has_culprit_weak L E H t ht s hs h
  obtain ⟨c1, c2, c3⟩ := (fileFrames_facts s h0 hs).1 f hf
  have hi := (mkdirsE_dirs_stay L E t ht s).1
  cases hsd : isDir (createDirectoriesE isDir mkdir env t s).1 s with
  | false => rfl
  | true =>
    have := L.prefix_closed _ s f.range.2 hi hsd c1 c2 (c3.elim Or.inl (fun h => Or.inr (Or.inl h)))
    rw [← hpre, hd] at this
    exact absurd this (by simp)

theorem mkdirsE_failure_not_dir (L : OsLaws inv isDir mkdir) (E : EnvLaws inv isDir env)
    (H : MkdirHonest inv isDir mkdir) (t : σ) (ht : inv t) (s : List Nat) (h0 : 0 ∉ s) (hs : s ≠ [])
    (h : (createDirectoriesE isDir mkdir env t s).2 ≠ 0) :
    isDir (createDirectoriesE isDir mkdir env t s).1 s = false :=
  mkdirsE_failure_not_dir_weak L E H.eexist t ht s h0 hs h

/-- 1 + 2. SUCCESS exactly when the path names a directory in the state in which the call ends. -/
theorem mkdirsE_success_iff_dir (L : OsLaws inv isDir mkdir) (E : EnvLaws inv isDir env)
    (H : MkdirHonest inv isDir mkdir) (t : σ) (ht : inv t) (s : List Nat) (h0 : 0 ∉ s) (hs : s ≠ []) :
    (createDirectoriesE isDir mkdir env t s).2 = 0 ↔
      isDir (createDirectoriesE isDir mkdir env t s).1 s = true := by
  constructor
  · exact mkdirsE_success_dir L E t ht s h0 hs
  · intro h
    apply Classical.byContradiction
    intro hn
    rw [mkdirsE_failure_not_dir L E H t ht s h0 hs hn] at h
    exact absurd h (by simp)

/-! ## no interference -/

theorem goE_id (L : OsLaws inv isDir mkdir) (s : List Nat) (fr : List PathIter) : ∀ k t, inv t →
    createDirectoriesE.go isDir mkdir (fun _ _ t => t) s fr k t = createDirectoriesG.go isDir mkdir s fr t := by
  induction fr with
  | nil => intro k t _; rw [goE_nil, go_nil]
  | cons f rest ih =>
    intro k t ht
    cases hd : isDir t (s.take f.range.2) with
    | true =>
      rw [goE_cons_dir isDir mkdir _ s f rest k t hd, go_cons_dir isDir mkdir s f rest t hd]
      exact ih k t ht
    | false =>
      cases hm : mkdir t (s.take f.range.2) with
      | mk t' r =>
        cases r with
        | none =>
          rw [goE_cons_ok isDir mkdir _ s f rest k t t' hd hm, go_cons_ok isDir mkdir s f rest t t' hd hm]
          have hi : inv t' := by have := L.mkdir_inv t (s.take f.range.2) ht; rw [hm] at this; exact this
          exact ih (k + 1) t' hi
        | some e =>
          obtain ⟨h1, _⟩ := L.mkdir_fail t _ t' e ht hm
          have hn : ¬ (Zix.Errno.errnoStatus e = 4 ∧ isDir t' (s.take f.range.2) = true) := by
            rw [h1, hd]; simp
          rw [goE_cons_err isDir mkdir _ s f rest k t t' e hd hm hn, go_cons_err isDir mkdir s f rest t t' e hd hm]

/-- 5. When nobody interferes the walk with the second test is the plain walk: a failed mkdir leaves
the state unchanged, so the second test gives the same "no". -/
theorem mkdirsE_no_interference (L : OsLaws inv isDir mkdir) (t : σ) (ht : inv t) (s : List Nat) :
    createDirectoriesE isDir mkdir (fun _ _ t => t) t s = createDirectoriesG isDir mkdir t s := by
  by_cases hs : s = []
  · subst hs; rw [createDirectoriesE_nil, createDirectoriesG_nil]
  · rw [createDirectoriesE_ne isDir mkdir _ t s hs, createDirectoriesG_ne isDir mkdir t s hs]
    exact goE_id L s _ 0 t ht

/-- The identity environment obeys the laws. -/
theorem idEnv_laws (inv : σ → Prop) (isDir : σ → List Nat → Bool) :
    EnvLaws inv isDir (fun _ _ t => t) :=
  ⟨fun _ _ _ h => h, fun _ _ _ _ _ h => h⟩

/-! ## the tree with symbolic links is honest about EEXIST -/

/-- mkdir of a path that names a directory (following links) fails with EEXIST and changes nothing. -/
theorem mkdir_of_isDir (t : Tree) (s : List Nat) (h : FsLink.isDir t s = true) :
    FsLink.mkdir t s = (t, some 17) := by
  rw [isDir_iff] at h
  obtain ⟨_, p, hw, hp⟩ := h
  unfold FsLink.mkdir
  simp only
  cases hl : (comps s).getLast? with
  | none => rfl
  | some last =>
    simp only
    have hcs := dropLast_append_of_getLast? _ last hl
    rw [← hcs, show walkFuel = 4095 + 1 from rfl] at hw
    obtain ⟨q, h1, h2⟩ := walk_split_cons t _ _ _ _ _ _ hw
    have hq := walk_cons_dir t _ _ _ _ _ h2
    rw [show walkFuel - 1 = 4095 from rfl, h1]
    simp only [hq, ne_eq, not_true_eq_false, if_false]
    by_cases hd : last = [dot] ∨ last = [dot, dot]
    · rw [if_pos hd]
    · rw [if_neg hd]
      have hsome : (t.lookup (q ++ [last])).isSome = true := by
        cases hl2 : t.lookup (q ++ [last]) with
        | some _ => rfl
        | none =>
          rw [walk_cons] at h2
          have hd1 : last ≠ [dot] := fun h => hd (Or.inl h)
          have hd2 : last ≠ [dot, dot] := fun h => hd (Or.inr h)
          simp only [step, hq, hl2, hd1, hd2, if_false] at h2
          cases h2
      rw [if_pos hsome]

theorem linkTree_honest :
    MkdirHonest TreeOK (fun t s => FsLink.isDir t (cstr s)) (fun t s => FsLink.mkdir t (cstr s)) := by
  intro t p _ hd
  exact ⟨17, mkdir_of_isDir t (cstr p) hd, by decide⟩


/-! ## the racing creator is an environment in the sense of `EnvLaws` -/

/-- Adding a directory or a file with a real name under an existing directory keeps the tree well
formed (`addDir_ok` for a node of either kind). -/
theorem addNode_ok (t : Tree) (ht : TreeOK t) (d : List (List Nat)) (n : List Nat) (kd : Kind)
    (hkd : kd = .dir ∨ kd = .file)
    (hd : t.lookup d = some .dir)
    (hn : n ≠ [] ∧ sep ∉ n ∧ 0 ∉ n ∧ n ≠ [dot] ∧ n ≠ [dot, dot])
    (hnew : t.lookup (d ++ [n]) = none) : TreeOK (addNode t (d ++ [n]) kd) := by
  have hdn : ∀ c ∈ d, c ≠ [] ∧ sep ∉ c ∧ 0 ∉ c ∧ c ≠ [dot] ∧ c ≠ [dot, dot] := by
    rcases lookup_some_mem t d _ hd with ⟨h, _⟩ | h
    · subst h; intro c hc; cases hc
    · exact ht.names d _ h
  constructor
  · intro p k hp
    simp only [addNode, List.mem_append, List.mem_singleton, Prod.mk.injEq] at hp
    rcases hp with hp | ⟨hp, _⟩
    · obtain ⟨h1, h2⟩ := ht.parents p k hp
      exact ⟨h1, addNode_le t _ _ _ _ h2⟩
    · subst hp
      refine ⟨by simp, ?_⟩
      rw [List.dropLast_concat]
      exact addNode_le t _ _ _ _ hd
  · intro p k hp
    simp only [addNode, List.mem_append, List.mem_singleton, Prod.mk.injEq] at hp
    rcases hp with hp | ⟨hp, _⟩
    · exact ht.names p k hp
    · subst hp
      intro c hc
      rcases List.mem_append.1 hc with hc | hc
      · exact hdn c hc
      · rw [List.mem_singleton] at hc; subst hc; exact hn
  · intro p tgt hp
    simp only [addNode, List.mem_append, List.mem_singleton, Prod.mk.injEq] at hp
    rcases hp with hp | ⟨_, hp⟩
    · exact ht.targets p tgt hp
    · rcases hkd with h | h <;> rw [h] at hp <;> cases hp
  · simp only [addNode, List.map_append, List.map_cons, List.map_nil]
    rw [List.nodup_append]
    refine ⟨ht.nodup, by simp, ?_⟩
    intro a ha b hb
    rw [List.mem_singleton] at hb; subst hb
    intro hab; subst hab
    exact lookup_none_not_mem t _ hnew ha
  · exact addNode_le t _ _ _ _ ht.cwdDir
  · exact ht.cwdNames

/-- What the racing creator does to the tree: nothing, or it adds one directory or one file, with a
component of the path as its name, under an existing directory, where nothing was. -/
theorem racer_cases (dirs files : List Nat) (k : Nat) (p : List Nat) (t : Tree) :
    racer dirs files k p t = t ∨
    ∃ par last kd, (kd = Kind.dir ∨ kd = Kind.file) ∧ last ∈ comps p ∧ t.lookup par = some .dir ∧
      last ≠ [dot] ∧ last ≠ [dot, dot] ∧ t.lookup (par ++ [last]) = none ∧
      racer dirs files k p t = addNode t (par ++ [last]) kd := by
  unfold racer
  by_cases hk : k ∈ dirs
  · rw [if_pos hk]
    cases hm : FsLink.mkdir t p with
    | mk t' r =>
      cases r with
      | some e => left; exact (mkdir_err t t' p e hm).1
      | none =>
        right
        obtain ⟨par, last, hlast, _, hpk, hl1, hl2, hnone, ht'⟩ := mkdir_ok t t' p hm
        refine ⟨par, last, .dir, Or.inl rfl, ?_, hpk, hl1, hl2, hnone, ht'⟩
        rw [← dropLast_append_of_getLast? _ last hlast]; simp
  · rw [if_neg hk]
    by_cases hf : k ∈ files
    · rw [if_pos hf]
      cases hm : FsLink.mkdir t p with
      | mk t' r =>
        cases r with
        | some e => left; exact (mkdir_err t t' p e hm).1
        | none =>
          right
          obtain ⟨par, last, hlast, _, hpk, hl1, hl2, hnone, ht'⟩ := mkdir_ok t t' p hm
          refine ⟨par, last, .file, Or.inr rfl, ?_, hpk, hl1, hl2, hnone, ?_⟩
          · rw [← dropLast_append_of_getLast? _ last hlast]; simp
          · subst ht'
            simp [addDir, addNode]
    · rw [if_neg hf]; left; rfl

/-- The racing creator — putting directories before the mkdir calls numbered in `dirs` and files
before those in `files` — keeps trees well formed and never removes a directory.  (As for
`linkTree_laws`, strings are read up to their first NUL.) -/
theorem racer_laws (dirs files : List Nat) :
    EnvLaws TreeOK (fun t s => FsLink.isDir t (cstr s)) (fun k p t => racer dirs files k (cstr p) t) := by
  constructor
  · intro k p t ht
    show TreeOK (racer dirs files k (cstr p) t)
    rcases racer_cases dirs files k (cstr p) t with h | ⟨par, last, kd, hkd, hmem, hpk, hl1, hl2, hnone, h⟩
    · rw [h]; exact ht
    · rw [h]
      obtain ⟨hne, hx⟩ := comps_mem _ _ hmem
      refine addNode_ok t ht par last kd hkd hpk ⟨hne, ?_, ?_, hl1, hl2⟩ hnone
      · intro h; have := (hx _ h).2; simp [isSep] at this
      · intro h; exact cstr_nul_free p (hx _ h).1
  · intro k p t q _ hq
    show FsLink.isDir (racer dirs files k (cstr p) t) (cstr q) = true
    rcases racer_cases dirs files k (cstr p) t with h | ⟨par, last, kd, _, _, _, _, _, _, h⟩
    · rw [h]; exact hq
    · rw [h]; exact isDir_le (addNode_le t _ _) rfl _ hq


/-! ## hence, for `createDirectoriesRace` on trees with symbolic links -/

/-- On a NUL-free path the walk with the wrapped calls is the walk with the plain calls. -/
theorem goE_agree (dirs files : List Nat) (s : List Nat) (h0 : 0 ∉ s) : ∀ (fr : List PathIter) (k : Nat) (t : Tree),
    createDirectoriesE.go (fun t s => FsLink.isDir t (cstr s)) (fun t s => FsLink.mkdir t (cstr s))
        (fun k p t => racer dirs files k (cstr p) t) s fr k t =
      createDirectoriesE.go FsLink.isDir FsLink.mkdir (racer dirs files) s fr k t := by
  intro fr
  induction fr with
  | nil => intro k t; rfl
  | cons f rest ih =>
    intro k t
    rw [createDirectoriesE.go.eq_2, createDirectoriesE.go.eq_2]
    simp only [cstr_id _ (take_nul_free s h0 _), ih]

theorem createDirectoriesRace_agree (dirs files : List Nat) (t : Tree) (s : List Nat) (h0 : 0 ∉ s) :
    createDirectoriesE (fun t s => FsLink.isDir t (cstr s)) (fun t s => FsLink.mkdir t (cstr s))
        (fun k p t => racer dirs files k (cstr p) t) t s =
      createDirectoriesRace dirs files t s := by
  unfold createDirectoriesRace createDirectoriesE
  by_cases hs : s = []
  · rw [if_pos hs, if_pos hs]
  · rw [if_neg hs, if_neg hs]
    exact goE_agree dirs files s h0 _ 0 t

/-- With a racing creator of directories and files: SUCCESS exactly when the path names a directory
(following links) in the tree the call ends in. -/
theorem race_mkdirs_success_iff_dir (dirs files : List Nat) (t : Tree) (ht : TreeOK t) (s : List Nat)
    (h0 : 0 ∉ s) (hs : s ≠ []) :
    (createDirectoriesRace dirs files t s).2 = 0 ↔
      FsLink.isDir (createDirectoriesRace dirs files t s).1 s = true := by
  have h := mkdirsE_success_iff_dir linkTree_laws (racer_laws dirs files) linkTree_honest t ht s h0 hs
  simp only [createDirectoriesRace_agree dirs files t s h0, cstr_id s h0] at h
  exact h

/-- With a racing creator: the tree stays well formed and directories stay directories. -/
theorem race_mkdirs_dirs_stay (dirs files : List Nat) (t : Tree) (ht : TreeOK t) (s : List Nat) (h0 : 0 ∉ s) :
    TreeOK (createDirectoriesRace dirs files t s).1 ∧
    ∀ q, 0 ∉ q → FsLink.isDir t q = true → FsLink.isDir (createDirectoriesRace dirs files t s).1 q = true := by
  have h := mkdirsE_dirs_stay linkTree_laws (racer_laws dirs files) t ht s
  simp only [createDirectoriesRace_agree dirs files t s h0] at h
  refine ⟨h.1, fun q hq hd => ?_⟩
  have := h.2 q (by rw [cstr_id q hq]; exact hd)
  rwa [cstr_id q hq] at this

/-- Without a racer this is `FsLink.createDirectories`. -/
theorem race_none (t : Tree) (ht : TreeOK t) (s : List Nat) (h0 : 0 ∉ s) :
    createDirectoriesRace [] [] t s = FsLink.createDirectories t s := by
  have h := mkdirsE_no_interference linkTree_laws t ht s
  rw [createDirectories_agree t s h0] at h
  rw [← h, ← createDirectoriesRace_agree [] [] t s h0]
  rfl

/-! ## non-vacuity -/

/-- an empty root directory, working directory "/" -/
def empty : Tree := ⟨[], []⟩

example : TreeOK empty := by
  constructor
  · intro p k h; cases h
  · intro p k h; cases h
  · intro p tgt h; cases h
  · decide
  · decide
  · intro c h; cases h

-- "a/b" while a racer creates "a" just before the library's first mkdir: that mkdir fails with EEXIST …
example : (FsLink.mkdir (racer [0] [] 0 [97] empty) [97]).2 = some 17 := by decide
-- … and the call still succeeds, having created "a/b" under the racer's "a"
example : (createDirectoriesRace [0] [] empty [97, 47, 98]).2 = 0 := by decide
example : (createDirectoriesRace [0] [] empty [97, 47, 98]).1.nodes = [([[97]], .dir), ([[97], [98]], .dir)] := by
  decide
-- the racer also wins the second race (both mkdir calls of the library fail): still SUCCESS
example : (createDirectoriesRace [0, 1] [] empty [97, 47, 98]).2 = 0 := by decide
-- the racer puts a FILE at "a": mkdir fails with EEXIST, the second test says "not a directory": EXISTS
example : (createDirectoriesRace [] [0] empty [97, 47, 98]).2 = 4 := by decide
example : (createDirectoriesRace [] [0] empty [97, 47, 98]).2 ≠ 0 := by decide
example : FsLink.isDir (createDirectoriesRace [] [0] empty [97, 47, 98]).1 [97, 47, 98] = false := by decide
-- nobody interferes: the plain walk
example : createDirectoriesRace [] [] empty [97, 47, 98] = FsLink.createDirectories empty [97, 47, 98] := by
  decide

/-! ## the hypothesis about EEXIST is needed

An operating system obeying `OsLaws` in which mkdir of an existing directory fails with EACCES (13),
and an environment obeying `EnvLaws`: the walk reports an error although the path names a directory
in the state it ends in.  So `mkdirsE_failure_not_dir` (and `…_has_culprit`) do not hold without
`MkdirEexist`. -/

/-- state: does everything exist?  Strings of separators always name the root. -/
def demoIsDir (t : Bool) (s : List Nat) : Bool := t || (!s.isEmpty && s.all isSep)
def demoMkdir (t : Bool) (_ : List Nat) : Bool × Option Int := if t then (t, some 13) else (true, none)

theorem demo_laws : OsLaws (fun _ => True) demoIsDir demoMkdir where
  mkdir_inv := fun _ _ _ => trivial
  mkdir_ok_dir := fun t p t' _ h => by
    cases t <;> simp [demoMkdir] at h
    subst h; rfl
  mkdir_fail := fun t p t' e _ h => by
    cases t <;> simp [demoMkdir] at h
    obtain ⟨h1, h2⟩ := h
    subst h1 h2
    exact ⟨rfl, by decide⟩
  mkdir_mono := fun t p t' q _ h hq => by
    cases t
    · simp [demoMkdir] at h; subst h; rfl
    · simp [demoMkdir] at h
  prefix_closed := fun t s k _ hd hk0 hk _ => by
    cases t
    · simp only [demoIsDir, Bool.false_or, Bool.and_eq_true, Bool.not_eq_true', List.all_eq_true,
        List.isEmpty_eq_false_iff] at hd ⊢
      refine ⟨?_, fun c hc => hd.2 c ((List.take_sublist k s).subset hc)⟩
      cases s with
      | nil => exact absurd rfl hd.1
      | cons a r =>
        cases k with
        | zero => omega
        | succ k => simp
    · rfl
  root_dir := fun t s _ hs hall => by
    simp only [demoIsDir, Bool.or_eq_true, Bool.and_eq_true, Bool.not_eq_true', List.all_eq_true,
      List.isEmpty_eq_false_iff]
    exact Or.inr ⟨hs, hall⟩

theorem demo_env_laws : EnvLaws (fun _ => True) demoIsDir (fun _ _ _ => true) :=
  ⟨fun _ _ _ _ => trivial, fun _ _ _ _ _ _ => rfl⟩

theorem failure_not_dir_needs_eexist :
    ¬ (∀ {σ : Type} {inv : σ → Prop} {isDir : σ → List Nat → Bool} {mkdir : σ → List Nat → σ × Option Int}
        {env : Nat → List Nat → σ → σ}, OsLaws inv isDir mkdir → EnvLaws inv isDir env →
        ∀ (t : σ), inv t → ∀ (s : List Nat), 0 ∉ s → s ≠ [] →
        (createDirectoriesE isDir mkdir env t s).2 ≠ 0 →
        isDir (createDirectoriesE isDir mkdir env t s).1 s = false) := by
  intro h
  have := h demo_laws demo_env_laws false trivial [97] (by decide) (by decide) (by decide)
  revert this
  decide


end Zix.C15Race
