import ZixModel.Spec.Env
import ZixModel.Lemmas.Env
/-! # C16 — environment expansion substitutes exactly the references and copies the rest

Property theorems only; helper lemmas live in `ZixModel/Lemmas/Env.lean`.
`expand` (Model/Env.lean) is the C scanner with its indices and a fuel argument;
`spec` (Spec/Env.lean) is the token-level specification. -/
namespace Zix.C16
open Zix.Env

/-- The empty string expands to the empty string (not to NULL). -/
theorem expand_empty (env : List (List Nat)) : expand env [] = some [] := by
  simp [expand, loop, at']

/-- The scanner terminates on every NUL-free string in every environment: the fuel
`length + 1` that `expand` passes always suffices. -/
theorem expand_terminates (env : List (List Nat)) (str : List Nat) (h : 0 ∉ str) :
    (expand env str).isSome := by
  have := loop_eq env str h (str.length + 1) 0 0 [] (Nat.le_refl _) (Nat.zero_le _) (by omega)
  simp [expand, this]

/-- The scanner computes exactly the specified expansion, for every string and environment. -/
theorem expand_eq_spec (env : List (List Nat)) (str : List Nat) (h : 0 ∉ str) :
    expand env str = some (spec env str) := by
  have := loop_eq env str h (str.length + 1) 0 0 [] (Nat.le_refl _) (Nat.zero_le _) (by omega)
  simpa [expand] using this

/-! ## what the specification says, token by token -/

/-- Text without `$` and `~` is copied unchanged. -/
theorem spec_plain (env : List (List Nat)) (str : List Nat) (h1 : 36 ∉ str) (h2 : 126 ∉ str) :
    spec env str = str := by
  induction str with
  | nil => simp [spec]
  | cons c rest ih =>
    have hc1 : c ≠ 36 := fun hc => h1 (by simp [hc])
    have hc2 : c ≠ 126 := fun hc => h2 (by simp [hc])
    rw [spec]
    simp only [hc1, hc2, false_and, if_false]
    rw [ih (fun hm => h1 (List.mem_cons_of_mem _ hm)) (fun hm => h2 (List.mem_cons_of_mem _ hm))]

/-- A `$NAME` reference whose variable is set is replaced by the value, verbatim (the value is
not rescanned), and scanning continues after the longest name. -/
theorem spec_ref_set (env : List (List Nat)) (name post v : List Nat)
    (hne : name ≠ []) (hn : ∀ c ∈ name, isVarChar c = true) (hp : isVarChar (post.headD 0) = false)
    (hv : findEnv env name = some v) :
    spec env (36 :: (name ++ post)) = v ++ spec env post := by
  obtain ⟨ht, hdw⟩ := takeWhile_append_of_headD (p := isVarChar) name post hn hp
  have hhd : isVarChar ((name ++ post).headD 0) = true := by
    cases name with
    | nil => exact absurd rfl hne
    | cons x xs => exact hn x (by simp)
  rw [spec]
  simp only [hhd, and_self, if_true, ht, hdw]
  simp [varText, hv]

/-- A reference to an unset variable is left as written. -/
theorem spec_ref_unset (env : List (List Nat)) (name post : List Nat)
    (hne : name ≠ []) (hn : ∀ c ∈ name, isVarChar c = true) (hp : isVarChar (post.headD 0) = false)
    (hv : findEnv env name = none) :
    spec env (36 :: (name ++ post)) = 36 :: name ++ spec env post := by
  obtain ⟨ht, hdw⟩ := takeWhile_append_of_headD (p := isVarChar) name post hn hp
  have hhd : isVarChar ((name ++ post).headD 0) = true := by
    cases name with
    | nil => exact absurd rfl hne
    | cons x xs => exact hn x (by simp)
  rw [spec]
  simp only [hhd, and_self, if_true, ht, hdw]
  simp [varText, hv]

/-- A `$` not followed by a name character (lowercase, brace, end of string …) is copied. -/
theorem spec_dollar_literal (env : List (List Nat)) (post : List Nat) (hp : isVarChar (post.headD 0) = false) :
    spec env (36 :: post) = 36 :: spec env post := by
  rw [spec]
  simp only [hp, Bool.false_eq_true, and_false, if_false]
  simp

/-- A `~` followed by the end of the string, `/` or `:` is replaced by HOME's value when HOME is set. -/
theorem spec_tilde_expands (env : List (List Nat)) (post v : List Nat)
    (hp : post = [] ∨ post.headD 0 = 47 ∨ post.headD 0 = 58)
    (hv : findEnv env [72, 79, 77, 69] = some v) :
    spec env (126 :: post) = v ++ spec env post := by
  have hd : isPathDelim (post.headD 0) = true := by
    rcases hp with hp | hp | hp
    · subst hp; decide
    · rw [hp]; decide
    · rw [hp]; decide
  rw [spec]
  simp only [hd]
  simp [varText, homeRef, hv]

/-- A `~` directly followed by any other character is never expanded. -/
theorem spec_tilde_before_other (env : List (List Nat)) (c : Nat) (post : List Nat)
    (hc : c ≠ 47 ∧ c ≠ 58 ∧ c ≠ 0) :
    spec env (126 :: c :: post) = 126 :: spec env (c :: post) := by
  have hd : isPathDelim c = false := by
    simp [isPathDelim, hc.1, hc.2.1, hc.2.2]
  rw [spec]
  simp [hd]

/-- `find_env` returns the value of the first `NAME=value` entry with exactly that name. -/
theorem findEnv_first (pre post : List (List Nat)) (name v : List Nat) (hname : 61 ∉ name)
    (hpre : ∀ e ∈ pre, ¬(e.take name.length = name ∧ at' e name.length = 61)) :
    findEnv (pre ++ (name ++ 61 :: v) :: post) name = some v := by
  have _ := hname  -- not needed: the entry `name ++ '=' :: v` matches whatever `name` contains
  induction pre with
  | nil =>
    simp [findEnv, at']
  | cons e rest ih =>
    have he := hpre e (by simp)
    simp only [List.cons_append, findEnv, he, if_false]
    exact ih (fun e' he' => hpre e' (by simp [he']))

/-! ## non-vacuity -/
-- "a$X:~/b$Y" with X=1, HOME=/h, Y unset
example : expand [[88, 61, 49], [72, 79, 77, 69, 61, 47, 104]] [97, 36, 88, 58, 126, 47, 98, 36, 89]
    = some [97, 49, 58, 47, 104, 47, 98, 36, 89] := by decide

end Zix.C16
