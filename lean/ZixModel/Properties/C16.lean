import ZixModel.Model.Env
/-! # C16 — environment expansion -/
namespace Zix.C16
open Zix.Env

/-- The empty string expands to the empty string (not to NULL). -/
theorem expand_empty (env : List (List Nat)) : expand env [] = some [] := by
  simp [expand, loop, at']

end Zix.C16
