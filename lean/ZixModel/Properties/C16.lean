import ZixModel.Spec.Env
import ZixModel.Lemmas.Env
import ZixModel.Generated.CharClass
/-! # C16 — environment expansion substitutes exactly the references and copies the rest

Property theorems only; helper lemmas live in `ZixModel/Lemmas/Env.lean`.
`expand` (Model/Env.lean) is the C scanner with its indices and a fuel argument;
`spec` (Spec/Env.lean) is the token-level specification. -/
namespace Zix.C16
open Zix.Env

/-- The empty string expands to the empty string (not to NULL). -/
theorem expand_empty (env : List (List Nat)) : expand env [] = some [] := by
  simp [expand, loop, at']

/-- The scanner terminates on every NUL-free string in every environment: the fuel
`length + 1` that `expand` passes always suffices. -/
theorem expand_terminates (env : List (List Nat)) (str : List Nat) (h : 0 ∉ str) :
    (expand env str).isSome := by
  have := loop_eq env str h (str.length + 1) 0 0 [] (Nat.le_refl _) (Nat.zero_le _) (by omega)
  simp [expand, this]

/-- The scanner computes exactly the specified expansion, for every string and environment. -/
theorem expand_eq_spec (env : List (List Nat)) (str : List Nat) (h : 0 ∉ str) :
    expand env str = some (spec env str) := by
  have := loop_eq env str h (str.length + 1) 0 0 [] (Nat.le_refl _) (Nat.zero_le _) (by omega)
  simpa [expand, spec, prevDelimAt] using this

/-! ## what the specification says, token by token

`specFrom env prevDelim rest` is the expansion of the remainder `rest` of a string, `prevDelim`
telling whether the byte before it is the start of the string or a path delimiter
(`spec env str = specFrom env true str`). -/

/-- Whether the last byte of `pre` is a path delimiter (`b` when `pre` is empty). -/
def endsDelim (b : Bool) (pre : List Nat) : Bool :=
  match pre.getLast? with
  | none => b
  | some c => isPathDelim c

/-- Text without `$` and `~` is copied unchanged, and scanning continues behind it. -/
theorem spec_plain_prefix (env : List (List Nat)) (b : Bool) (pre rest : List Nat)
    (h1 : 36 ∉ pre) (h2 : 126 ∉ pre) :
    specFrom env b (pre ++ rest) = pre ++ specFrom env (endsDelim b pre) rest := by
  induction pre generalizing b with
  | nil => simp [endsDelim]
  | cons c pre ih =>
    have hc1 : c ≠ 36 := fun hc => h1 (by simp [hc])
    have hc2 : c ≠ 126 := fun hc => h2 (by simp [hc])
    rw [List.cons_append, specFrom]
    simp only [hc1, hc2, false_and, if_false]
    rw [ih _ (fun hm => h1 (List.mem_cons_of_mem _ hm)) (fun hm => h2 (List.mem_cons_of_mem _ hm))]
    congr 2
    cases pre with
    | nil => simp [endsDelim]
    | cons d ds =>
      simp only [endsDelim, List.getLast?_cons_cons]
      cases h : (d :: ds).getLast? with
      | none => simp at h
      | some x => rfl

/-- Text without `$` and `~` is copied unchanged. -/
theorem spec_plain (env : List (List Nat)) (str : List Nat) (h1 : 36 ∉ str) (h2 : 126 ∉ str) :
    spec env str = str := by
  have := spec_plain_prefix env true str [] h1 h2
  simpa [spec, specFrom] using this

/-- A `$NAME` reference whose variable is set is replaced by the value, verbatim (the value is
not rescanned), and scanning continues after the longest name. -/
theorem spec_ref_set (env : List (List Nat)) (b : Bool) (name post v : List Nat)
    (hne : name ≠ []) (hn : ∀ c ∈ name, isVarChar c = true) (hp : isVarChar (post.headD 0) = false)
    (hv : findEnv env name = some v) :
    specFrom env b (36 :: (name ++ post)) = v ++ specFrom env false post := by
  obtain ⟨ht, hdw⟩ := takeWhile_append_of_headD (p := isVarChar) name post hn hp
  have hhd : isVarChar ((name ++ post).headD 0) = true := by
    cases name with
    | nil => exact absurd rfl hne
    | cons x xs => exact hn x (by simp)
  rw [specFrom]
  simp only [hhd, and_self, if_true, ht, hdw]
  simp [varText, hv]

/-- A reference to an unset variable is left as written. -/
theorem spec_ref_unset (env : List (List Nat)) (b : Bool) (name post : List Nat)
    (hne : name ≠ []) (hn : ∀ c ∈ name, isVarChar c = true) (hp : isVarChar (post.headD 0) = false)
    (hv : findEnv env name = none) :
    specFrom env b (36 :: (name ++ post)) = 36 :: name ++ specFrom env false post := by
  obtain ⟨ht, hdw⟩ := takeWhile_append_of_headD (p := isVarChar) name post hn hp
  have hhd : isVarChar ((name ++ post).headD 0) = true := by
    cases name with
    | nil => exact absurd rfl hne
    | cons x xs => exact hn x (by simp)
  rw [specFrom]
  simp only [hhd, and_self, if_true, ht, hdw]
  simp [varText, hv]

/-- A `$` not followed by a name character (lowercase, brace, end of string …) is copied. -/
theorem spec_dollar_literal (env : List (List Nat)) (b : Bool) (post : List Nat)
    (hp : isVarChar (post.headD 0) = false) :
    specFrom env b (36 :: post) = 36 :: specFrom env false post := by
  rw [specFrom]
  simp only [hp, Bool.false_eq_true, and_false, if_false]
  simp [isPathDelim]

/-- A `~` that stands alone as a path component — the start of the string or a delimiter before
it, the end of the string, `/` or `:` after it — is replaced by HOME's value when HOME is set. -/
theorem spec_tilde_expands (env : List (List Nat)) (post v : List Nat)
    (hp : post = [] ∨ post.headD 0 = 47 ∨ post.headD 0 = 58)
    (hv : findEnv env homeName = some v) :
    specFrom env true (126 :: post) = v ++ specFrom env false post := by
  have hd : isPathDelim (post.headD 0) = true := by
    rcases hp with hp | hp | hp
    · subst hp; decide
    · rw [hp]; decide
    · rw [hp]; decide
  rw [specFrom]
  simp only [hd]
  simp [homeText, hv]

/-- The same at string level: plain text that is empty or ends in `/` or `:`, then `~`, then the
end of the string or a delimiter. -/
theorem spec_tilde_component (env : List (List Nat)) (pre post v : List Nat)
    (h1 : 36 ∉ pre) (h2 : 126 ∉ pre) (hpre : endsDelim true pre = true)
    (hp : post = [] ∨ post.headD 0 = 47 ∨ post.headD 0 = 58)
    (hv : findEnv env homeName = some v) :
    spec env (pre ++ 126 :: post) = pre ++ v ++ specFrom env false post := by
  rw [spec, spec_plain_prefix env true pre _ h1 h2, hpre, spec_tilde_expands env post v hp hv]
  simp

/-- With HOME unset a lone `~` stays as written. -/
theorem spec_tilde_home_unset (env : List (List Nat)) (b : Bool) (post : List Nat)
    (hv : findEnv env homeName = none) :
    specFrom env b (126 :: post) = 126 :: specFrom env false post := by
  rw [specFrom]
  have h126 : isPathDelim 126 = false := by decide
  split
  · rename_i h; exact absurd h.1 (by decide)
  · split
    · simp [homeText, hv]
    · simp [h126]

/-- A `~` directly followed by any other character is never expanded. -/
theorem spec_tilde_before_other (env : List (List Nat)) (b : Bool) (c : Nat) (post : List Nat)
    (hc : c ≠ 47 ∧ c ≠ 58 ∧ c ≠ 0) :
    specFrom env b (126 :: c :: post) = 126 :: specFrom env false (c :: post) := by
  have hd : isPathDelim c = false := by
    simp [isPathDelim, hc.1, hc.2.1, hc.2.2]
  rw [specFrom]
  have h126 : isPathDelim 126 = false := by decide
  simp [hd, h126]

/-- A `~` directly preceded by anything but a delimiter (plain text as in `a-~/b`, or the end of a
reference as in `$X~`) is copied, whatever follows it. -/
theorem spec_tilde_after_other (env : List (List Nat)) (post : List Nat) :
    specFrom env false (126 :: post) = 126 :: specFrom env false post := by
  rw [specFrom]
  simp [isPathDelim]

/-- The same at string level: plain text ending in a byte that is not a delimiter, then `~`. -/
theorem spec_tilde_glued (env : List (List Nat)) (pre post : List Nat)
    (h1 : 36 ∉ pre) (h2 : 126 ∉ pre) (hpre : endsDelim true pre = false) :
    spec env (pre ++ 126 :: post) = pre ++ 126 :: specFrom env false post := by
  rw [spec, spec_plain_prefix env true pre _ h1 h2, hpre, spec_tilde_after_other]

/-- `find_env` returns the value of the first `NAME=value` entry with exactly that name. -/
theorem findEnv_first (pre post : List (List Nat)) (name v : List Nat) (hname : 61 ∉ name)
    (hpre : ∀ e ∈ pre, ¬(e.take name.length = name ∧ at' e name.length = 61)) :
    findEnv (pre ++ (name ++ 61 :: v) :: post) name = some v := by
  have _ := hname  -- not needed: the entry `name ++ '=' :: v` matches whatever `name` contains
  induction pre with
  | nil =>
    simp [findEnv, at']
  | cons e rest ih =>
    have he := hpre e (by simp)
    simp only [List.cons_append, findEnv, he, if_false]
    exact ih (fun e' he' => hpre e' (by simp [he']))

/-! ## the character classes are the code's (regenerated on every run)

`Generated/CharClass.lean` lists, for each of the 256 byte values, whether `is_var_name_char` /
`is_path_delim` of the current source accept it (obtained by compiling the source and calling
them); the model's predicates are the same sets, for every byte — not only for the bytes a
generated test string happened to contain. -/

theorem isVarChar_is_the_codes (c : Nat) (h : c < 256) :
    isVarChar c = Zix.Generated.varNameChars.contains c := by
  have key : ∀ c ∈ List.range 256, isVarChar c = Zix.Generated.varNameChars.contains c := by decide +kernel
  exact key c (List.mem_range.2 h)

theorem isPathDelim_is_the_codes (c : Nat) (h : c < 256) :
    isPathDelim c = Zix.Generated.pathDelims.contains c := by
  have key : ∀ c ∈ List.range 256, isPathDelim c = Zix.Generated.pathDelims.contains c := by decide +kernel
  exact key c (List.mem_range.2 h)

/-! ## non-vacuity -/
-- "a$X:~/b$Y" with X=1, HOME=/h, Y unset
example : expand [[88, 61, 49], [72, 79, 77, 69, 61, 47, 104]] [97, 36, 88, 58, 126, 47, 98, 36, 89]
    = some [97, 49, 58, 47, 104, 47, 98, 36, 89] := by decide
-- "a-~/b" and "$X~" (X=1) with HOME=/h: the '~' is not a component of its own
example : expand [[88, 61, 49], [72, 79, 77, 69, 61, 47, 104]] [97, 45, 126, 47, 98]
    = some [97, 45, 126, 47, 98] := by decide
example : expand [[88, 61, 49], [72, 79, 77, 69, 61, 47, 104]] [36, 88, 126]
    = some [49, 126] := by decide
-- "~:~" with HOME unset stays, with HOME=/h both are replaced
example : expand [[88, 61, 49]] [126, 58, 126] = some [126, 58, 126] := by decide
example : expand [[72, 79, 77, 69, 61, 47, 104]] [126, 58, 126] = some [47, 104, 58, 47, 104] := by decide
example : endsDelim true [97, 47] = true ∧ endsDelim true [97, 45] = false := by decide

end Zix.C16
