import ZixModel.Model.Sem
/-! # C17 — semaphore counts correctly and honours its timeout

Property theorems.  The kernel's semaphore, clock and signal delivery are *modelled*
(oracle of call results; abstract counter), not verified. -/
namespace Zix.C17
open Zix.Sem Zix.Errno Zix.Generated

/-! ## deadline arithmetic: every (seconds, nanoseconds) pair of `uint32_t`s -/

theorem normalize_spec (fuel : Nat) (ts : Timespec) (h0 : 0 ≤ ts.nsec) (hf : ts.nsec < (fuel + 1) * NS) :
    0 ≤ (normalize fuel ts).nsec ∧ (normalize fuel ts).nsec < NS ∧
    (normalize fuel ts).sec * NS + (normalize fuel ts).nsec = ts.sec * NS + ts.nsec := by
  induction fuel generalizing ts with
  | zero => unfold normalize; unfold NS at *; omega
  | succ n ih =>
    unfold normalize
    split
    · rename_i hge
      have := ih ⟨ts.sec + 1, ts.nsec - NS⟩ (by simp only; unfold NS at *; omega) (by simp only; unfold NS at *; omega)
      simp only at this
      unfold NS at *; omega
    · unfold NS at *; omega

/-- The deadline is exactly now + seconds + nanoseconds, normalised, for all 2^64 argument pairs. -/
theorem deadline_exact_normalised (now : Timespec) (hn0 : 0 ≤ now.nsec) (hn : now.nsec < NS)
    (seconds nanoseconds : Nat) (hns : nanoseconds < 2 ^ 32) :
    0 ≤ (deadline now seconds nanoseconds).nsec ∧ (deadline now seconds nanoseconds).nsec < NS ∧
    (deadline now seconds nanoseconds).sec * NS + (deadline now seconds nanoseconds).nsec
      = now.sec * NS + now.nsec + seconds * NS + nanoseconds := by
  have := normalize_spec 6 ⟨now.sec + seconds, now.nsec + nanoseconds⟩
    (by simp only; omega) (by simp only; unfold NS at *; omega)
  simp only at this
  unfold deadline
  unfold NS at *
  omega

/-! ## errno mapping (regenerated table) -/

theorem lookup_getD_cases (l : List (Int × Int)) (f e : Int) :
    (l.lookup e).getD f = f ∨ ∃ p ∈ l, p.1 = e ∧ (l.lookup e).getD f = (l.lookup p.1).getD f := by
  induction l with
  | nil => left; simp
  | cons p ps ih =>
    by_cases h : e = p.1
    · right; exact ⟨p, List.mem_cons_self, h.symm, by rw [h]⟩
    · rcases ih with h1 | ⟨q, hq, hq1, _⟩
      · have : (List.lookup e (p :: ps)) = List.lookup e ps := by
          obtain ⟨a, b⟩ := p
          simp only [List.lookup]
          have : (e == a) = false := by simpa using h
          rw [this]
        left; rw [this]; exact h1
      · right; exact ⟨q, List.mem_cons_of_mem _ hq, hq1, by rw [hq1]⟩

/-- `zix_errno_status(e)` is SUCCESS only for `e = 0`: a failed call is never reported as success. -/
theorem errno_success_iff (e : Int) : errnoStatus e = 0 ↔ e = 0 := by
  constructor
  · intro h
    have key : ∀ p ∈ errnoMap, (errnoMap.lookup p.1).getD errnoFallback = 0 → p.1 = 0 := by decide
    unfold errnoStatus at h
    rcases lookup_getD_cases errnoMap errnoFallback e with h1 | ⟨p, hp, hpe, hpl⟩
    · rw [h1] at h; exact absurd h (by decide)
    · rw [hpl] at h; rw [← hpe]; exact key p hp h
  · intro h; subst h; decide

/-- UNAVAILABLE comes from EAGAIN (= EWOULDBLOCK) only. -/
theorem errno_unavailable_iff (e : Int) : errnoStatus e = 11 ↔ e = 11 := by
  constructor
  · intro h
    have key : ∀ p ∈ errnoMap, (errnoMap.lookup p.1).getD errnoFallback = 11 → p.1 = 11 := by decide
    unfold errnoStatus at h
    rcases lookup_getD_cases errnoMap errnoFallback e with h1 | ⟨p, hp, hpe, hpl⟩
    · rw [h1] at h; exact absurd h (by decide)
    · rw [hpl] at h; rw [← hpe]; exact key p hp h
  · intro h; subst h; decide

/-- TIMEOUT comes from ETIMEDOUT only. -/
theorem errno_timeout_iff (e : Int) : errnoStatus e = 8 ↔ e = 110 := by
  constructor
  · intro h
    have key : ∀ p ∈ errnoMap, (errnoMap.lookup p.1).getD errnoFallback = 8 → p.1 = 110 := by decide
    unfold errnoStatus at h
    rcases lookup_getD_cases errnoMap errnoFallback e with h1 | ⟨p, hp, hpe, hpl⟩
    · rw [h1] at h; exact absurd h (by decide)
    · rw [hpl] at h; rw [← hpe]; exact key p hp h
  · intro h; subst h; decide

theorem errno_names_ok : errnoOf "EAGAIN" = some 11 ∧ errnoOf "EWOULDBLOCK" = some 11 ∧
    errnoOf "ETIMEDOUT" = some 110 ∧ errnoOf "EINTR" = some EINTR := by decide

/-! ## the retry loops -/

/-- A wait interrupted by signals any number of times resumes: the result is that of the first
call that is not EINTR, after exactly k+1 kernel calls. -/
theorem wait_resumes_after_eintr (k : Nat) (r : SysRes) (hr : r ≠ .err EINTR) (rest : List SysRes) (n : Nat) :
    retry (List.replicate k (.err EINTR) ++ r :: rest) n =
      some ((match r with | .ok => 0 | .err e => errnoStatus e), n + k + 1) := by
  induction k generalizing n with
  | zero =>
    cases r with
    | ok => simp [retry]
    | err e =>
      have : e ≠ EINTR := fun h => hr (by rw [h])
      simp [retry, this]
  | succ k ih =>
    simp only [List.replicate_succ, List.cons_append, retry, if_true]
    rw [ih]; congr 2; omega

/-- The status of a wait is never the mapping of EINTR: EINTR is always retried. -/
theorem wait_never_reports_eintr (oracle : List SysRes) (n : Nat) :
    ∀ res, retry oracle n = some res →
      ∃ k r rest, oracle = List.replicate k (.err EINTR) ++ r :: rest ∧ r ≠ .err EINTR ∧ res.2 = n + k + 1 := by
  induction oracle generalizing n with
  | nil => intro res h; simp [retry] at h
  | cons x xs ih =>
    intro res h
    cases x with
    | ok =>
      simp only [retry, Option.some.injEq] at h
      exact ⟨0, .ok, xs, by simp, by simp, by rw [← h]⟩
    | err e =>
      simp only [retry] at h
      split at h
      · rename_i he
        obtain ⟨k, r, rest, h1, h2, h3⟩ := ih (n + 1) res h
        refine ⟨k + 1, r, rest, ?_, h2, by omega⟩
        rw [h1, he]; simp [List.replicate_succ]
      · rename_i he
        simp only [Option.some.injEq] at h
        exact ⟨0, .err e, xs, by simp, by intro hh; injection hh with hh; exact he hh, by rw [← h]⟩

/-- `zix_sem_try_wait` reports UNAVAILABLE exactly when the (non-blocking) kernel call failed with EAGAIN,
i.e. when the count was zero; it reports SUCCESS exactly when the call succeeded. -/
theorem try_wait_status (r : SysRes) (rest : List SysRes) (hr : r ≠ .err EINTR) (hr0 : r ≠ .err 0) :
    (semTryWait (r :: rest) = some (11, 1) ↔ r = .err 11) ∧
    (semTryWait (r :: rest) = some (0, 1) ↔ r = .ok) := by
  cases r with
  | ok => simp [semTryWait, retry]
  | err e =>
    have he : e ≠ EINTR := fun h => hr (by rw [h])
    simp only [semTryWait, retry, he, if_false, Option.some.injEq, Prod.mk.injEq, and_true,
      SysRes.err.injEq, reduceCtorEq, iff_false]
    exact ⟨errno_unavailable_iff e, fun h => by
      have := (errno_success_iff e).mp h
      subst this
      exact hr0 rfl⟩

/-- `zix_sem_timed_wait` with a working clock: SUCCESS iff a unit was obtained, TIMEOUT iff the
kernel reported ETIMEDOUT against exactly the computed deadline; one kernel call when no signal arrives. -/
theorem timed_wait_status (now : Timespec) (sec nsec : Nat) (r : SysRes) (rest : List SysRes)
    (hr : r ≠ .err EINTR) (hr0 : r ≠ .err 0) :
    ∃ st, semTimedWait .ok now sec nsec (r :: rest) = some (st, 1, some (deadline now sec nsec)) ∧
      (st = 0 ↔ r = .ok) ∧ (st = 8 ↔ r = .err 110) := by
  cases r with
  | ok => exact ⟨0, by simp [semTimedWait, retry], by simp, by simp⟩
  | err e =>
    have he : e ≠ EINTR := fun h => hr (by rw [h])
    refine ⟨errnoStatus e, by simp [semTimedWait, retry, he], ?_, ?_⟩
    · simp only [reduceCtorEq, iff_false]
      intro h; have := (errno_success_iff e).mp h; subst this; exact hr0 rfl
    · simp only [SysRes.err.injEq]; exact errno_timeout_iff e

/-- Signals during a timed wait do not change the deadline or the outcome. -/
theorem timed_wait_resumes (now : Timespec) (sec nsec k : Nat) (r : SysRes) (rest : List SysRes)
    (hr : r ≠ .err EINTR) :
    semTimedWait .ok now sec nsec (List.replicate k (.err EINTR) ++ r :: rest) =
      some ((match r with | .ok => 0 | .err e => errnoStatus e), k + 1, some (deadline now sec nsec)) := by
  unfold semTimedWait
  simp only
  rw [wait_resumes_after_eintr k r hr rest 0]
  simp

/-! ## the abstract counter: any number of posters and waiters, any interleaving -/

def runCounter (c : Counter) (es : List Ev) : Counter := es.foldl Counter.step c

def CInv (c : Counter) : Prop :=
  c.succeeded + c.count = c.init + c.committed ∧ c.committed ≤ c.begun

theorem cinv_step (c : Counter) (e : Ev) (h : CInv c) : CInv (c.step e) ∧ (c.step e).init = c.init := by
  obtain ⟨h1, h2⟩ := h
  unfold Counter.step
  by_cases hen : c.enabled e = true
  · rw [if_pos hen]
    cases e with
    | postBegin => exact ⟨⟨h1, Nat.le_succ_of_le h2⟩, rfl⟩
    | postCommit =>
      simp only [Counter.enabled, decide_eq_true_eq] at hen
      refine ⟨⟨?_, ?_⟩, rfl⟩ <;> simp only <;> omega
    | waitOk =>
      simp only [Counter.enabled, decide_eq_true_eq] at hen
      refine ⟨⟨?_, ?_⟩, rfl⟩ <;> simp only <;> omega
  · rw [if_neg hen]; exact ⟨⟨h1, h2⟩, rfl⟩

theorem cinv_run (c : Counter) (es : List Ev) (h : CInv c) :
    CInv (runCounter c es) ∧ (runCounter c es).init = c.init := by
  induction es generalizing c with
  | nil => exact ⟨h, rfl⟩
  | cons e es ih =>
    have h1 := cinv_step c e h
    have h2 := ih (c.step e) h1.1
    show CInv (runCounter (c.step e) es) ∧ (runCounter (c.step e) es).init = c.init
    exact ⟨h2.1, by rw [h2.2, h1.2]⟩

/-- Conservation: on every interleaving, successful waits never exceed the initial value plus the
posts begun. -/
theorem sem_conservation (n : Nat) (es : List Ev) :
    (runCounter (Counter.start n) es).succeeded ≤ n + (runCounter (Counter.start n) es).begun := by
  have h := cinv_run (Counter.start n) es (by unfold CInv Counter.start; simp)
  unfold CInv at h
  have hi : (Counter.start n).init = n := rfl
  omega

/-- No lost wake-up: whenever the count is positive a wait can succeed, and every committed post
leaves the count positive. -/
theorem sem_no_lost_wakeup (c : Counter) :
    (0 < c.count → c.enabled .waitOk = true) ∧
    (c.enabled .postCommit = true → 0 < (c.step .postCommit).count ∧ (c.step .postCommit).enabled .waitOk = true) := by
  constructor
  · intro h; simp [Counter.enabled, h]
  · intro h
    have hs : c.step .postCommit = { c with committed := c.committed + 1, count := c.count + 1 } := by
      unfold Counter.step; rw [if_pos h]
    rw [hs]
    simp [Counter.enabled]

/-! ## non-vacuity -/
-- nanoseconds ≥ 10^9 with a carry chain: now = (5 s, 999999999 ns), wait (0 s, 4294967295 ns)
example : deadline ⟨5, 999999999⟩ 0 4294967295 = ⟨10, 294967294⟩ := by decide
example : semWait [.err 4, .err 4, .ok] = some (0, 3) := by decide
example : semTryWait [.err 11] = some (11, 1) := by decide
example : (runCounter (Counter.start 1) [.waitOk, .waitOk, .postBegin, .postCommit, .waitOk]).succeeded = 2 := by decide

/-- `zix_sem_post`, `zix_sem_init` and `zix_sem_destroy` make one kernel call each and report SUCCESS
exactly when it returned 0 — whatever errno held before — and otherwise the status of the errno the
call set (EOVERFLOW of a post at the maximum count is an error, never SUCCESS). -/
theorem once_success_iff (r : SysRes) (hl : ∀ e, r = .err e → e ≠ 0) : once r = 0 ↔ r = .ok := by
  cases r with
  | ok => simp [once]
  | err e =>
    have he := hl e rfl
    simp only [once, reduceCtorEq, iff_false]
    exact fun h => he ((errno_success_iff e).1 h)

example : once (.err 75) ≠ 0 := by decide      -- EOVERFLOW
example : semInitArgs 3 = (0, 3) := rfl

end Zix.C17
