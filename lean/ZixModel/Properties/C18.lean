import ZixModel.Model.Thread
import ZixModel.Properties.C17
/-! # C18 — threads: function once, requested stack, join synchronises

The theorems cover zix's argument plumbing and status mapping composed with an ASSUMED pthread
semantics (`platformCreate`); the behaviour of real threads is observed by the harness. -/
namespace Zix.C18
open Zix.Thread Zix.Errno

/-- The attribute handed to `pthread_create` is the one carrying the requested stack size — for
every size — and it is initialised before and destroyed after. -/
theorem create_passes_requested_stack (size : Nat) (ret : Int) :
    (threadCreate size ret).1 = [.attrInit, .attrSetStackSize size, .create (some size), .attrDestroy] := rfl

/-- Hence, under the platform's contract, the new thread's stack is at least the requested size,
and the function runs exactly once with the given argument. -/
theorem create_runs_once_on_requested_stack (size arg defaultStack : Nat) :
    ∀ c ∈ (threadCreate size 0).1, ∀ a, c = .create a →
      (platformCreate defaultStack a arg).stack ≥ size ∧ (platformCreate defaultStack a arg).ran = 1 ∧
      (platformCreate defaultStack a arg).arg = arg := by
  intro c hc a hca
  subst hca
  simp [threadCreate] at hc
  subst hc
  simp [platformCreate]

/-- SUCCESS is reported exactly when `pthread_create` returned 0: a thread that could not be created
is an error. -/
theorem create_error_reported (size : Nat) (ret : Int) : (threadCreate size ret).2 = 0 ↔ ret = 0 :=
  Zix.C17.errno_success_iff ret

theorem join_status (ret : Int) : threadJoin ret = 0 ↔ ret = 0 := by
  unfold threadJoin; split <;> simp_all

example : (threadCreate 33554432 11).2 = 11 := by decide   -- EAGAIN → UNAVAILABLE

end Zix.C18
