import ZixModel.Model.Thread
import ZixModel.Properties.C17
/-! # C18 — threads: function once, requested stack, join synchronises

The theorems cover zix's argument plumbing and status mapping composed with an ASSUMED pthread
semantics (`platformCreate`); the behaviour of real threads is observed by the harness. -/
namespace Zix.C18
open Zix.Thread Zix.Errno

/-- The attribute handed to `pthread_create` is the one that was given the stack size — for every
requested size — and it is initialised before and destroyed after. -/
theorem create_passes_requested_stack (size : Nat) (ret : Int) :
    (threadCreate size ret).1 =
      [.attrInit, .attrSetStackSize (attrSize size), .create (some (attrSize size)), .attrDestroy] := rfl

/-- The size passed on is never below the request, and is a whole number of pages whenever rounding
up does not wrap around (every request up to 2^64 - 4096). -/
theorem attrSize_ge (size : Nat) : attrSize size ≥ size := by
  unfold attrSize
  simp only
  split <;> omega

theorem attrSize_pages (size : Nat) (h : size + pageUnit ≤ W) : attrSize size % pageUnit = 0 := by
  unfold attrSize pageUnit W at *
  simp only
  split
  · omega
  · rename_i hlt
    exfalso
    apply hlt
    rw [Nat.mod_eq_of_lt (by omega)]
    omega

/-- Hence, on a platform that rounds an attribute's size DOWN to whole pages (as glibc does), the
new thread's stack is at least the requested size — also for requests that are not a multiple of
the page size — and the function runs exactly once with the given argument. -/
theorem create_runs_once_on_requested_stack (size arg defaultStack : Nat) (h : size + pageUnit ≤ W) :
    ∀ c ∈ (threadCreate size 0).1, ∀ a, c = .create a →
      (platformCreate defaultStack a arg).stack ≥ size ∧ (platformCreate defaultStack a arg).ran = 1 ∧
      (platformCreate defaultStack a arg).arg = arg := by
  intro c hc a hca
  subst hca
  simp [threadCreate] at hc
  subst hc
  have h1 := attrSize_ge size
  have h2 := attrSize_pages size h
  simp only [platformCreate, Option.getD_some, and_self, and_true]
  have : attrSize size / pageUnit * pageUnit = attrSize size := by
    unfold pageUnit at *; omega
  omega

/-- Passing the request on unrounded (as before the repair) is not enough on such a platform. -/
theorem unrounded_request_falls_short :
    (platformCreate 0 (some 100000) 0).stack < 100000 := by decide

/-- SUCCESS is reported exactly when `pthread_create` returned 0: a thread that could not be created
is an error. -/
theorem create_error_reported (size : Nat) (ret : Int) : (threadCreate size ret).2 = 0 ↔ ret = 0 :=
  Zix.C17.errno_success_iff ret

theorem join_status (ret : Int) : threadJoin ret = 0 ↔ ret = 0 := by
  unfold threadJoin; split <;> simp_all

example : (threadCreate 33554432 11).2 = 11 := by decide
example : attrSize 100000 = 102400 ∧ attrSize 16384 = 16384 ∧ attrSize 0 = 0 := by decide   -- EAGAIN → UNAVAILABLE

end Zix.C18
