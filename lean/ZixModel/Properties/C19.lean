import ZixModel.Model.Lock
import ZixModel.Properties.C17
/-! # C19 — file locks are mutually exclusive; TRY never blocks, BLOCK waits

Theorems about zix's flag plumbing (regenerated from the source) composed with an ASSUMED flock
semantics (`Zix.Lock.flock`); the kernel's behaviour is observed by the harness. -/
namespace Zix.C19
open Zix.Lock Zix.Generated Zix.Errno

/-- The flag expressions: both lock modes ask for an exclusive lock, TRY (and only TRY) carries
LOCK_NB; both unlock modes release. -/
theorem lock_flags_shape :
    lockFlagsBlock &&& LOCK_EX ≠ 0 ∧ lockFlagsBlock &&& LOCK_NB = 0 ∧ lockFlagsBlock &&& LOCK_UN = 0 ∧
    lockFlagsTry &&& LOCK_EX ≠ 0 ∧ lockFlagsTry &&& LOCK_NB ≠ 0 ∧ lockFlagsTry &&& LOCK_UN = 0 ∧
    unlockFlagsBlock &&& LOCK_UN ≠ 0 ∧ unlockFlagsTry &&& LOCK_UN ≠ 0 := by decide

/-- Mutual exclusion: from a free file, after any interleaving of lock / unlock / close by any
number of handles in any modes, at most one open file description holds the lock. -/
theorem lock_mutual_exclusion (ops : List Op) : (ops.foldl step ⟨[]⟩).holders.length ≤ 1 := by
  have key : ∀ (t : Table), t.holders.length ≤ 1 → ∀ op, (step t op).holders.length ≤ 1 := by
    intro t ht op
    have hfl : ∀ o fl, (flock t o fl).1.holders.length ≤ 1 := by
      intro o fl
      unfold flock
      split
      · exact Nat.le_trans (List.length_filter_le _ _) ht
      · split
        · split
          · simp
          · split <;> exact ht
        · exact ht
    cases op with
    | lock o m =>
      show (fileLock t o m).1.holders.length ≤ 1
      unfold fileLock
      have := hfl o (lockFlags m)
      split <;> simp_all
    | unlock o m =>
      show (fileUnlock t o m).1.holders.length ≤ 1
      unfold fileUnlock
      have := hfl o (unlockFlags m)
      split <;> simp_all
    | close o => exact Nat.le_trans (List.length_filter_le _ _) ht
  have : ∀ (t : Table), t.holders.length ≤ 1 → (ops.foldl step t).holders.length ≤ 1 := by
    induction ops with
    | nil => intro t ht; exact ht
    | cons op ops ih => intro t ht; exact ih _ (key t ht op)
  exact this _ (by simp)

/-- TRY returns immediately: SUCCESS when the lock is free (or already ours), UNAVAILABLE when
another open file description holds it; it never blocks. -/
theorem try_returns_immediately (t : Table) (ofd : Nat) :
    (fileLock t ofd .try_).2 ≠ none ∧
    (t.holders.all (· = ofd) = true → (fileLock t ofd .try_).2 = some 0 ∧ (fileLock t ofd .try_).1.holders = [ofd]) ∧
    (t.holders.all (· = ofd) = false → (fileLock t ofd .try_).2 = some 11 ∧ (fileLock t ofd .try_).1.holders = t.holders) := by
  have h := lock_flags_shape
  have hun : lockFlagsTry &&& LOCK_UN = 0 := h.2.2.2.2.2.1
  have hex : lockFlagsTry &&& LOCK_EX ≠ 0 := h.2.2.2.1
  have hnb : lockFlagsTry &&& LOCK_NB ≠ 0 := h.2.2.2.2.1
  have h11 : errnoStatus 11 = 11 := (Zix.C17.errno_unavailable_iff 11).mpr rfl
  unfold fileLock flock lockFlags
  simp only [hun, ne_eq, not_true_eq_false, if_false, hex, not_false_eq_true, if_true, hnb]
  by_cases ha : t.holders.all (· = ofd) = true
  · simp [ha]
  · have ha' : t.holders.all (· = ofd) = false := by simpa using ha
    simp [ha', h11]

/-- BLOCK returns only once the lock has been acquired: it either returns SUCCESS holding the lock,
or does not return (and changes nothing) while another holder has it. -/
theorem block_returns_only_when_acquired (t : Table) (ofd : Nat) :
    ((fileLock t ofd .block).2 = some 0 ∧ (fileLock t ofd .block).1.holders = [ofd]) ∨
    ((fileLock t ofd .block).2 = none ∧ (fileLock t ofd .block).1.holders = t.holders ∧ t.holders.all (· = ofd) = false) := by
  have h := lock_flags_shape
  have hun : lockFlagsBlock &&& LOCK_UN = 0 := h.2.2.1
  have hex : lockFlagsBlock &&& LOCK_EX ≠ 0 := h.1
  have hnb : lockFlagsBlock &&& LOCK_NB = 0 := h.2.1
  unfold fileLock flock lockFlags
  simp only [hun, ne_eq, not_true_eq_false, if_false, hex, not_false_eq_true, if_true, hnb]
  by_cases ha : t.holders.all (· = ofd) = true
  · left; simp [ha]
  · have ha' : t.holders.all (· = ofd) = false := by simpa using ha
    right; simp [ha']

/-- Signals are transparent: however many `flock` calls are interrupted (EINTR), `zix_file_lock`
ends exactly as the uninterrupted call does — in BLOCK mode still only by holding the lock — after
one more `flock` call per interruption.  Rests on the regenerated fact that the source retries. -/
theorem lock_interrupts_transparent (t : Table) (ofd : Nat) (mode : Mode) (k : Nat) :
    fileLockSig t ofd mode k = ((fileLock t ofd mode).1, (fileLock t ofd mode).2, k + 1) := by
  have hr : lockRetriesOnEintr = true := by decide
  induction k with
  | zero => simp [fileLockSig]
  | succ k ih => simp [fileLockSig, hr, ih]

/-- In particular an interrupted BLOCK request never returns without the lock. -/
theorem block_interrupted_returns_only_when_acquired (t : Table) (ofd : Nat) (k : Nat) :
    ((fileLockSig t ofd .block k).2.1 = some 0 ∧ (fileLockSig t ofd .block k).1.holders = [ofd]) ∨
    ((fileLockSig t ofd .block k).2.1 = none ∧ (fileLockSig t ofd .block k).1.holders = t.holders) := by
  rw [lock_interrupts_transparent]
  rcases block_returns_only_when_acquired t ofd with h | h
  · exact Or.inl h
  · exact Or.inr ⟨h.1, h.2.1⟩

/-- Unlock (in either mode) releases: afterwards the lock is free, so a later or waiting locker
(any mode) succeeds at once. -/
theorem unlock_releases (t : Table) (holder other : Nat) (m m' : Mode) (ht : t.holders = [holder]) :
    (fileUnlock t holder m).2 = some 0 ∧ (fileUnlock t holder m).1.holders = [] ∧
    (fileLock (fileUnlock t holder m).1 other m').2 = some 0 := by
  have h := lock_flags_shape
  have hu : unlockFlags m &&& LOCK_UN ≠ 0 := by cases m <;> simp [unlockFlags, h.2.2.2.2.2.2.1, h.2.2.2.2.2.2.2]
  have h1 : (fileUnlock t holder m).1.holders = [] ∧ (fileUnlock t holder m).2 = some 0 := by
    unfold fileUnlock flock
    simp [hu, ht]
  refine ⟨h1.2, h1.1, ?_⟩
  have hl : lockFlags m' &&& LOCK_UN = 0 ∧ lockFlags m' &&& LOCK_EX ≠ 0 := by
    cases m' <;> simp [lockFlags, h.1, h.2.2.1, h.2.2.2.1, h.2.2.2.2.2.1]
  unfold fileLock flock
  simp [hl.1, hl.2, h1.1]

example : (fileLockSig ⟨[]⟩ 1 .block 3).1.holders = [1] ∧ (fileLockSig ⟨[]⟩ 1 .block 3).2 = (some 0, 4) := by decide
example : (([.lock 1 .try_, .lock 2 .try_, .lock 2 .block, .unlock 1 .try_, .lock 2 .block] : List Op).foldl step ⟨[]⟩).holders = [2] := by decide

end Zix.C19
