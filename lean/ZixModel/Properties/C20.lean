import ZixModel.Model.Status
import ZixModel.Lemmas.StrView
/-! # C20 — status messages total and well-formed; string views compare and copy exactly

Property theorems only.  The status tables come from `Generated/Status.lean`, which is
re-extracted from `include/zix/status.h` and `src/status.c` on every run; the `decide`
proofs below are therefore re-checked against what the code says now. -/
namespace Zix.C20
open Zix.Generated Zix.Status Zix.StrView

/-! ## zix_strerror -/

/-- Every defined status gets the description its enumerator has in the header. -/
theorem strerror_matches_header : ∀ p ∈ statusEnum, strerror p.1 = p.2 := by decide

/-- Defined statuses have pairwise different values and pairwise different messages,
except that nothing is said about the generic message (see `strerror_distinct`). -/
theorem enum_values_nodup : enumValues.Nodup := by decide

/-- A different message for each defined status. -/
theorem strerror_distinct : (enumValues.map strerror).Nodup := by decide

/-- Messages of defined statuses are non-empty, one sentence, upper-case first letter,
no trailing period. -/
theorem strerror_wellformed_enum : ∀ v ∈ enumValues, wellFormed (strerror v) = true := by decide

/-- The `case` labels are all enumerators, so nothing outside the enumeration is special-cased. -/
theorem cases_subset_enum : ∀ c ∈ strerrorCases, c.1 ∈ enumValues := by decide

/-- The generic message is literally "Unknown error". -/
theorem strerror_default_text :
    strerrorDefault = [85, 110, 107, 110, 111, 119, 110, 32, 101, 114, 114, 111, 114] := by decide

/-- Any integer outside the enumeration yields the generic message (all of `Int`, no bound). -/
theorem strerror_out_of_range (v : Int) (h : v ∉ enumValues) : strerror v = strerrorDefault := by
  unfold strerror
  have : strerrorCases.lookup v = none := by
    rw [List.lookup_eq_none_iff]
    intro p hp
    have := cases_subset_enum p hp
    simp only [bne_iff_ne, ne_eq]
    intro heq
    exact h (heq ▸ this)
  simp [this]

/-- Totality and well-formedness for every integer. -/
theorem strerror_total_wellformed (v : Int) : wellFormed (strerror v) = true := by
  by_cases h : v ∈ enumValues
  · exact strerror_wellformed_enum v h
  · rw [strerror_out_of_range v h]; decide

/-- 'Success' and 'Out of memory' as the statement spells them out. -/
theorem strerror_success : strerror 0 = [83, 117, 99, 99, 101, 115, 115] := by decide
theorem strerror_no_mem : strerror 2 = [79, 117, 116, 32, 111, 102, 32, 109, 101, 109, 111, 114, 121] := by decide

/-! ## string views -/

/-- `zix_string_view_equals` is true exactly when lengths and bytes agree, for every pair of
in-bounds views of one storage: disjoint, overlapping, identical, empty, with NULs. -/
theorem view_equals_iff (mem : List Nat) (l r : View)
    (hl : l.off + l.len ≤ mem.length) (hr : r.off + r.len ≤ mem.length) :
    viewEquals mem l r = true ↔ l.len = r.len ∧ l.bytes mem = r.bytes mem := by
  unfold viewEquals
  by_cases hlen : l.len = r.len
  · simp only [hlen, bne_self_eq_false, Bool.false_eq_true, ↓reduceIte, true_and]
    by_cases hoff : l.off = r.off
    · have : l = r := by cases l; cases r; simp_all
      simp [this]
    · simp only [bne_iff_ne, ne_eq, hoff, not_false_eq_true, ↓reduceIte]
      rw [cmpLoop_iff]
      constructor
      · intro hall
        apply List.ext_getElem?
        intro j
        rw [bytes_getElem?, bytes_getElem?, hlen]
        split
        · rename_i hj; simpa using hall j (by omega)
        · rfl
      · intro heq j hj
        have := congrArg (·[j]?) heq
        simp only [bytes_getElem?, hlen, hj, ↓reduceIte] at this
        simpa using this
  · have : (l.len != r.len) = true := by simpa using hlen
    simp [this, hlen]

/-- `zix_string_view_copy` returns exactly the viewed bytes followed by one NUL. -/
theorem view_copy_exact (mem : List Nat) (v : View) (h : v.off + v.len ≤ mem.length) :
    (viewCopy mem v).length = v.len + 1 ∧
    (viewCopy mem v).take v.len = v.bytes mem ∧
    (viewCopy mem v)[v.len]? = some 0 := by
  have hl := bytes_length mem v h
  unfold viewCopy
  refine ⟨by simp [hl], ?_, ?_⟩
  · rw [List.take_append_of_le_length (by omega)]; rw [List.take_of_length_le (by omega)]
  · rw [List.getElem?_append_right (by omega)]; simp [hl]

/-! ## non-vacuity -/
example : (14 : Int) ∉ enumValues ∧ (-1 : Int) ∉ enumValues ∧ (13 : Int) ∈ enumValues := by decide
-- overlapping, equal-content views of one storage: "abab" [0,2) and [2,4)
example : viewEquals [97, 98, 97, 98] ⟨0, 2⟩ ⟨2, 2⟩ = true := by decide
-- embedded NUL, differing after it
example : viewEquals [0, 1, 0, 2] ⟨0, 2⟩ ⟨2, 2⟩ = false := by decide

end Zix.C20
