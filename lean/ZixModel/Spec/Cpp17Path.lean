import ZixModel.Model.Path
/-! The C++17 `std::filesystem::path` rules ([fs.path.generic], [fs.path.decompose], [fs.path.gen],
[fs.path.itr]) transcribed over the generic format for POSIX (no root names): a path is
"has a root directory" plus its filename elements, where a trailing separator yields a trailing
empty element.  This transcription is cross-checked against libstdc++ on every run. -/
namespace Zix.PathSpec
open Zix.Path

structure P where
  root  : Bool
  names : List (List Nat)
deriving Repr, DecidableEq

/-- Split a relative part (no leading separator) at runs of separators. -/
def splitAux : (fuel : Nat) → List Nat → List Nat → List (List Nat)
  | 0, _, cur => [cur.reverse]
  | _, [], cur => [cur.reverse]
  | fuel + 1, c :: rest, cur =>
    if isSep c then cur.reverse :: splitAux fuel (rest.dropWhile isSep) []
    else splitAux fuel rest (c :: cur)

def splitNames (r : List Nat) : List (List Nat) := if r = [] then [] else splitAux (r.length + 1) r []

def parse (s : List Nat) : P := ⟨isSep (s.headD 0), splitNames (s.dropWhile isSep)⟩

/-- The iteration sequence: the root directory (as "/") then the filenames. -/
def P.elems (p : P) : List (List Nat) := (if p.root then [[sep]] else []) ++ p.names

def rootDirText (s : List Nat) : List Nat := if (parse s).root then [sep] else []
def relativeText (s : List Nat) : List Nat := s.dropWhile isSep

def filename (s : List Nat) : List Nat := (parse s).names.getLastD []

def parent (s : List Nat) : P :=
  let p := parse s
  if p.names = [] then p else ⟨p.root, p.names.dropLast⟩

/-- index of the last '.' in a filename -/
def lastDot (f : List Nat) : Option Nat :=
  let r := f.reverse
  let k := (r.takeWhile (· ≠ dot)).length
  if k = f.length then none else some (f.length - 1 - k)

def extension (s : List Nat) : List Nat :=
  let f := filename s
  if f = [dot] ∨ f = [dot, dot] then []
  else match lastDot f with
    | none => []
    | some 0 => []
    | some i => f.drop i

def stem (s : List Nat) : List Nat :=
  let f := filename s
  f.take (f.length - (extension s).length)

/-- [fs.path.generic]/6, rules 4-6, on the non-empty filename elements (output reversed): dot
elements vanish, a dot-dot removes the name before it, or itself directly under the root. -/
def normStack (root : Bool) : List (List Nat) → List (List Nat) → List (List Nat)
  | [], out => out.reverse
  | n :: rest, out =>
    if n = [dot] then normStack root rest out
    else if n = [dot, dot] then
      match out with
      | prev :: out' => if prev ≠ [dot, dot] then normStack root rest out' else normStack root rest (n :: out)
      | [] => if root then normStack root rest out else normStack root rest (n :: out)
    else normStack root rest (n :: out)

/-- C++17 `lexically_normal` as a path value.  The result ends in a separator (trailing empty
element) when the input did, or when its last element was a removed dot / a dot-dot that removed
a name — except after a dot-dot (rule 7); an empty result becomes dot (rule 8). -/
def normal (s : List Nat) : P :=
  if s = [] then ⟨false, []⟩
  else
    let p := parse s
    let names := p.names.filter (· ≠ [])
    let trailing := p.names.getLast? == some []
    let out := normStack p.root names []
    let lastIn := names.getLast?
    let tsep : Bool := out ≠ [] ∧ out.getLast? ≠ some [dot, dot] ∧
      (trailing ∨ lastIn = some [dot] ∨ lastIn = some [dot, dot])
    if !p.root ∧ out = [] then ⟨false, [[dot]]⟩ else ⟨p.root, out ++ (if tsep then [[]] else [])⟩

/-- strip the common prefix of two element sequences -/
def mismatch : List (List Nat) → List (List Nat) → List (List Nat) × List (List Nat)
  | a :: as, b :: bs => if a = b then mismatch as bs else (a :: as, b :: bs)
  | as, bs => (as, bs)

/-- C++17 `lexically_relative`: `none` = the empty path. -/
def relative (p b : List Nat) : Option (List (List Nat)) :=
  let pp := parse p
  let bb := parse b
  if pp.root ≠ bb.root then none
  else
    let (ra, rb) := mismatch pp.elems bb.elems
    if ra = [] ∧ rb = [] then some [[dot]]
    else
      let ups := (rb.filter (· = [dot, dot])).length
      let names := (rb.filter (fun e => e ≠ [dot, dot] ∧ e ≠ [dot] ∧ e ≠ [])).length
      if names < ups then none
      else
        let n := names - ups
        if n = 0 ∧ (ra = [] ∨ ra.head? = some []) then some [[dot]]
        else some (List.replicate n [dot, dot] ++ ra)

/-- C++17 `operator/` on POSIX, as text. -/
def join (a b : List Nat) : List Nat :=
  if isSep (b.headD 0) then b
  else if a = [] then b
  else if filename a ≠ [] then a ++ [sep] ++ b
  else a ++ b

end Zix.PathSpec
