import ZixModel.Model.Env
/-! Specification of environment expansion as a left-to-right tokeniser over the string:
`$NAME` (NAME = longest non-empty run of `[A-Z0-9_]`), a `~` that stands alone as a path
component (preceded by the start of the string or a path delimiter, followed by a path delimiter
or the end), and literal bytes.  Values are appended verbatim (never rescanned).
`prevDelim` tells whether the byte before the current position is the start of the string or a
path delimiter. -/
namespace Zix.Env

theorem length_dropWhile_le' (p : Nat → Bool) (l : List Nat) : (l.dropWhile p).length ≤ l.length := by
  induction l with
  | nil => simp
  | cons x xs ih => simp only [List.dropWhile]; split <;> simp <;> omega

/-- What the expansion of the rest of the string must be. -/
def specFrom (env : List (List Nat)) : (prevDelim : Bool) → List Nat → List Nat
  | _, [] => []
  | prevDelim, c :: rest =>
    if c = 36 ∧ isVarChar (rest.headD 0) then
      let name := rest.takeWhile isVarChar
      varText env (c :: name) ++ specFrom env false (rest.dropWhile isVarChar)
    else if c = 126 ∧ isPathDelim (rest.headD 0) ∧ prevDelim = true then
      homeText env ++ specFrom env false rest
    else
      c :: specFrom env (isPathDelim c) rest
termination_by _ l => l.length
decreasing_by
  all_goals simp_wf
  · have := length_dropWhile_le' isVarChar rest; omega

/-- What the expansion of `str` must be. -/
def spec (env : List (List Nat)) (str : List Nat) : List Nat := specFrom env true str

end Zix.Env
