import ZixModel.Model.Env
/-! Specification of environment expansion as a left-to-right tokeniser over the string:
`$NAME` (NAME = longest non-empty run of `[A-Z0-9_]`), a `~` followed by a path delimiter or
the end, and literal bytes.  Values are appended verbatim (never rescanned). -/
namespace Zix.Env

theorem length_dropWhile_le' (p : Nat → Bool) (l : List Nat) : (l.dropWhile p).length ≤ l.length := by
  induction l with
  | nil => simp
  | cons x xs ih => simp only [List.dropWhile]; split <;> simp <;> omega

/-- What the expansion of `str` must be. -/
def spec (env : List (List Nat)) : List Nat → List Nat
  | [] => []
  | c :: rest =>
    if c = 36 ∧ isVarChar (rest.headD 0) then
      let name := rest.takeWhile isVarChar
      varText env (c :: name) ++ spec env (rest.dropWhile isVarChar)
    else if c = 126 ∧ isPathDelim (rest.headD 0) then
      varText env homeRef ++ spec env rest
    else
      c :: spec env rest
termination_by l => l.length
decreasing_by
  all_goals simp_wf
  · have := length_dropWhile_le' isVarChar rest; omega

end Zix.Env
