"""Reviewed purity of the public zix functions: the strongest function attribute each declaration may carry.
`const` = the result depends on the argument VALUES only (no memory is read); `pure` = no side effect, but memory may be read
(so calls may be merged only when no write intervenes).  Anything else (a function that loads what another thread stores,
takes a lock, allocates, touches the file system or the environment, writes through a pointer) may carry neither: an
optimising caller is allowed to merge, hoist or drop calls of pure/const functions.  A declaration that is stronger than this
table says breaks every property stated for that function on some caller, whatever the library's object code does."""
import os, re

ALLOWED = {
    "zix_default_allocator": "const",
    "zix_btree_end": "const", "zix_btree_iter_equals": "const", "zix_btree_iter_is_end": "const",
    "zix_btree_begin": "pure", "zix_btree_get": "pure", "zix_btree_size": "pure",
    "zix_digest": "pure", "zix_digest32": "pure", "zix_digest32_aligned": "pure", "zix_digest64": "pure", "zix_digest64_aligned": "pure", "zix_digest_aligned": "pure",
    "zix_hash_begin": "pure", "zix_hash_end": "pure", "zix_hash_get": "pure", "zix_hash_next": "pure", "zix_hash_record_at": "pure", "zix_hash_size": "pure",
    "zix_hash_find": "pure", "zix_hash_find_record": "pure",
    "zix_ring_capacity": "pure",
    "zix_strerror": "const",
    "zix_string_view_equals": "pure", "zix_empty_string": "const", "zix_substring": "const", "zix_string": "pure",
    "zix_tree_end": "const", "zix_tree_rend": "const", "zix_tree_iter_is_end": "const", "zix_tree_iter_is_rend": "const",
    "zix_tree_begin": "pure", "zix_tree_rbegin": "pure", "zix_tree_get": "pure", "zix_tree_iter_next": "pure", "zix_tree_iter_prev": "pure", "zix_tree_size": "pure",
}
for _f in ["extension", "filename", "has_extension", "has_filename", "has_parent_path", "has_relative_path", "has_root_directory", "has_root_name", "has_root_path",
           "has_stem", "is_absolute", "is_relative", "parent_path", "relative_path", "root_directory", "root_name", "root_path", "stem"]:
    ALLOWED["zix_path_" + _f] = "pure"
# on POSIX the root name is always empty and is computed without reading the string
ALLOWED["zix_path_root_name"] = "const"; ALLOWED["zix_path_has_root_name"] = "const"

RANK = {"": 0, "pure": 1, "const": 2}

# which public headers each property's check audits
HEADERS = {
    "C01": ["btree.h"], "C02": ["btree.h"], "C03": ["hash.h"], "C04": ["ring.h"], "C05": ["ring.h"], "C06": ["tree.h"],
    "C07": ["allocator.h", "bump_allocator.h"], "C08": ["allocator.h", "bump_allocator.h"], "C09": ["bump_allocator.h"],
    "C10": ["path.h"], "C11": ["path.h"], "C12": ["path.h"], "C13": ["digest.h"], "C14": ["filesystem.h"], "C15": ["filesystem.h"],
    "C16": ["environment.h"], "C17": ["sem.h"], "C18": ["thread.h"], "C19": ["filesystem.h"], "C20": ["status.h", "string_view.h"],
}

def declared(repo, header):
    """{function: 'pure' | 'const' | ''} for every function declared in include/zix/<header>, read from the PREPROCESSED
    header (so that whatever macro spells the attribute on this platform is resolved)."""
    import subprocess
    tu = "#include <zix/%s>\n" % header
    r = subprocess.run(["gcc", "-std=gnu11", "-E", "-P", "-I", os.path.join(repo, "include"), "-x", "c", "-"], input=tu, capture_output=True, text=True)
    if r.returncode: raise RuntimeError(r.stderr[-500:])
    # keep only what comes from the zix headers: everything after the first zix declaration is enough for our purpose
    txt = r.stdout
    out = {}
    # split into top-level declarations / definitions
    depth = 0; cur = []; chunks = []
    for ch in txt:
        if ch == "{": depth += 1
        if depth == 0: cur.append(ch)
        if ch == "}":
            depth -= 1
            if depth == 0: chunks.append("".join(cur)); cur = []
            continue
        if ch == ";" and depth == 0: chunks.append("".join(cur)); cur = []
    for c in chunks:
        m = re.search(r"\b(zix_\w+)\s*\(", c)
        if not m or "typedef" in c.split(m.group(1))[0]: continue
        head = c[:m.start()] + c[m.end():]
        attrs = re.findall(r"__attribute__\s*\(\(\s*_*(\w+?)_*\s*[,)(]", c)
        a = "const" if "const" in attrs else ("pure" if "pure" in attrs else "")
        out[m.group(1)] = a
    return out

def audit(ck, headers):
    """Adds one obligation per declaration; reports a violation for each declaration stronger than ALLOWED."""
    from vlib import REPO
    bad = []
    seen = {}
    for h in headers:
        try:
            d = declared(REPO, h)
        except Exception as e:
            ck.machinery_error("header %s could not be read: %r" % (h, e)); return
        if not d:
            ck.machinery_error("header %s: no declarations recognised" % h); return
        for fn, a in sorted(d.items()):
            seen[fn] = a
            ck.cov["obligations"] += 1
            if RANK[a] > RANK[ALLOWED.get(fn, "")]: bad.append((h, fn, a))
            else: ck.cov["discharged"] += 1
    ck.cov["declaration_attributes"] = {k: v for k, v in seen.items() if v}
    if bad:
        ck.report_violation("decl", "# property %s — public declarations\n" % ck.prop + "".join(
            "# include/zix/%s declares %s with the `%s` attribute, but its result depends on more than that allows "
            "(reviewed table lib/attrs.py: at most `%s`): an optimising caller may merge, hoist or drop its calls\n" % (h, fn, a, ALLOWED.get(fn, "") or "no attribute") for h, fn, a in bad)
            + "# verdict: no-failing-input-found (the library's object code is unchanged; the failing program is any caller compiled with optimisation that repeats the call across a state change)\n", found=False)
