"""Runner library for the zix Lean-4 verification checks (see DESIGN.md §2.4, §4)."""
import fcntl, glob, hashlib, json, os, random, re, shutil, signal, subprocess, sys, time

VERIF = os.path.dirname(os.path.dirname(os.path.abspath(__file__)))
REPO = os.environ.get("VERIF_REPO", "/repo")
LEAN = os.path.join(VERIF, "lean")
DRIVER = os.path.join(LEAN, ".lake", "build", "bin", "zixdriver")
ALLOWED_AXIOMS = {"propext", "Classical.choice", "Quot.sound"}

FEATURES = [
    "-DZIX_NO_DEFAULT_CONFIG", "-D_GNU_SOURCE", "-DHAVE_POSIX_MEMALIGN", "-DHAVE_SEM_TIMEDWAIT",
    "-DHAVE_CLOCK_GETTIME", "-DHAVE_COPY_FILE_RANGE", "-DHAVE_FILENO", "-DHAVE_FLOCK", "-DHAVE_LSTAT",
    "-DHAVE_MLOCK", "-DHAVE_PATHCONF", "-DHAVE_POSIX_FADVISE", "-DHAVE_REALPATH", "-DHAVE_SYSCONF",
]
SAN = ["-O1", "-g", "-fsanitize=address,undefined", "-fno-sanitize-recover=all", "-fno-omit-frame-pointer"]
# VERIF_COV=<dir>: measure which lines of the zix sources the correspondence runs execute (gen/kcoverage.py); not used by the checks
COV_DIR = os.environ.get("VERIF_COV")
if COV_DIR: SAN = SAN + ["--coverage", "-fprofile-update=atomic"]
GUARD = "-DZIX_VERIF"

TRUSTED_BASE_COMMON = [
    "Lean 4.33.0 kernel; axioms allowed in #print axioms: propext, Classical.choice, Quot.sound (audited every run)",
    "no sorry/admit/axiom/native_decide/bv_decide/implemented_by/unsafe in lean/ZixModel (grepped every run)",
    "hand-written Lean model tied to /repo's sources by the correspondence harness (differential testing: what it did not generate it did not check)",
    "translators in gen/ for generated constants and tables",
    "C compiler, libc, ASan/UBSan used to run the implementation",
]


def sh(cmd, **kw):
    return subprocess.run(cmd, capture_output=True, text=True, **kw)


def strip_lean_comments(src):
    out, i, depth, n = [], 0, 0, len(src)
    while i < n:
        if src.startswith("/-", i):
            depth += 1; i += 2; continue
        if depth and src.startswith("-/", i):
            depth -= 1; i += 2; continue
        if depth:
            if src[i] == "\n": out.append("\n")
            i += 1; continue
        if src.startswith("--", i):
            while i < n and src[i] != "\n": i += 1
            continue
        if src[i] == '"':
            j = i + 1
            while j < n and src[j] != '"':
                j += 2 if src[j] == "\\" else 1
            out.append('""'); i = j + 1; continue
        out.append(src[i]); i += 1
    return "".join(out)


FORBIDDEN = re.compile(r"\b(sorry|admit|native_decide|bv_decide|implemented_by|unsafe|extern)\b|^\s*axiom\s|maxHeartbeats\s+0|^\s*partial\s", re.M)


class Check:
    def __init__(self, prop, argv=None):
        self.prop = prop
        self.t0 = time.time()
        argv = sys.argv[1:] if argv is None else argv
        self.tier = os.environ.get("VERIF_TIER", "quick")
        self.replay = None
        i = 0
        while i < len(argv):
            if argv[i] == "--tier": self.tier = argv[i + 1]; i += 2
            elif argv[i] == "--replay": self.replay = argv[i + 1]; i += 2
            else: i += 1
        if self.tier not in ("quick", "thorough"): self.tier = "quick"
        self.seed = int(os.environ.get("VERIF_SEED", "1") or "1")
        self.rng = random.Random(self.seed * 1000003 + int(hashlib.sha1(prop.encode()).hexdigest()[:6], 16))
        self.work = os.path.join(VERIF, ".work", "%s-%d" % (prop, os.getpid()))
        os.makedirs(self.work, exist_ok=True)
        os.makedirs(os.path.join(VERIF, "replays"), exist_ok=True)
        os.makedirs(os.path.join(VERIF, "evidence"), exist_ok=True)
        self.violations = []        # (replay_path, found_input)
        self.known_hits = []
        self.notes = []
        self.level = "proof"
        self.cov = {
            "evaluations": 0, "distinct_nontrivial": 0, "rule": "", "samples": [],
            "traces_validated_against_impl": 0, "programs": 0, "disagreements_checked": 0,
            "obligations": 0, "discharged": 0, "checker_cmd": "", "trusted_base": list(TRUSTED_BASE_COMMON),
            "histogram": {},
        }
        self.assumptions = []
        self._distinct = set()
        self.known = self._load_known()
        self.theorems = []
        self.proof_ok = None

    # ---------------------------------------------------------------- known findings
    def _load_known(self):
        p = os.path.join(VERIF, "known_findings.json")
        if not os.path.exists(p): return []
        return [e for e in json.load(open(p)).get("entries", []) if e.get("property") == self.prop]

    def known_finding(self, key):
        """Return the entry if `key` names a recorded (unrepaired) finding of this property."""
        for e in self.known:
            if e.get("kind") == "finding" and e.get("key") == key:
                return e
        return None

    def hit_known(self, entry):
        if entry not in self.known_hits: self.known_hits.append(entry)

    # ---------------------------------------------------------------- (G) + (T)
    def write_generated(self, relpath, content):
        p = os.path.join(LEAN, "ZixModel", "Generated", relpath)
        old = open(p).read() if os.path.exists(p) else None
        if old != content:
            with open(p, "w") as f: f.write(content)
            self.notes.append("generated file %s changed" % relpath)
            return True
        return False

    def lake(self, targets, timeout=3600):
        lock = open(os.path.join(LEAN, ".build.lock"), "w")
        fcntl.flock(lock, fcntl.LOCK_EX)
        try:
            r = sh(["lake", "build"] + targets, cwd=LEAN, timeout=timeout)
        finally:
            fcntl.flock(lock, fcntl.LOCK_UN); lock.close()
        log = "\n".join(l for l in (r.stdout + r.stderr).splitlines() if "conda" not in l)
        return r.returncode == 0, log

    def build_driver(self):
        ok, log = self.lake(["zixdriver"])
        if not ok:
            self.machinery_error("Lean driver does not build:\n" + log[-4000:])
        return ok

    def prove(self, modules=None):
        """Build the property module(s), audit axioms of every theorem in them, grep for escapes.
        Returns True when every obligation is discharged."""
        modules = modules or ["ZixModel.Properties." + self.prop]
        self.cov["checker_cmd"] = "cd lean && lake build %s && lake env lean <audit: #print axioms of every theorem> (bin/check %s)" % (" ".join(modules), self.prop)
        thms = []
        for m in modules:
            path = os.path.join(LEAN, m.replace(".", "/") + ".lean")
            src = strip_lean_comments(open(path).read())
            ns = []
            for line in src.splitlines():
                mm = re.match(r"\s*namespace\s+(\S+)", line)
                if mm: ns.append(mm.group(1))
                mm = re.match(r"\s*end\s+(\S+)", line)
                if mm and ns and ns[-1] == mm.group(1): ns.pop()
                mm = re.match(r"\s*(?:@\[[^\]]*\]\s*)?(?:private\s+|protected\s+)?theorem\s+([^\s:({\[]+)", line)
                if mm: thms.append((m, ".".join(ns + [mm.group(1)])))
        self.theorems = [t for _, t in thms]
        self.cov["obligations"] = len(thms)
        ok, log = self.lake(modules)
        self.build_log = log
        if not ok:
            self.cov["discharged"] = 0
            self.proof_ok = False
            self.failed_theorems = self._failed_theorems(log, modules)
            return False
        # audit
        audit = os.path.join(self.work, "Audit.lean")
        with open(audit, "w") as f:
            for m in modules: f.write("import %s\n" % m)
            for _, t in thms: f.write("#print axioms %s\n" % t)
        r = sh(["lake", "env", "lean", audit], cwd=LEAN)
        out = r.stdout + r.stderr
        bad, seen, axioms_used = [], 0, set()
        for mm in re.finditer(r"'(\S+)' (does not depend on any axioms|depends on axioms: \[([^\]]*)\])", out, re.S):
            seen += 1
            axs = set(a.strip() for a in (mm.group(3) or "").replace("\n", " ").split(",") if a.strip())
            axioms_used |= axs
            if not axs <= ALLOWED_AXIOMS: bad.append((mm.group(1), sorted(axs - ALLOWED_AXIOMS)))
        if r.returncode != 0 or seen != len(thms):
            self.machinery_error("axiom audit failed (%d of %d theorems reported):\n%s" % (seen, len(thms), out[-3000:]))
            self.proof_ok = False
            return False
        # escapes
        esc = []
        for p in glob.glob(os.path.join(LEAN, "ZixModel", "**", "*.lean"), recursive=True):
            s = strip_lean_comments(open(p).read())
            for mm in FORBIDDEN.finditer(s):
                esc.append("%s: %s" % (os.path.relpath(p, LEAN), mm.group(0).strip()))
        self.cov["axioms_used"] = sorted(axioms_used)
        if bad or esc:
            self.proof_ok = False
            self.cov["discharged"] = len(thms) - len(bad)
            self.failed_theorems = [b[0] for b in bad] + esc
            self.notes.append("audit: disallowed axioms %r, escapes %r" % (bad, esc))
            return False
        # thorough tier: independent re-check of the compiled property modules by leanchecker (replays every
        # declaration of the .olean through the kernel again, outside the elaborator)
        if self.tier == "thorough" and os.environ.get("VERIF_NO_LEANCHECKER") != "1":
            for m in modules:
                r = sh(["lake", "env", "leanchecker", m], cwd=LEAN, timeout=1800)
                if r.returncode != 0:
                    self.proof_ok = False
                    self.failed_theorems = ["leanchecker rejects " + m]
                    self.build_log = (r.stdout + r.stderr)[-4000:]
                    self.notes.append("leanchecker failed on %s" % m)
                    return False
            self.notes.append("leanchecker re-checked: " + ", ".join(modules))
        self.cov["discharged"] = len(thms)
        self.proof_ok = True
        return True

    def _failed_theorems(self, log, modules):
        failed = []
        for mm in re.finditer(r"error: (\S+\.lean):(\d+):\d+", log):
            path = os.path.join(LEAN, mm.group(1)) if not os.path.isabs(mm.group(1)) else mm.group(1)
            try: lines = open(path).read().splitlines()
            except OSError: continue
            ln = int(mm.group(2))
            name = None
            for k in range(min(ln, len(lines)) - 1, -1, -1):
                m2 = re.match(r"\s*(?:theorem|lemma|example|def)\s*([^\s:({\[]*)", lines[k])
                if m2: name = m2.group(1) or "example@%d" % (k + 1); break
            tag = "%s:%s" % (os.path.basename(path), name or ln)
            if tag not in failed: failed.append(tag)
        return failed or ["build of %s failed" % " ".join(modules)]

    def leanchecker(self, modules):
        for m in modules:
            r = sh(["lake", "env", "leanchecker", m], cwd=LEAN, timeout=1800)
            if r.returncode != 0:
                self.machinery_error("leanchecker rejected %s:\n%s" % (m, (r.stdout + r.stderr)[-2000:]))
                return False
        self.cov["trusted_base"].append("leanchecker re-checked: " + ", ".join(modules))
        return True

    # ---------------------------------------------------------------- (K)
    def cc(self, name, sources, flags=(), cxx=False, san=True, compiler=None, libs=(), objs=()):
        """objs: [(source, [extra flags])] compiled separately (C) and linked in."""
        exe = os.path.join(self.work, name)
        comp = compiler or ("g++" if cxx else "gcc")
        extra_objs = []
        for i, (src, oflags) in enumerate(objs):
            o = os.path.join(self.work, "%s_obj%d.o" % (name, i))
            r = sh(["gcc", "-std=gnu11"] + (SAN if san else ["-O1", "-g"]) + ["-I", os.path.join(REPO, "include"), "-I", os.path.join(REPO, "src"),
                    "-I", os.path.join(VERIF, "harness")] + FEATURES + [GUARD] + list(oflags) + ["-c", src, "-o", o])
            if r.returncode != 0:
                self.machinery_error("object %s for harness %s does not compile:\n%s" % (src, name, (r.stderr or r.stdout)[-3000:]))
                return None
            extra_objs.append(o)
        cmd = [comp] + (["-std=gnu++17"] if cxx else ["-std=gnu11"]) + (SAN if san else ["-O1", "-g"]) + \
              ["-I", os.path.join(REPO, "include"), "-I", os.path.join(REPO, "src"),
               "-I", os.path.join(VERIF, "harness")] + FEATURES + [GUARD] + list(flags) + \
              [s if (os.path.isabs(s) or not os.path.exists(os.path.join(VERIF, "harness", s))) else os.path.join(VERIF, "harness", s) for s in sources] + \
              extra_objs + ["-o", exe] + list(libs)
        r = sh(cmd)
        if r.returncode != 0:
            # /repo no longer compiles with the harness: not a verdict about the property
            self.machinery_error("harness %s does not compile against /repo:\n%s" % (name, (r.stderr or r.stdout)[-4000:]))
            return None
        return exe

    def run_impl(self, exe, script_path, args=(), env=None, timeout=600, linebuf=False):
        e = dict(os.environ)
        e["ASAN_OPTIONS"] = "detect_leaks=0:abort_on_error=0:allocator_may_return_null=1:detect_stack_use_after_return=0"
        e["UBSAN_OPTIONS"] = "print_stacktrace=1"
        if linebuf: e["VERIF_LINEBUF"] = "1"
        if env: e.update(env)
        out_path = script_path + ".impl.out"
        err_path = script_path + ".impl.err"
        with open(out_path, "w") as fo, open(err_path, "w") as fe:
            try:
                r = subprocess.run([exe, script_path] + list(args), stdout=fo, stderr=fe, env=e, timeout=timeout)
                rc = r.returncode
            except subprocess.TimeoutExpired:
                rc = -999
        lines = open(out_path, errors="replace").read().splitlines()
        err = open(err_path, errors="replace").read()
        return rc, lines, err

    def run_model(self, component, script_path, args=(), timeout=1200):
        out_path = script_path + ".model.out"
        with open(script_path) as fi, open(out_path, "w") as fo:
            r = subprocess.run([DRIVER, component] + list(args), stdin=fi, stdout=fo, stderr=subprocess.PIPE, timeout=timeout)
        if r.returncode != 0:
            self.machinery_error("model driver failed on %s: %s" % (script_path, r.stderr.decode(errors="replace")[-2000:]))
        return open(out_path).read().splitlines()

    def write_script(self, name, lines):
        p = os.path.join(self.work, name)
        with open(p, "w") as f:
            f.write("\n".join(lines)); f.write("\n")
        return p

    # histories: list of list-of-lines; marker lines "== k" are echoed by both sides
    def run_histories(self, tag, exe, component, histories, impl_args=(), model_args=(), env=None, timeout=900):
        """Run all histories on both sides.  Returns list of (index, kind, detail) problems,
        kind in {'api', 'wb', 'crash'}."""
        lines = []
        for k, h in enumerate(histories):
            lines.append("== %d" % k)
            lines.extend(h)
        sp = self.write_script(tag + ".script", lines)
        # the total time limit only guards against a hang of the whole run (single operations that never return are stopped
        # by the harnesses' own per-line watchdogs); it is generous so that a loaded machine does not turn into an alarm
        rc, impl, err = self.run_impl(exe, sp, impl_args, env=env, timeout=timeout * (8 if self.tier == "thorough" else 3))
        model = self.run_model(component, sp, model_args, timeout=1200 * (8 if self.tier == "thorough" else 3))
        self.cov["evaluations"] += sum(len(h) for h in histories)
        self.cov["traces_validated_against_impl"] += len(histories)
        self.cov["programs"] += len(histories)
        problems = []
        # split by markers
        def split(ls):
            d, cur = {}, None
            for l in ls:
                if l.startswith("== "):
                    try: cur = int(l[3:])
                    except ValueError: cur = None
                    if cur is not None: d[cur] = []
                elif cur is not None:
                    d[cur].append(l)
            return d
        di, dm = split(impl), split(model)
        for k, h in enumerate(histories):
            a, b = di.get(k), dm.get(k)
            if b is None:
                self.machinery_error("model produced no output for history %d of %s" % (k, tag)); break
            if a is None or (rc != 0 and k == max(di.keys(), default=-1) and len(a) < len(b)):
                problems.append((k, "crash", "implementation stopped (exit %s) in history %d; stderr tail:\n%s" % (rc, k, err[-1500:])))
                break
            if a != b:
                kind = "wb"
                for x, y in zip(a, b):
                    if x.split(" | ")[0] != y.split(" | ")[0]: kind = "api"; break
                if len(a) != len(b): kind = "api"
                problems.append((k, kind, None))
        if rc != 0 and not problems:
            problems.append((len(histories) - 1, "crash", "implementation exit status %s; stderr tail:\n%s" % (rc, err[-1500:])))
        self.cov["disagreements_checked"] += len(problems)
        return problems

    def kcompare(self, tag, exe, component, histories, impl_args=(), model_args=(), env=None, keep_head=1,
                 what="", max_reports=2, chunk=4000, known_key_fn=None, timeout=900, corpus_prefix=None):
        """Corpus first, then the generated histories; shrink and report the first few divergences
        (API-visible ones preferred).  Returns the number of problems seen."""
        allh = [ls for name, ls in self.corpus() if corpus_prefix is None or name.startswith(corpus_prefix + "-") or name.startswith("all-")] + list(histories)
        if self.replay:
            # --replay FILE: run only the script of that file, on the comparison whose tag is in its name
            base = os.path.basename(self.replay)
            if base.startswith(self.prop + "-") and ("-%s-" % tag) not in base:
                return 0
            txt = open(self.replay if os.path.isabs(self.replay) else os.path.join(VERIF, self.replay)).read()
            if "#--- script" in txt:
                body = txt.split("#--- script", 1)[1].split("#---", 1)[0]
            else:
                body = txt
            allh = [[l for l in body.splitlines() if l.strip() and not l.startswith("#")]]
            d = self.diverges(exe, component, allh[0], impl_args, model_args, env)
            print("REPLAY %s on %s: %s" % (base, os.path.basename(exe), "model and implementation agree" if d is None else "DIVERGES (%s)" % d[0]))
            if d is not None:
                for a, b in zip(d[1], d[2]):
                    if a != b:
                        print("  implementation: " + a[:400]); print("  model:          " + b[:400]); break
        problems = []
        for i in range(0, len(allh), chunk):
            part = allh[i:i + chunk]
            for (k, kind, detail) in self.run_histories("%s%d" % (tag, i // chunk), exe, component, part, impl_args, model_args, env, timeout):
                problems.append((i + k, kind, detail))
            if len([p for p in problems if p[1] != "wb"]) >= max_reports: break
        problems.sort(key=lambda p: (p[1] == "wb", len(allh[p[0]])))
        reported = 0
        for (k, kind, detail) in problems:
            if reported >= max_reports: break
            kk = known_key_fn(allh[k], kind) if known_key_fn else None
            r = self.report_divergence(tag, exe, component, allh[k], kind, detail, impl_args, model_args, env,
                                       keep_head=keep_head, what=what, known_key=kk)
            if r: reported += 1
        return len(problems)

    def diverges(self, exe, component, history, impl_args=(), model_args=(), env=None):
        """Run one history alone; return None if both sides agree, else (kind, report)."""
        sp = self.write_script("shrink.script", history)
        rc, impl, err = self.run_impl(exe, sp, impl_args, env=env, timeout=120, linebuf=True)
        model = self.run_model(component, sp, model_args)
        if rc != 0:
            return ("crash", impl, model, "exit status %s\n%s" % (rc, err[-3000:]))
        if impl == model: return None
        kind = "wb"
        for x, y in zip(impl, model):
            if x.split(" | ")[0] != y.split(" | ")[0]: kind = "api"; break
        if len(impl) != len(model): kind = "api"
        return (kind, impl, model, "")

    def shrink(self, exe, component, history, keep_head=1, want_kind=None, impl_args=(), model_args=(), env=None, budget=250):
        """Delta-debug a diverging history down to a small one that still diverges (same kind if asked)."""
        def bad(h):
            d = self.diverges(exe, component, h, impl_args, model_args, env)
            return d is not None and (want_kind is None or d[0] == want_kind or d[0] == "crash")
        head, body = history[:keep_head], history[keep_head:]
        n, calls = 2, 0
        while len(body) >= 2 and calls < budget:
            chunk = max(1, len(body) // n)
            reduced = False
            for i in range(0, len(body), chunk):
                cand = body[:i] + body[i + chunk:]
                calls += 1
                if bad(head + cand):
                    body, n, reduced = cand, max(n - 1, 2), True
                    break
                if calls >= budget: break
            if not reduced:
                if chunk == 1: break
                n = min(n * 2, len(body))
        return head + body

    def report_divergence(self, tag, exe, component, history, kind, detail=None, impl_args=(), model_args=(), env=None,
                          keep_head=1, what="", known_key=None):
        """Shrink, classify, write the replay file and record a violation."""
        small = self.shrink(exe, component, history, keep_head=keep_head,
                            want_kind=("api" if kind in ("api", "crash") else None), impl_args=impl_args, model_args=model_args, env=env)
        d = self.diverges(exe, component, small, impl_args, model_args, env)
        if d is None:
            small = history
            d = self.diverges(exe, component, small, impl_args, model_args, env)
        if d is None:
            d = (kind, [], [], detail or "divergence not reproducible when the history runs alone")
        k2, impl, model, extra = d
        found = k2 in ("api", "crash")
        if known_key:
            e = self.known_finding(known_key)
            if e: self.hit_known(e); return None
        name = "%s-%s-seed%d-%d.txt" % (self.prop, tag, self.seed, len(self.violations))
        path = os.path.join(VERIF, "replays", name)
        with open(path, "w") as f:
            f.write("# property %s — %s\n" % (self.prop, what or "correspondence between the Lean model and the implementation no longer checks"))
            f.write("# component/driver: %s   harness: %s %s\n" % (component, os.path.basename(exe), " ".join(impl_args)))
            if found:
                f.write("# verdict: the implementation's API-visible output differs from the proved model (= the specification) on this input%s\n"
                        % (" — the implementation crashed / was stopped by a sanitizer" if k2 == "crash" else ""))
            else:
                f.write("# verdict: no-failing-input-found — only the white-box state differs from the model; "
                        "the correspondence `%s` no longer checks, so the theorems no longer speak about this code\n" % component)
            f.write("# replay: bin/check %s --replay %s\n" % (self.prop, os.path.relpath(path, VERIF)))
            f.write("#--- script\n" + "\n".join(small) + "\n")
            f.write("#--- implementation output\n" + "\n".join("# " + l for l in impl) + "\n")
            f.write("#--- model output\n" + "\n".join("# " + l for l in model) + "\n")
            if extra: f.write("#--- diagnostics\n" + "\n".join("# " + l for l in extra.splitlines()) + "\n")
        self.violations.append((path, found))
        return path

    def report_proof_failure(self, what, found_input_text=None):
        name = "%s-proof-seed%d-%d.txt" % (self.prop, self.seed, len(self.violations))
        path = os.path.join(VERIF, "replays", name)
        with open(path, "w") as f:
            f.write("# property %s — proof obligation no longer checks\n" % self.prop)
            f.write("# failing theorem(s): %s\n" % ", ".join(getattr(self, "failed_theorems", []) or ["?"]))
            f.write("# %s\n" % what)
            if found_input_text:
                f.write("# verdict: concrete failing input found\n#--- failing input\n" + found_input_text + "\n")
            else:
                f.write("# verdict: no-failing-input-found\n")
            f.write("#--- lake build log (tail)\n" + "\n".join("# " + l for l in getattr(self, "build_log", "").splitlines()[-60:]) + "\n")
        self.violations.append((path, bool(found_input_text)))
        return path

    def report_violation(self, tag, text, found=True):
        name = "%s-%s-seed%d-%d.txt" % (self.prop, tag, self.seed, len(self.violations))
        path = os.path.join(VERIF, "replays", name)
        with open(path, "w") as f: f.write(text if text.endswith("\n") else text + "\n")
        self.violations.append((path, found))
        return path

    def translator_failed(self, msg):
        """A (G) translator no longer recognises the shape of the source it reads: the generated facts can not be renewed, so
        the theorems resting on them no longer speak about this code (reported, no failing input by itself).  The check goes on
        with the facts generated last, so that the correspondence run can still find a concrete failing input."""
        name = "%s-translator-seed%d-%d.txt" % (self.prop, self.seed, len(self.violations))
        path = os.path.join(VERIF, "replays", name)
        with open(path, "w") as f:
            f.write("# property %s — a translator of the generated facts failed\n# %s\n" % (self.prop, msg.replace("\n", "\n# ")))
            f.write("# verdict: no-failing-input-found — the constants / tables the theorems depend on could not be re-read from the changed source;\n"
                    "# the correspondence run continues with the facts generated last (see the other replay files of this run, if any)\n")
        self.violations.append((path, False))
        self.notes.append("translator failure: " + msg[:300])

    def machinery_error(self, msg):
        sys.stderr.write("MACHINERY-ERROR %s: %s\n" % (self.prop, msg))
        self.notes.append("machinery error: " + msg[:500])
        self._machinery_failed = True

    # ---------------------------------------------------------------- bookkeeping
    def count_distinct(self, key, nontrivial=True):
        if nontrivial: self._distinct.add(key if isinstance(key, (str, int, tuple)) else repr(key))

    def hist(self, key, n=1):
        self.cov["histogram"][key] = self.cov["histogram"].get(key, 0) + n

    def sample(self, s, limit=6):
        if len(self.cov["samples"]) < limit: self.cov["samples"].append(s)

    def corpus(self):
        d = os.path.join(VERIF, "corpus", self.prop)
        out = []
        for p in sorted(glob.glob(os.path.join(d, "*.txt"))):
            ls = [l for l in open(p).read().splitlines() if l and not l.startswith("#")]
            out.append((os.path.basename(p), ls))
        return out

    def finish(self):
        if COV_DIR:
            # keep the compiler's notes and the run-time counts of this check for gen/kcoverage.py
            dst = os.path.join(COV_DIR, os.path.basename(self.work)); os.makedirs(dst, exist_ok=True)
            for f in glob.glob(os.path.join(self.work, "*.gc*")): shutil.copy(f, dst)
        shutil.rmtree(self.work, ignore_errors=True)
        try: os.rmdir(os.path.join(VERIF, ".work"))
        except OSError: pass
        self.cov["distinct_nontrivial"] = max(self.cov.get("distinct_nontrivial", 0), len(self._distinct))
        if self.notes: self.cov["notes"] = self.notes
        if self.proof_ok is False or self.level != "proof":
            pass
        ev = {
            "property_id": self.prop, "tier": self.tier, "seed": self.seed, "level": self.level,
            "coverage": self.cov, "assumptions": self.assumptions,
            "wall_s": round(time.time() - self.t0, 2), "violations": len(self.violations),
        }
        if self.theorems: self.cov["theorems"] = self.theorems
        try:
            # what the claimed level means for this property (same text as MANIFEST.level_claimed), so the evidence
            # file can be read on its own
            sys.path.insert(0, os.path.join(VERIF, "gen"))
            import mkmanifest
            c = mkmanifest.CHECKS.get(self.prop)
            if c: self.cov["explanation"] = "%s -- %s Not covered / assumed: %s" % (c["tech"], c["text"], c["note"])
        except Exception:
            pass
        with open(os.path.join(VERIF, "evidence", self.prop + ".json"), "w") as f:
            json.dump(ev, f, indent=1)
        for e in self.known_hits:
            print("KNOWN-FINDING: property=%s %s" % (self.prop, e.get("what", e.get("key"))))
        if getattr(self, "_machinery_failed", False) and not self.violations:
            # the machinery could not decide: the property is not shown to hold
            p = self.report_violation("machinery", "# property %s — the check could not run to completion; nothing is shown\n# %s\n# verdict: no-failing-input-found\n" % (self.prop, "\n# ".join(self.notes)), found=False)
        for path, found in self.violations:
            rel = os.path.relpath(path, VERIF)
            print("VIOLATION property=%s replay=%s%s" % (self.prop, rel, "" if found else " no-failing-input-found"))
        sys.stdout.flush()
        return 1 if self.violations else 0
